#!/venv/bin/python
"""Validate candidate seeded changes produced by independent sub-agents and
keep the confirmed ones under /verif/seeded/<ID>-<x>/.

  tools_validate_seed.py /tmp/wt/out [ID ...]

For each <out>/<ID>/<x>/patch.diff: fresh scratch worktree of /repo HEAD,
`git apply`, whole test-suite against the patched sources (must pass),
demo with patch (must exit 1), demo on clean sources (must exit 0)."""
import json, os, shutil, subprocess, sys, tempfile

PY = '/venv/bin/python'
HERE = os.path.dirname(os.path.abspath(__file__))


def sh(cmd, **kw):
    return subprocess.run(cmd, capture_output=True, text=True, **kw)


def validate(out, pid, x):
    d = os.path.join(out, pid, x)
    patch = os.path.join(d, 'patch.diff')
    demo = os.path.join(d, 'demo.py')
    if not (os.path.exists(patch) and os.path.exists(demo)):
        return 'incomplete'
    wt = tempfile.mkdtemp(prefix='val_')
    os.rmdir(wt)
    r = sh(['git', '-C', '/repo', 'worktree', 'add', '-f', '--detach', wt, 'HEAD'])
    if r.returncode:
        return 'worktree failed: ' + r.stderr
    try:
        r = sh(['git', '-C', wt, 'apply', patch])
        if r.returncode:
            r2 = sh(['patch', '-p1', '-d', wt, '-i', patch])
            if r2.returncode:
                return 'patch does not apply: ' + r.stderr[:200]
        t = sh([PY, '/verif/tools_runtests.py', wt], timeout=900)
        if ' passed' not in t.stdout or 'failed' in t.stdout.split('\n')[-2:][0]:
            return 'tests do not pass with the change: ' + t.stdout[-300:]
        for f in os.listdir(os.path.join(wt, 'src/calmjs/parse/parsers')):
            if f.startswith(('lextab_', 'yacctab_')):
                os.remove(os.path.join(wt, 'src/calmjs/parse/parsers', f))
        a = sh([PY, demo, wt], timeout=300)
        sh(['git', '-C', wt, 'checkout', '--', '.'])
        for f in os.listdir(os.path.join(wt, 'src/calmjs/parse/parsers')):
            if f.startswith(('lextab_', 'yacctab_')):
                os.remove(os.path.join(wt, 'src/calmjs/parse/parsers', f))
        b = sh([PY, demo, wt], timeout=300)
        if a.returncode != 1:
            return 'demo does not fail with the change (rc=%s): %s' % (a.returncode, (a.stdout + a.stderr)[-300:])
        if b.returncode != 0:
            return 'demo does not pass on clean sources (rc=%s): %s' % (b.returncode, (b.stdout + b.stderr)[-300:])
        dest = os.path.join(HERE, 'seeded', '%s-%s' % (pid, x))
        os.makedirs(dest, exist_ok=True)
        # re-generate the patch against the current HEAD
        sh(['git', '-C', wt, 'apply', patch]) if not sh(['git', '-C', wt, 'apply', '--check', patch]).returncode else sh(['patch', '-p1', '-d', wt, '-i', patch])
        diff = sh(['git', '-C', wt, 'diff']).stdout
        open(os.path.join(dest, 'patch.diff'), 'w').write(diff)
        shutil.copy(demo, os.path.join(dest, 'demo.py'))
        meta = {}
        try:
            meta = json.load(open(os.path.join(d, 'meta.json')))
        except Exception:
            pass
        meta.update({
            'property': pid,
            'origin': 'independent sub-agent given only the property text and a scratch worktree',
            'validated': {
                'tests_with_change': t.stdout.strip().split('\n')[-1],
                'demo_with_change': 'exit 1: ' + (a.stdout + a.stderr).strip()[-300:],
                'demo_on_clean_sources': 'exit 0',
                'commands': ['git apply patch.diff', '/venv/bin/python /verif/tools_runtests.py <worktree>', '/venv/bin/python demo.py <worktree>'],
                'against_repo_head': sh(['git', '-C', '/repo', 'rev-parse', '--short', 'HEAD']).stdout.strip(),
            }})
        json.dump(meta, open(os.path.join(dest, 'meta.json'), 'w'), indent=1)
        return 'OK'
    finally:
        sh(['git', '-C', '/repo', 'worktree', 'remove', '--force', wt])
        shutil.rmtree(wt, ignore_errors=True)


def main():
    out = sys.argv[1]
    ids = sys.argv[2:] or sorted(d for d in os.listdir(out) if os.path.isdir(os.path.join(out, d)))
    for pid in ids:
        for x in sorted(os.listdir(os.path.join(out, pid))):
            if os.path.isdir(os.path.join(out, pid, x)):
                print('%s-%s: %s' % (pid, x, validate(out, pid, x)))


if __name__ == '__main__':
    main()
