#!/venv/bin/python
"""Run the repository's test suite against the sources of a worktree
(the installed copy in site-packages is what a plain pytest run imports).

  tools_runtests.py <worktree> [pytest args]
"""
import os
import sys

wt = os.path.abspath(sys.argv[1])
import calmjs  # noqa: E402
calmjs.__path__ = [os.path.join(wt, 'src', 'calmjs')] + list(calmjs.__path__)
for k in list(sys.modules):
    if k.startswith('calmjs.parse'):
        del sys.modules[k]
import calmjs.parse  # noqa: E402
assert calmjs.parse.__file__.startswith(wt), calmjs.parse.__file__
import pytest  # noqa: E402
os.chdir(wt)
sys.exit(pytest.main(['-q', '-p', 'no:cacheprovider', '--timeout=900']
                     + (sys.argv[2:] or ['src/calmjs/parse/tests'])))
