#!/venv/bin/python
"""kf_fix.py COMMIT PROP KEY [PROP KEY ...] : mark known findings as repaired"""
import json, sys, os
P = os.path.join(os.path.dirname(os.path.abspath(__file__)), 'known_findings.json')
data = json.load(open(P))
commit = sys.argv[1]
pairs = list(zip(sys.argv[2::2], sys.argv[3::2]))
for prop, key in pairs:
    for e in data['findings']:
        if e['property'] == prop and e['key'] == key:
            e['status'] = 'fixed'
            e['commit'] = commit
            e['record'] = 'fixed: property=%s %s %s' % (prop, commit, e.get('witness', ''))
            break
    else:
        raise SystemExit('no entry %s %s' % (prop, key))
json.dump(data, open(P, 'w'), indent=1, ensure_ascii=False)
print('marked', len(pairs))
