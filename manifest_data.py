# data for tools_manifest.py
CHECKS = {}
CHECKS['C03'] = dict(
    technique='static analysis: grammar-docstring extraction, NoIn/NoBF family image lint, sibling-action cross-check by abstract interpretation of the parser actions, LALR conflict audit (ply as a library on extracted tuples), definition/production skeleton alignment, bounded enumeration of the array/elision sub-grammar with the actions evaluated from source against the dictated items, Earley cross-membership against an embedded ES5.1 grammar (pair coverage; thorough: depth 2), automata inclusion of the NUMBER/STRING/REGEX token languages against ES5 7.8.3-7.8.5, plus every rule of C04 (semicolon insertion) and C05 (reading of `/`)',
    text='Decides the CFG layer (every production/action pair, exhaustive over the finite tables; node constructors must store their arguments unchanged, R03.9; a raising path of an action must reach a FuncExpr through leftmost printed children only, R03.10), the literal token languages (exact, automata), and the ASI / division-regex clauses through the rules of C04/C05. Not a proof of language equality with ECMA-262: the Earley cross-check is bounded, identifier/punctuator segmentation is C06.',
    ref='DESIGN.md sections 3 (C03), 9, 13.1',
    note='Trusted: CPython ast and re._parser, transcription of ply.yacc.parse_grammar, ply LALR construction used as a library on extracted (lhs, rhs) tuples, embedded ES5.1 reference grammar and lexical reference patterns. Analyses /repo/src text only.')

NA = {
}

CHECKS['C04'] = dict(
    technique='static analysis: grammar twin lint (SEMI/AUTOSEMI), decision tables of Lexer.auto_semi and of the restricted-production rule by abstract evaluation of the function syntax trees over the complete token-type domain, finite exploration of the extracted token-tracking transition function, t_ignore character-set check',
    text='Decides the clauses of ASI whose truth is in the shape of the code: which productions accept an inserted semicolon, the insertion predicate (exhaustive truth table vs 7.9.1), the restricted-production set - including every run of up to three comments / line terminators (multi-line, form-feed and U+2029 comments) after the keyword, fed through the get_lexer_token of the lexer over a laid-out text, and the delivery of the supplied semicolon by Lexer.token -, comment transparency of the line-terminator evidence, and that every ES5 line terminator reaches the rule. Does not decide the whole-program equivalence clause (depends on ply error recovery).',
    ref='DESIGN.md section 3 C04',
    note='Trusted: CPython ast, the abstract evaluator engine/absint.py (interprets syntax trees over stand-in values; no repository code is imported), ECMA-262 7.9.1 facts embedded in the checker.')
CHECKS['C05'] = dict(
    technique='static analysis: terminal adjacency fixpoint of the grammar with role-split reserved words vs the look-behind frozensets; Lexer._token evaluated from its source (peek loop, comment bypass, decision, helper methods; only the raw ply reader is a stand-in) over token contexts x marker runs x candidate characters; decision table of the re-lex branch of p_error',
    text='Decides the table/grammar agreement exhaustively (94 terminals), the layout transparency and header-stack behaviour on ~2900 abstract contexts (marker runs after and inside every context; thorough: all marker runs up to length 3), the re-lex hook incl. its re-entry with the inserted semicolon, the peek set against t_ignore and the comment bypass for every ASCII follower. The stack discipline for arbitrarily deep nesting is not decided.',
    ref='DESIGN.md sections 3 (C05), 13.3',
    note='Trusted: CPython ast, the evaluator engine/absint.py (interprets syntax trees over stand-in values; no repository code is imported), adjacency fixpoint. No syntactic shape of _token is assumed any more.')

CHECKS['C11'] = dict(
    technique='static analysis: abstract interpretation of every parser action per production alternative (typestate: constructed node must reach setpos), index/extent/nullability rules over the grammar, abstract evaluation of findpos/lookup_colno',
    text='Decides, for all ~230 node construction sites and paths, that the node is positioned, that the index names a slot that always carries a token of the node\'s own extent, and that recorded literal positions name slots with that text. Agreement of offset/line/column under ES5 counting is split with C06/C04.',
    ref='DESIGN.md section 3 C11',
    note='Trusted: CPython ast, the action interpreter and skeleton alignment of /verif/engine; ply yacc tracking semantics (p.lexpos(n) of a nonterminal is its first token) assumed.')
CHECKS['C08'] = dict(
    technique='static analysis: token-map model of Node.setpos per production x definition emission alignment (which map entry each Text/Operator/;{} emission looks up), abstract evaluation of getpos and of the token/layout handlers',
    text='Decides for all ~350 explicit-position emissions of the definitions that the looked-up map entry is the aligned slot; handlers and getpos (incl. leaf nodes printed with a text other than their value) are decided by decision tables; the source-file label of every token by evaluating walker.walk on trees with nested source paths (R08.5). Elision comma runs are not decided.',
    ref='DESIGN.md section 3 C08',
    note='Trusted: action interpreter, skeleton alignment, abstract evaluator; walker.walk semantics (digest-guarded by C01/C02).')

CHECKS['C16'] = dict(
    technique='static analysis: attribute typing from abstract interpretation of the parser actions vs the shape of each class\'s children(); abstract evaluation of Node.__iter__ / Walker.walk / filter / extract on abstract trees',
    text='Decides children() completeness for every node class the parser builds (53 classes, 177 attribute obligations, exhaustive) and the traversal discipline of the generic walkers on a family of abstract trees, incl. per class an instance with leaf children and one with every list attribute empty followed by a sibling (truth value by the __len__ / __bool__ of the class), and extract for negative, valid and too large skip. Every traversal is run twice on trees whose children() hand out the list the node itself owns (walking is an observation), and the module-level shortcut functions of walkers.py are evaluated on the same trees.',
    ref='DESIGN.md section 3 C16',
    note='Trusted: action interpreter typing (E4), abstract evaluator. Trees built by hand with attributes the parser never sets are outside the quantifier.')
CHECKS['C14'] = dict(
    technique='static analysis: write-site enumeration and classification by the root of the base expression (effect/ownership analysis), per-call-state instantiation rule, def-use checks of the shortcut factories',
    text='Decides that no write of the unparsing code can reach the tree or shared tables, that stateful handler classes are created per print call, and that str(node) / es5.pretty_print / es5.minify_print are straight compositions. The equality of fragment sequences follows from the absence of surviving state; it is not compared as values.',
    ref='DESIGN.md section 3 C14',
    note='Trusted: CPython ast; conservative alias classification (any parameter may alias the tree).')
CHECKS['C15'] = dict(
    technique='static analysis: effect analysis of the parse path (no global / class-level / default-argument writes), per-call construction of Parser/Lexer/ply objects, initialisation of every instance attribute read',
    text='Decides the absence of shared mutable state in the repository code on the parse path (about 380 write sites incl. writes through captured variables of escaping closures and inherited class-level mutables, 228 attribute reads). ply internals are assumed.',
    ref='DESIGN.md section 3 C15',
    note='Trusted: CPython ast; ply builds its objects per yacc()/lex() call and shares table modules read-only.')
CHECKS['C18'] = dict(
    technique='static analysis by partial evaluation: io.read and io.write are evaluated from their syntax trees with stand-in streams, parser, printer and source-map writer for every arrangement of factories / open streams and every step that can fail (fault-injection decision tables: 14 + 65 cells, each step failing with an Exception or with an interrupt); utils.normrelpath, sourcemap.verify_write_sourcemap_args and the inline branch of write_sourcemap are folded on tables of path pairs and charsets',
    text='Decides the closing discipline exhaustively over the modelled arrangements and fault points (each stand-in step fails or not), propagation of failures, the re-labelling of syntax errors, that the printer output and the streams reach the source-map writer unchanged, and - on a finite table, not exhaustively - that the computed relative references designate the right files and that the inline data URL decodes (strict standard base64) to the map. Every failing step also fails with an exception that is not an Exception (interrupt). The fault table is also run as histories (a second call after a successful, failed or interrupted first call through one evaluator, class-level state shared as Python shares it), and R18.5 shows that io.py keeps no state between calls. Equality of the written text with the printer output is not decided.',
    ref='DESIGN.md sections 3 (C18), 9.2, 13.1',
    note='Trusted: CPython ast, the evaluator, posixpath as the meaning of os.path. exhaustive over fault points of the stand-ins; sampled over path strings.')

CHECKS['C12'] = dict(
    technique='static analysis: raise-site classification, contradictory-null-belief analysis with guard dominance (Engler) using per-method write summaries and one callee summary obtained by evaluation, checked never-empty-list invariants for stack/index attributes, partial-operation lint, and decision tables: Parser._raise_syntax_error over the presence of its three tokens and broken_string_token_handler over all remaining-input strings up to length 3 (thorough 4) of an 11-character lexical alphabet, evaluated from source',
    text='Decides the exception-type clause: every raise site, every dereference of a believed-nullable value, every subscript / dict lookup on the lex/parse error paths, and totality of the error-message builders on the enumerated inputs; and the message clause on a table (R12.7): the builders, evaluated with the real format_lex_token on laid-out token scenarios (long values, % and {} in token texts, second line), quote only text that occurs at the quoted line:column. Termination is not decided.',
    ref='DESIGN.md sections 3 (C12), 13.3',
    note='Trusted: CPython ast, the evaluator, two triage entries with a one-line reason each (checks/c12.py), ply calls t_error with a non-empty remainder.')
CHECKS['C13'] = dict(
    technique='static analysis: def-use of the capture flags and of the hidden-token buffer, abstract evaluation of Node.set_comments and Lexer.token, per-action uniqueness of setpos token slots, structural rule over the comment definitions vs the restricted productions',
    text='Decides non-interference of the flag on the token stream and on the semicolon insertion decisions (Lexer.token and auto_semi evaluated under the four flag combinations), verbatim/ordered/positioned attachment incl. comments ending in blanks, single attachment, the restricted-production clause of the printing half, that a printed line comment is always followed by a line break (R13.7) and that the comment deferrables print what the handler returns. Re-attachment after re-layout is not decided.',
    ref='DESIGN.md section 3 C13',
    note='Trusted: CPython ast, abstract evaluator, action interpreter, definitions model.')

CHECKS['C20'] = dict(
    technique='static analysis of the definitions table and the indent rule table as data: Indent/Dedent balance on every path, lock-step with braces, position of line breaks in layout sequences, decision tables of the Indentator handlers by evaluation; ruletypes Token classes and walker.walk/Dispatcher are evaluated from source on abstract scenarios and must agree with the flattening the rules assume (else ANALYSIS-ERROR: stale model)',
    text='Exhaustive over all 56 definitions and their Optional/Join paths and over the handler decision tables for three indentation strings; process_layouts itself is evaluated on the long mark runs nesting produces (R20.6, runs up to 120 marks): the depth after a run is the depth before plus its Indent/Dedent balance. Thresholds beyond that run length are not seen.',
    ref='DESIGN.md sections 3 (C20), 9.1',
    note='Trusted: the evaluator; the flattening model is compared with the evaluated walker on 2220 scenarios on every run (no digests).')
CHECKS['C07'] = dict(
    technique='static analysis: scope-marker balance over definition paths, rule-table shape, def-use of the reserved-word skip set through default arguments, decision tables of Scope/CatchScope bookkeeping by abstract evaluation on abstract scope trees',
    text='Decides necessary conditions only (marker balance, spelling-only change, reserved-word skip set incl. its stability over successive print calls of one printer, pass-through of the resolved name by the Resolve deferrable, composition of the per-scope reserved set, no state surviving a print call). Capture freedom over arbitrary scope trees is NOT decided.',
    ref='DESIGN.md section 3 C07',
    note='Narrow claim. Trusted: definitions model, abstract evaluator, ES5 reserved word list.')
CHECKS['C10'] = dict(
    technique='static analysis: folded module constants (RFC 4648 alphabet, inverse table, shift/mask/continuation) and constant folding of the codec functions (encode_vlq, vlq_decoder, decode_vlq, encode/decode_vlqs, encode/decode_mappings evaluated from source) on every 5-bit group boundary up to 2**49 plus a few larger values, against an independent 10-line reference encoder',
    text='Decides the alphabet and constants exactly, and the canonical digits and the inverse law on the group boundaries (where the number of digits or a carry changes): a necessary condition, exhaustive: false. The bijection law for every integer is arithmetic and NOT decided.',
    ref='DESIGN.md sections 3 (C10), 9.2, 13.3',
    note='Narrow claim. The name/literal heuristics of earlier rounds were removed (they fired on behaviour-preserving rewrites).')

CHECKS['C01'] = dict(
    technique='static analysis: definition/production skeleton alignment (abstract interpretation of actions x definitions table), bounded enumeration of array literals with elisions (actions and token classes evaluated from source), print-grammar FIRST/LAST window analysis x layout handlers evaluated from source x walker.process_layouts evaluated from source x lexer-rule automata (regex syntax trees -> DFAs over character-class atoms) for token fusion; ruletypes Token classes and walker.walk evaluated on decision tables (no transcription is trusted unchecked); restricted-production and position-independence rules',
    text="Decides the premises of the round-trip induction on tables: every (token class, layout run, token class) window the pretty printer can emit (about 600) x boundary character classes is either separated by printed white space or shown not to fuse on the automata of the repository's own token rules; ES5 7.8.3 adjacency is included. Not a behavioural proof: the print grammar abstracts the tree to token classes.",
    ref='DESIGN.md sections 3 (C01), 9.1',
    note='Trusted: CPython ast and re._parser, transcription of ply.lex rule order, ES5 reference facts, the evaluator.')
CHECKS['C02'] = dict(
    technique='same machinery as C01 under the minify(drop_semi off/on) tables, plus an EndStatement-site x FOLLOW-context enumeration of the print grammar for the semicolon-dropping rule and a language-equality check of the continuation pattern',
    text='Decides no-fusion for about 2300 windows x boundary classes per table, the complete table of semicolon contexts (268 site x context x table cells) and that continuation stripping is the only literal rewrite. The C05 findings are assumed for re-lexing of `/`.',
    ref='DESIGN.md section 3 C02',
    note='Trusted: as C01.')

CHECKS['C06'] = dict(
    technique='static analysis: token regexes compiled from source to DFAs over character-class atoms (CPython re._parser as front end) and compared with ES5 reference automata (white space, terminators, comments: equivalence; NUMBER/STRING/REGEX: inclusion both ways with shortest witnesses); ply rule order reconstructed and every ordered rule pair checked for ordered-choice = longest-match; effect analysis of token attribute stores; Lexer.token evaluated from source on a raw stream per token type; decision tables of the line/column bookkeeping by evaluation, for every token type whose rule can match a line terminator',
    text="Decides the lexical tables: gap and literal languages (automata, exact), longest-first for all 1500+ ordered rule pairs, every fixed-lexeme rule matching its lexeme in every right context (R06.6), exact keyword set, no token rewriting, which raw tokens reach the parser, and line / column of every token of a text that uses every terminator kind (get_lexer_token evaluated token by token). ply's own offset bookkeeping is outside the repository.",
    ref='DESIGN.md sections 3 (C06), 13.1',
    note="Trusted: CPython re._parser, transcription of ply.lex rule ordering, ES5 7.2-7.8 reference patterns, assumption that each rule's Python regex match is its longest match (checked for the look-ahead alternatives).")
CHECKS['C19'] = dict(
    technique='static analysis by partial evaluation: the token classes that extract String / Number / Boolean / Null (whatever the extractor definitions name) and GroupAsMap / GroupAsList / unary minus are evaluated from their syntax trees with stand-in walk/dispatcher on every JSON string escape, unicode escapes, 15 number spellings and small grouping cases, and compared with the JSON value; lexer automata decide that the lexemes are accepted',
    text='Decides literal agreement ES5 <-> extracted Python value for the enumerated spellings (all JSON escapes: exhaustive; numbers: sampled forms) and the last-binding-wins / order-preserving grouping. The rest of the value pipeline (AssignmentList plumbing, operator folding) is NOT decided.',
    ref='DESIGN.md sections 3 (C19), 9.2',
    note='Narrow claim. Trusted: json / ast.literal_eval of the standard library as oracles for a literal, the evaluator.')

CHECKS['C09'] = dict(
    technique='static analysis by partial evaluation: sourcemap.write with its bookkeeping classes (Names, Bookkeeper with its attribute hooks, Book) and normalize_mappings are evaluated from their syntax trees on every stream of up to 3 (thorough 4) abstract fragments over 17 fragment shapes x {normalisation off, on}; the relative mappings are decoded by an independent 40-line Source Map V3 decoder and compared clause by clause with what the fragments carried; encode_sourcemap is folded and decoded back',
    text='Bounded: exhaustive over the abstract fragment streams up to the bound (about 21 000 quick, ~250 000 thorough) and over every split of such a stream into two calls that share book, sources, names and mappings (R09.4), not beyond. Decides, on those, the mapping of every explicitly positioned fragment (source, line, column, original name; by linear interpolation when normalised), index ranges, monotone generated columns and one mapping line per text line. Streams longer than the bound and other concrete positions are NOT decided; the VLQ layer is C10. The quick tier also covers a narrow line-structured family of 4-6 fragment streams (two fragments ending a generated line, one or two line breaks, one or two fragments opening the next).',
    ref='DESIGN.md sections 9.2, 13.4',
    note='Trusted: the evaluator (engine/absint.py), the embedded decoder. No repository code is imported or run; the functions are interpreted from their syntax trees.')

CHECKS['C17'] = dict(
    technique='static analysis by partial evaluation of the plumbing between the repository and ply: Parser.__init__ and Lexer.build evaluated from their syntax trees with stand-ins for Lexer / ply.lex.lex / ply.yacc.yacc over the complete configuration table (lex_optimize x yacc_optimize x table names given/default x with_comments); utils.generate_tab_names folded on version tables; parsers/optimize.py (reoptimize, optimize_build) evaluated with stand-in file operations',
    text='Narrow claim. Decides only what the repository contributes: the object, start symbol, tokens and comment flag reach ply identically in every configuration, flags and table names pass through unchanged and uncrossed, table names identify module / Python / ply version, and the optimize helper regenerates under the names the parser loads. R17.5: constructing a Parser / Lexer writes no module-level, class-level or captured state (the repository caches no lexer or table object of its own). That ply drives the same parse from cached tables as from computed ones is inside ply and NOT decided; regenerated modules are build products absent from the tree.',
    ref='DESIGN.md sections 5, 13.4',
    note='Trusted: the evaluator. exhaustive over the 16 configurations.')
