# data for tools_manifest.py
CHECKS = {}
NA = {
 'C09': 'every clause is arithmetic over running delta accumulators along an unbounded fragment stream; no structural necessary condition in reach of static analysis beyond what a unit test asserts (DESIGN.md section 5)',
 'C17': 'compares two code paths of ply over build products (lextab/yacctab modules) that do not exist in the working tree; the repository contributes only argument plumbing (DESIGN.md section 5)',
}
