# data for tools_manifest.py
CHECKS = {}
CHECKS['C03'] = dict(
    technique='static analysis: grammar-docstring extraction, NoIn/NoBF family image lint, sibling-action cross-check by abstract interpretation, LALR conflict audit (ply as library), definition/production skeleton alignment; thorough adds Earley cross-membership against an embedded ES5.1 grammar',
    text='Decides the CFG layer of C03: every production/action pair is enumerated (340 productions, ~350 action paths); obligations are exhaustive over the finite tables. Not a proof of language equality with ECMA-262; character-level acceptance is C04-C06.',
    ref='DESIGN.md section 3 C03',
    note='Trusted: CPython ast, transcription of ply.yacc.parse_grammar, ply LALR construction used as a library on extracted (lhs, rhs) tuples, embedded ES5.1 reference facts. Analyses /repo/src text only.')

NA = {
 'C09': 'every clause is arithmetic over running delta accumulators along an unbounded fragment stream; no structural necessary condition in reach of static analysis beyond what a unit test asserts (DESIGN.md section 5)',
 'C17': 'compares two code paths of ply over build products (lextab/yacctab modules) that do not exist in the working tree; the repository contributes only argument plumbing (DESIGN.md section 5)',
}
