# data for tools_manifest.py
CHECKS = {}
CHECKS['C03'] = dict(
    technique='static analysis: grammar-docstring extraction, NoIn/NoBF family image lint, sibling-action cross-check by abstract interpretation, LALR conflict audit (ply as library), definition/production skeleton alignment; thorough adds Earley cross-membership against an embedded ES5.1 grammar',
    text='Decides the CFG layer of C03: every production/action pair is enumerated (340 productions, ~350 action paths); obligations are exhaustive over the finite tables. Not a proof of language equality with ECMA-262; character-level acceptance is C04-C06.',
    ref='DESIGN.md section 3 C03',
    note='Trusted: CPython ast, transcription of ply.yacc.parse_grammar, ply LALR construction used as a library on extracted (lhs, rhs) tuples, embedded ES5.1 reference facts. Analyses /repo/src text only.')

NA = {
 'C09': 'every clause is arithmetic over running delta accumulators along an unbounded fragment stream; no structural necessary condition in reach of static analysis beyond what a unit test asserts (DESIGN.md section 5)',
 'C17': 'compares two code paths of ply over build products (lextab/yacctab modules) that do not exist in the working tree; the repository contributes only argument plumbing (DESIGN.md section 5)',
}

CHECKS['C04'] = dict(
    technique='static analysis: grammar twin lint (SEMI/AUTOSEMI), decision tables of Lexer.auto_semi and of the restricted-production rule by abstract evaluation of the function syntax trees over the complete token-type domain, finite exploration of the extracted token-tracking transition function, t_ignore character-set check',
    text='Decides the clauses of ASI whose truth is in the shape of the code: which productions accept an inserted semicolon, the insertion predicate (exhaustive truth table vs 7.9.1), the restricted-production set, comment transparency of the line-terminator evidence, and that every ES5 line terminator reaches the rule. Does not decide the whole-program equivalence clause (depends on ply error recovery).',
    ref='DESIGN.md section 3 C04',
    note='Trusted: CPython ast, the abstract evaluator engine/absint.py (interprets syntax trees over stand-in values; no repository code is imported), ECMA-262 7.9.1 facts embedded in the checker.')
CHECKS['C05'] = dict(
    technique='static analysis: terminal adjacency fixpoint of the grammar with role-split reserved words vs the look-behind frozensets; abstract evaluation of the division decision expression and of p_error over token contexts x marker runs',
    text='Decides the table/grammar agreement exhaustively (94 terminals) and the layout transparency and header-stack behaviour on 700 abstract contexts; the stack discipline for arbitrarily deep nesting is not decided.',
    ref='DESIGN.md section 3 C05',
    note='Trusted: CPython ast, abstract evaluator, adjacency fixpoint. The decision expression is located in Lexer._token by a backward slice from the branch that calls _read_regex(); if that shape disappears the check stops with ANALYSIS-ERROR.')

CHECKS['C11'] = dict(
    technique='static analysis: abstract interpretation of every parser action per production alternative (typestate: constructed node must reach setpos), index/extent/nullability rules over the grammar, abstract evaluation of findpos/lookup_colno',
    text='Decides, for all ~230 node construction sites and paths, that the node is positioned, that the index names a slot that always carries a token of the node\'s own extent, and that recorded literal positions name slots with that text. Agreement of offset/line/column under ES5 counting is split with C06/C04.',
    ref='DESIGN.md section 3 C11',
    note='Trusted: CPython ast, the action interpreter and skeleton alignment of /verif/engine; ply yacc tracking semantics (p.lexpos(n) of a nonterminal is its first token) assumed.')
CHECKS['C08'] = dict(
    technique='static analysis: token-map model of Node.setpos per production x definition emission alignment (which map entry each Text/Operator/;{} emission looks up), abstract evaluation of getpos and of the token/layout handlers',
    text='Decides for all ~350 explicit-position emissions of the definitions that the looked-up map entry is the aligned slot; handlers are decided by exhaustive decision tables. Does not decide the source-file stack nor elision comma runs.',
    ref='DESIGN.md section 3 C08',
    note='Trusted: action interpreter, skeleton alignment, abstract evaluator; walker.walk semantics (digest-guarded by C01/C02).')

CHECKS['C16'] = dict(
    technique='static analysis: attribute typing from abstract interpretation of the parser actions vs the shape of each class\'s children(); abstract evaluation of Node.__iter__ / Walker.walk / filter / extract on abstract trees',
    text='Decides children() completeness for every node class the parser builds (53 classes, 177 attribute obligations, exhaustive) and the traversal discipline of the generic walkers on a family of abstract trees.',
    ref='DESIGN.md section 3 C16',
    note='Trusted: action interpreter typing (E4), abstract evaluator. Trees built by hand with attributes the parser never sets are outside the quantifier.')
CHECKS['C14'] = dict(
    technique='static analysis: write-site enumeration and classification by the root of the base expression (effect/ownership analysis), per-call-state instantiation rule, def-use checks of the shortcut factories',
    text='Decides that no write of the unparsing code can reach the tree or shared tables, that stateful handler classes are created per print call, and that str(node) / es5.pretty_print / es5.minify_print are straight compositions. The equality of fragment sequences follows from the absence of surviving state; it is not compared as values.',
    ref='DESIGN.md section 3 C14',
    note='Trusted: CPython ast; conservative alias classification (any parameter may alias the tree).')
CHECKS['C15'] = dict(
    technique='static analysis: effect analysis of the parse path (no global / class-level / default-argument writes), per-call construction of Parser/Lexer/ply objects, initialisation of every instance attribute read',
    text='Decides the absence of shared mutable state in the repository code on the parse path (379 write sites, 228 attribute reads). ply internals are assumed.',
    ref='DESIGN.md section 3 C15',
    note='Trusted: CPython ast; ply builds its objects per yacc()/lex() call and shares table modules read-only.')
CHECKS['C18'] = dict(
    technique='static analysis: acquire/release pairing over the statement structure of io.read / io.write with exception edges (must-pass-through finally, registration iff acquisition, no swallowing handlers)',
    text='Decides the stream closing discipline on all paths including exceptional ones. Text/URL equality clauses are runtime data and not decided.',
    ref='DESIGN.md section 3 C18',
    note='Trusted: CPython ast. The helpers are recognised by shape; an unrecognised restructuring stops the check with ANALYSIS-ERROR.')

CHECKS['C12'] = dict(
    technique='static analysis: raise-site classification, contradictory-null-belief analysis with guard dominance (Engler), partial-operation lint with frozen triage table; one inter-procedural summary obtained by abstract evaluation',
    text='Decides the exception-type clause: every raise site, every dereference of a believed-nullable value (27) and every subscript / dict-literal lookup / match-result use on the lex/parse error paths. Termination is not decided.',
    ref='DESIGN.md section 3 C12',
    note='Trusted: CPython ast, the triage table in checks/c12.py (each entry has a one-line reason), ply calls t_error with a non-empty remainder.')
CHECKS['C13'] = dict(
    technique='static analysis: def-use of the capture flags and of the hidden-token buffer, abstract evaluation of Node.set_comments and Lexer.token, per-action uniqueness of setpos token slots, structural rule over the comment definitions vs the restricted productions',
    text='Decides non-interference of the flag, verbatim/ordered/positioned attachment, single attachment, and the restricted-production clause of the printing half. Re-attachment after re-layout is not decided.',
    ref='DESIGN.md section 3 C13',
    note='Trusted: CPython ast, abstract evaluator, action interpreter, definitions model.')

CHECKS['C20'] = dict(
    technique='static analysis of the definitions table and the indent rule table as data: Indent/Dedent balance on every path, lock-step with braces, position of line breaks in layout sequences, decision tables of the Indentator handlers by abstract evaluation',
    text='Exhaustive over all 56 definitions and their Optional/Join paths and over the handler decision tables for three indentation strings; walker.process_layouts and the ruletypes token classes are transcribed and digest-guarded (a structural change there stops the check with ANALYSIS-ERROR).',
    ref='DESIGN.md section 3 C20',
    note='Trusted: transcription of walker.process_layouts and of the rule-class semantics (digest-guarded), abstract evaluator.')
CHECKS['C07'] = dict(
    technique='static analysis: scope-marker balance over definition paths, rule-table shape, def-use of the reserved-word skip set through default arguments, decision tables of Scope/CatchScope bookkeeping by abstract evaluation on abstract scope trees',
    text='Decides necessary conditions only (marker balance, spelling-only change, reserved-word skip set, composition of the per-scope reserved set). Capture freedom over arbitrary scope trees is NOT decided.',
    ref='DESIGN.md section 3 C07',
    note='Narrow claim. Trusted: definitions model, abstract evaluator, ES5 reserved word list.')
CHECKS['C10'] = dict(
    technique='static analysis: folded module constants (alphabet, shift, masks) and writer/reader agreement on names, literals and separators',
    text='Decides canonical alphabet/constants and writer/reader table agreement only. The bijection law over all integers is arithmetic and NOT decided.',
    ref='DESIGN.md section 3 C10',
    note='Narrow claim; a necessary condition of canonical form and nothing more.')

CHECKS['C01'] = dict(
    technique='static analysis: definition/production skeleton alignment (abstract interpretation of actions x definitions table), print-grammar FIRST/LAST window analysis x abstract evaluation of the layout handlers x lexer-rule automata (regex syntax trees -> DFAs over character-class atoms) for token fusion, restricted-production and position-independence rules',
    text='Decides the three premises of the round-trip induction on tables: every (token class, layout run, token class) window the pretty printer can emit (about 600) x boundary character classes is either separated by printed white space or shown not to fuse on the automata of the repository\'s own token rules; ES5 7.8.3 adjacency is included. Not a behavioural proof: walker.walk and the rule-class semantics are transcribed (digest-guarded).',
    ref='DESIGN.md section 3 C01',
    note='Trusted: CPython ast and re._parser, transcriptions of walker.process_layouts / ply.lex rule order / ruletypes semantics (digest-guarded), ES5 reference facts.')
CHECKS['C02'] = dict(
    technique='same machinery as C01 under the minify(drop_semi off/on) tables, plus an EndStatement-site x FOLLOW-context enumeration of the print grammar for the semicolon-dropping rule and a language-equality check of the continuation pattern',
    text='Decides no-fusion for about 2300 windows x boundary classes per table, the complete table of semicolon contexts (268 site x context x table cells) and that continuation stripping is the only literal rewrite. The C05 findings are assumed for re-lexing of `/`.',
    ref='DESIGN.md section 3 C02',
    note='Trusted: as C01.')

CHECKS['C06'] = dict(
    technique='static analysis: token regexes compiled from source to DFAs over character-class atoms (CPython re._parser as front end) and compared with ES5 reference automata; ply rule order reconstructed and every ordered rule pair checked for ordered-choice = longest-match; effect analysis of token attribute stores; decision tables of the line/column bookkeeping by abstract evaluation',
    text='Decides the lexical tables: white-space/terminator/comment languages (automata equivalence), longest-first for all 1500+ ordered rule pairs, exact keyword set, no token rewriting, one line-index update per token. ply\'s own offset bookkeeping is outside the repository.',
    ref='DESIGN.md section 3 C06',
    note='Trusted: CPython re._parser, transcription of ply.lex rule ordering, ES5 7.2-7.6 reference sets, assumption that each rule\'s Python regex match is its longest match (checked for the look-ahead alternatives).')
CHECKS['C19'] = dict(
    technique='static analysis: agreement of two literal grammars - STRING/NUMBER lexer automata restricted to JSON spellings vs Python string-escape / number semantics (embedded reference tables), plus the shape of the extractor definitions',
    text='Decides literal-spelling agreement ES5 <-> literal_eval only (9 escapes, number sub-language inclusion, true/false/null). The value pipeline of the extractor is NOT decided.',
    ref='DESIGN.md section 3 C19',
    note='Narrow claim. Trusted: ES5 7.8.4 table, Python escape table, RFC 8259 number grammar.')
