#!/venv/bin/python
"""
Self-test of the checkers, both ways (not part of the registered commands).

  tools_selftest.py [--only NAME]

* FIRING variants: one textual edit of a scratch copy of /repo/src that
  breaks a property; the named check must exit 1 and report a finding whose
  key starts with the named rule.
* PASSING twins: behaviour-preserving edits (renames, re-wrapping, literal
  forms); every check must keep its verdict (exit 0, same finding keys).
Scratch copies live under $TMPDIR and are removed immediately.
"""
import concurrent.futures as cf
import os
import re
import shutil
import subprocess
import sys
import tempfile

HERE = os.path.dirname(os.path.abspath(__file__))
PY = '/venv/bin/python'
ALL = ['C01', 'C02', 'C03', 'C04', 'C05', 'C06', 'C07', 'C08', 'C09', 'C10',
       'C11',
       'C12', 'C13', 'C14', 'C15', 'C16', 'C17', 'C18', 'C19', 'C20']

P = 'parsers/es5.py'
L = 'lexers/es5.py'
U = 'unparsers/es5.py'

# (name, [(file, old, new, nth)], check, rule prefix)
FIRING = [
    ('joinattr-separator-after-item', [('ruletypes.py', """            definition = self.value if self.value else ()
            for value_node in walk(dispatcher, node, definition=definition):
                yield value_node
            for chunk in walk(dispatcher, target_node, token=self):
                yield chunk""", """            for chunk in walk(dispatcher, target_node, token=self):
                yield chunk
            definition = self.value if self.value else ()
            for value_node in walk(dispatcher, node, definition=definition):
                yield value_node""", 0)], 'C01', 'R01.6'),
    ('elisionjoin-wrong-node-tested', [('ruletypes.py', "            if not isinstance(previous_node, Elision):", "            if not isinstance(next_node, Elision):", 0)], 'C02', 'R02.6'),
    ('walk-drops-token-chunks', [('unparsers/walker.py', "                layout_rule_chunks[:] = []\n                yield chunk", "                layout_rule_chunks[:] = []", 0)], 'C01', 'R01.7'),
    ('process-layouts-after-text-lost', [('unparsers/walker.py', "        after_text = chunk.text if chunk else None", "        after_text = None", 0)], 'C02', 'R02.2'),
    ('caseblock-comments-dropped', [(U, "    'CaseBlock': (\n        CommentsAttr(),\n", "    'CaseBlock': (\n", 0)], 'C13', 'R13.6'),
    ('token-stack-shared-base', [(L, "        self.token_stack = [[None, []]]", "        self.token_stack = list(TOKEN_STACK_BASE)", 0),
                                 (L, "PATT_LINE_TERMINATOR_SEQUENCE = re.compile(", "TOKEN_STACK_BASE = ([None, []],)\nPATT_LINE_TERMINATOR_SEQUENCE = re.compile(", 0)], 'C15', 'R15.2'),
    ('normrelpath-prefix-shortcut', [('utils.py', "    return relpath(normpath(target), dirname(normpath(base)))", "    basedir = dirname(normpath(base))\n    target = normpath(target)\n    if target.startswith(basedir):\n        return target[len(basedir):].lstrip('/')\n    return relpath(target, basedir)", 0)], 'C18', 'R18.3'),
    ('string-escapes-ascii-only', [(L, "                | \\\\[^\\n\\r\\u2028\\u20290-9xu] # escaped chars", "                | \\\\[a-tvwyzA-TVWYZ!-\\/:-@\\[-`{-~] # escaped chars", -1)], 'C06', 'R06.5'),
    ('regex-literal-spans-lines', [(L, "        (?: [^\\\\/[\\n\\r\\u2028\\u2029]     # anything but \\ / [ or a newline", "        (?: [^\\\\/[]     # anything but \\ / [", 0)], 'C03', 'R06.5'),
    ('restricted-production-paren-dependent', [(L, "            and self.cur_token_real is not None\n            and self.cur_token_real.type in ['BREAK', 'CONTINUE',", "            and self.cur_token_real is not None\n            and not self.token_stack[-1][1]\n            and self.cur_token_real.type in ['BREAK', 'CONTINUE',", 0)], 'C04', 'R04.3'),
    ('groupasmap-first-wins', [('unparsers/extractor.py', "                result.update(item.value)", "                for k, v in item.value:\n                    result.setdefault(k, v)", 0)], 'C19', 'R19.2'),
    ('swap-operands-xor-noin', [(P, "BinOp(op=p[2], left=p[1], right=p[3])",
                                 "BinOp(op=p[2], left=p[3], right=p[1])", 21)],
     'C03', 'R03.'),
    ('drop-autosemi-throw', [(P, "                           | THROW expr AUTOSEMI\n", "", 0)], 'C04', 'R04.1'),
    ('autosemi-empty-statement', [(P, '"""empty_statement : SEMI"""',
                                   '"""empty_statement : SEMI\n                           | AUTOSEMI\n        """', 0)],
     'C04', 'R04.1'),
    ('division-table-drop-rbracket', [(L, "    'RBRACKET',\n])", "])", 0)], 'C05', 'R05.1'),
    ('header-drop-if', [(L, "    'IF',\n", "", 0)], 'C05', 'R05.'),
    ('relex-drop-minusminus', [(P, "('RBRACE', 'PLUSPLUS', 'MINUSMINUS')", "('RBRACE', 'PLUSPLUS')", 0)], 'C05', 'R05.'),
    ('setpos-wrong-index', [(P, "predicate=p[1], consequent=p[3], alternative=p[5])\n            p[0].setpos(p, 2)",
                             "predicate=p[1], consequent=p[3], alternative=p[5])\n            p[0].setpos(p, 3)", 2)],
     'C11', 'R11.3'),
    ('setpos-deleted', [(P, "        p[0] = self.asttypes.With(expr=p[3], statement=p[5])\n        p[0].setpos(p)",
                         "        p[0] = self.asttypes.With(expr=p[3], statement=p[5])", 0)], 'C11', 'R11.1'),
    ('additional-wrong-slot', [(P, "additional=(('=', 2),)", "additional=(('=', 1),)", 0)], 'C11', 'R11.4'),
    ('required-space-drop-minusminus', [('handlers/core.py', r"|\-\-", "", 0)], 'C02', 'R02.2'),
    ('minify-space-noop', [('rules.py', "        Space: layout_handler_space_minimum,", "        Space: rule_handler_noop,", 0)], 'C02', 'R02.2'),
    ('dowhile-attrs-swapped', [(U, "Text(value='do'), Space, Attr('statement'), Space,\n        Text(value='while'), Space, Text(value='('),\n        Attr('predicate')",
                                "Text(value='do'), Space, Attr('predicate'), Space,\n        Text(value='while'), Space, Text(value='('),\n        Attr('statement')", 0)], 'C01', 'R01.1'),
    ('case-missing-dedent', [(U, "        JoinAttr('elements', value=(Newline,)),\n        Dedent,\n    ),\n    'Default'",
                              "        JoinAttr('elements', value=(Newline,)),\n    ),\n    'Default'", 0)], 'C20', 'R20.1'),
    ('block-indent-after-newline', [(U, "        OpenBlock,\n        Indent, Newline,\n        children_newline,\n        Dedent, OptionalNewline,\n        CloseBlock,\n    ),\n    'VarStatement'",
                                     "        OpenBlock,\n        Newline, Indent,\n        children_newline,\n        Dedent, OptionalNewline,\n        CloseBlock,\n    ),\n    'VarStatement'", 0)], 'C20', 'R20.3'),
    ('funcexpr-missing-popscope', [(U, "        CloseBlock,\n        PopScope,\n    ),\n    'Conditional'", "        CloseBlock,\n    ),\n    'Conditional'", 0)], 'C07', 'R07.1'),
    ('resolve-in-propidentifier', [(U, "    'PropIdentifier': value,", "    'PropIdentifier': (CommentsAttr(), Attr(Resolve())),", 0)], 'C07', 'R07.2'),
    ('indentator-hoisted', [('rules.py', "    def indentation_rule():\n        inst = Indentator(indent_str)\n", "    inst = Indentator(indent_str)\n\n    def indentation_rule():\n", 0)], 'C14', 'R14.2'),
    ('handler-mutates-node', [('handlers/core.py', "def deferrable_handler_comment(dispatcher, node):\n    # simply return the value",
                               "def deferrable_handler_comment(dispatcher, node):\n    node.value = node.value.strip()", 0)], 'C14', 'R14.1'),
    ('module-level-parser', [(P, "    parser = Parser(with_comments=with_comments)\n    return parser.parse(source)",
                              "    global _P\n    try:\n        parser = _P\n    except NameError:\n        parser = _P = Parser(with_comments=with_comments)\n    return parser.parse(source)", 0)], 'C15', 'R15.'),
    ('catch-children-dropped', [('asttypes.py', "        return [self.identifier, self.elements]", "        return [self.identifier]", 0)], 'C16', 'R16.1'),
    ('write-closer-not-registered', [('io.py', "            closer.append(result.close)\n        else:", "        else:", 0)], 'C18', 'R18.2'),
    ('read-drop-finally', [('io.py', "    finally:\n        if callable(stream):\n            source.close()\n", "    finally:\n        pass\n", 0)], 'C18', 'R18.1'),
    ('guard-deleted-get-lexer-token', [(L, "        if token:\n            token.colno = self._get_colno(token)\n            self._update_newline_idx(token)",
                                        "        token.colno = self._get_colno(token)\n        self._update_newline_idx(token)", 0)], 'C12', 'R12.2'),
    ('b64-alphabet-typo', [('vlq.py', "0123456789+/'", "0123456789-/'", 0)], 'C10', 'R10.1'),
    ('t-id-lowercases', [(L, "        token.type = self.keywords_dict.get(token.value, 'ID')",
                          "        token.value = token.value.lower()\n        token.type = self.keywords_dict.get(token.value, 'ID')", 0)], 'C06', 'R06.1'),
    ('div-before-comment', [(L, "    t_DIV           = r'/'", "    t_DIV           = r'(?:(?:(?:(?:(?:(?:/))))))'", 0)], 'C06', 'R06.3'),
    ('literal-eval-replaced', [('unparsers/extractor.py', "    'Null': (\n        Raw(value=None),", "    'Null': (\n        Raw(value='null'),", 0)], 'C19', 'R19.1'),
    ('comment-flag-leaks', [(L, "    def _is_prev_token_lt(self):\n        return self.lt_before_cur_token",
                             "    def _is_prev_token_lt(self):\n        if self.with_comments:\n            return False\n        return self.lt_before_cur_token", 0)], 'C13', 'R13.1'),
    ('getpos-line-col-swapped', [('handlers/core.py', "    _, lineno, colno = node.getpos(';', 0)\n    yield StreamFragment(';', lineno, colno, None, None)\n\n\ndef layout_handler_semicolon_optional",
                                  "    _, colno, lineno = node.getpos(';', 0)\n    yield StreamFragment(';', lineno, colno, None, None)\n\n\ndef layout_handler_semicolon_optional", 0)], 'C08', 'R08.3'),
]

# behaviour-preserving edits
TWINS = [
    ('optional-inlines-is-empty', [('ruletypes.py', "        if is_empty(getattr(node, self.attr)):\n            return\n", "        value = getattr(node, self.attr)\n        if value is None or value == []:\n            return\n", 0)]),
    ('process-layouts-local-renamed', [('unparsers/walker.py', "lrcs_stack", "pending", -1)]),
    ('walk-nodes-stack-renamed', [('unparsers/walker.py', "sourcepath_stack", "srcpaths", -1)]),
    ('rename-nonterminal', [(P, 'identifier_name_string', 'identifier_name_str', -1)]),
    ('frozenset-as-set-literal', [(L, "IMPLIED_BLOCK_IDENTIFIER = frozenset([\n    'FOR',\n    'WHILE',\n    'IF',\n    'WITH',\n])",
                                   "IMPLIED_BLOCK_IDENTIFIER = {'FOR', 'WHILE', 'IF', 'WITH'}", 0)]),
    ('rewrap-definition', [(U, "    'Throw': (\n        CommentsAttr(),\n        Text(value='throw'), Space, Attr('expr'), EndStatement,\n    ),",
                            "    'Throw': (CommentsAttr(), Text(value='throw'),\n              Space, Attr('expr'),\n              EndStatement),", 0)]),
    ('docstring-comments-added', [(L, "    def _is_prev_token_lt(self):\n", "    def _is_prev_token_lt(self):\n        # was the previous raw token a line terminator?\n", 0),
                                  (P, "    def p_program(self, p):\n", "    # top\n    def p_program(self, p):\n", 0)]),
    ('setpos-explicit-default', [(P, "        p[0] = self.asttypes.Block(p[2])\n        p[0].setpos(p)", "        p[0] = self.asttypes.Block(p[2])\n        p[0].setpos(p, 1)", 0)]),
    ('minify-dict-two-updates', [('rules.py', "            (EndStatement, Dedent): rule_handler_noop,\n            ((OptionalSpace, EndStatement), CloseBlock):\n                layout_handler_closebrace,\n        })",
                                  "            (EndStatement, Dedent): rule_handler_noop,\n        })\n        layout_handlers.update({\n            ((OptionalSpace, EndStatement), CloseBlock):\n                layout_handler_closebrace,\n        })", 0)]),
    ('local-variable-renamed', [('io.py', "closer", "closers", -1)]),
    ('keyword-args-reordered', [(P, "self.asttypes.DoWhile(predicate=p[5], statement=p[2])", "self.asttypes.DoWhile(statement=p[2], predicate=p[5])", 0)]),
]


def make_copy(edits):
    tmp = tempfile.mkdtemp(prefix='selftest_')
    shutil.copytree('/repo/src', os.path.join(tmp, 'src'),
                    ignore=shutil.ignore_patterns('__pycache__', 'lextab_*', 'yacctab_*', 'tests'))
    for rel, old, new, nth in edits:
        p = os.path.join(tmp, 'src/calmjs/parse', rel)
        s = open(p).read()
        if old not in s:
            shutil.rmtree(tmp)
            raise SystemExit('variant edit does not apply: %s %r' % (rel, old[:50]))
        if nth == -1:
            s = s.replace(old, new)
        else:
            idx = -1
            for _ in range(nth + 1):
                idx = s.index(old, idx + 1)
            s = s[:idx] + new + s[idx + len(old):]
        open(p, 'w').write(s)
    # the mutated sources must still compile
    for root, _, files in os.walk(os.path.join(tmp, 'src')):
        for f in files:
            if f.endswith('.py'):
                compile(open(os.path.join(root, f)).read(), f, 'exec')
    return tmp


def run_check(c, root):
    env = dict(os.environ, VERIF_NO_EVIDENCE='1')
    p = subprocess.run([PY, os.path.join(HERE, 'vp.py'), 'check', c, '--root', root],
                       capture_output=True, text=True, env=env)
    keys = [l.split(' ', 1)[1].split(' ')[0] for l in p.stdout.splitlines() if l.startswith('FINDING ')]
    err = [l for l in p.stdout.splitlines() if l.startswith('ANALYSIS-ERROR')]
    known = sorted(l for l in p.stdout.splitlines() if l.startswith('KNOWN-FINDING'))
    return p.returncode, keys, err, known


def firing(v):
    name, edits, check, prefix = v
    tmp = make_copy(edits)
    try:
        rc, keys, err, _ = run_check(check, tmp)
        ok = rc == 1 and any(k.startswith(prefix) for k in keys)
        return name, ok, 'rc=%d %s %s' % (rc, keys[:3], err[:1])
    finally:
        shutil.rmtree(tmp, ignore_errors=True)


def twin(v):
    name, edits = v
    tmp = make_copy(edits)
    try:
        bad = []
        for c in ALL:
            rc, keys, err, known = run_check(c, tmp)
            if rc != 0:
                bad.append('%s rc=%d %s %s' % (c, rc, keys[:2], err[:1]))
        return name, not bad, '; '.join(bad)
    finally:
        shutil.rmtree(tmp, ignore_errors=True)


def main():
    only = sys.argv[2] if len(sys.argv) > 2 and sys.argv[1] == '--only' else None
    fails = 0
    with cf.ProcessPoolExecutor(max_workers=12) as ex:
        for name, ok, info in ex.map(firing, [v for v in FIRING if not only or only in v[0]]):
            print('%-34s %s %s' % (name, 'fires ' if ok else 'SILENT', '' if ok else info))
            fails += not ok
        for name, ok, info in ex.map(twin, [v for v in TWINS if not only or only in v[0]]):
            print('%-34s %s %s' % (name + ' (twin)', 'quiet ' if ok else 'ALARMS', info))
            fails += not ok
    print('selftest: %d problem(s)' % fails)
    return 1 if fails else 0


if __name__ == '__main__':
    sys.exit(main())
