#!/venv/bin/python
"""EXPLORATION ONLY (never used by a registered check): imports the real
calmjs.parse from <root>/src so that a predicted finding can be confirmed
with a concrete input.  usage: tools_explore.py [--root R] 'python expr'"""
import sys, types, os
root = '/repo'
args = sys.argv[1:]
if args and args[0] == '--root':
    root = args[1]; args = args[2:]
sys.dont_write_bytecode = True
import calmjs  # namespace module created by the .pth file
calmjs.__path__ = [os.path.join(root, 'src', 'calmjs')] + [p for p in calmjs.__path__ if 'site-packages' in p and False]
for k in [k for k in sys.modules if k.startswith('calmjs.parse')]:
    del sys.modules[k]
import ply.yacc, ply.lex
from calmjs.parse.parsers import es5 as P
from calmjs.parse.lexers.es5 import Lexer
class Parser(P.Parser):
    def __init__(self, with_comments=False):
        self.lex_optimize = False; self.lextab = None; self.yacc_optimize=False; self.yacctab=None
        self.yacc_debug=False; self.yacc_tracking=True
        self.lexer = Lexer(with_comments=with_comments)
        self.lexer.build(optimize=False)
        self.tokens = self.lexer.tokens
        self.parser = ply.yacc.yacc(module=self, optimize=False, debug=False, write_tables=False, start='program', errorlog=ply.yacc.NullLogger())
        self.asttypes = P.asttypes
def parse(src, with_comments=False):
    return Parser(with_comments).parse(src)
from calmjs.parse.unparsers.es5 import pretty_print, minify_print
env = dict(parse=parse, pretty_print=pretty_print, minify_print=minify_print, P=P, Lexer=Lexer)
for a in args:
    try:
        print(repr(eval(a, env)))
    except Exception as e:
        print('EXC', type(e).__name__, e)
