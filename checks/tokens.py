# -*- coding: utf-8 -*-
"""
RT.1 - the Token classes of ruletypes.py do what the printer model assumes.

For every distinct configuration (class, deferrable, attr/value shape) that
occurs in the unparser definition table the class is *evaluated from its
source* (engine/tokensem.py) on a finite domain of attribute values and the
recorded sequence of walk() calls is compared with the sequence the
transcription in engine/skeleton.py / engine/stream.py predicts:

  attr        value empty -> nothing, else walk(value, token=self) once
  text        walk(self.value, token=self)
  operator    as attr over getattr(node, attr) or self.value
  optional    attribute empty -> nothing, else walk(node, self.value)
  join        items interleaved with walk(node, definition=self.value)
  elisiontoken  walk(self.value * node.<attr>, token=self)
  elisionjoin   the item automaton  X,X: sep value | X,E: sep | E,X: value

A deviation means some definition of the table prints a child twice, not
at all, out of order, or without its separator: the printed text no
longer re-parses to the same tree (C01, C02).  Checks of other properties
that only *use* the printer model treat a deviation as a stale model
(ANALYSIS-ERROR), not as a violation of their property.
"""
from __future__ import annotations

import ast
import itertools

from engine.common import AnalysisError
from engine.absint import Obj
from engine.tokensem import TokenSemantics, make_node


def _same(a, b):
    if isinstance(a, Obj) or isinstance(b, Obj):
        return a is b
    return type(a) == type(b) and a == b


def _trace_eq(got, exp):
    if not isinstance(got, list) or len(got) != len(exp):
        return False
    for g, e in zip(got, exp):
        if g[0] != e[0] or len(g) != len(e):
            return False
        for x, y in zip(g[1:], e[1:]):
            if y is ANY:
                continue
            if not _same(x, y):
                return False
    return True


ANY = object()


def _fmt(trace):
    if not isinstance(trace, list):
        return repr(trace)
    out = []
    for r in trace:
        if r[0] == 'walk':
            t = r[1]
            if isinstance(t, Obj):
                t = t.__dict__.get('_label') or t.__dict__['_cls']
            d = r[2]
            out.append('walk(%s%s)' % (
                t if isinstance(t, str) and not isinstance(r[1], str)
                else repr(t) if isinstance(r[1], str) else t,
                '' if d is None else ', definition'))
        else:
            out.append(r[0])
    return '[' + ', '.join(out) + ']'


def node(cls, label, **fields):
    n = make_node(cls, **fields)
    n.__dict__['_label'] = label
    return n


def configurations(D):
    """distinct (kind, cls, deferrable, attr?, value shape) with one
    representative term each"""
    seen = {}
    for name in D.defs:
        for t in D.walk_terms(name):
            if t.kind in ('layout', 'struct'):
                continue
            vshape = 'seq' if t.seq is not None else (
                'str' if isinstance(t.value, str) else 'none')
            key = (t.kind, t.cls, t.deferrable, t.attr is not None, vshape)
            seen.setdefault(key, (name, t))
    return seen


def conformance(index, M):
    """list of (key, ok, message, n evaluations)"""
    D = M.definitions
    T = TokenSemantics(index)
    results = []
    SEQ = ('<sub definition>',)
    for key, (defname, t) in sorted(configurations(D).items(),
                                    key=lambda kv: repr(kv[0])):
        kind, cls, deferrable, has_attr, vshape = key
        label = '%s(%s%s%s)' % (
            cls, (deferrable + '()') if deferrable else
            ('attr' if has_attr else ''),
            ', value=(...)' if vshape == 'seq' else
            (', value=%r' % t.value if vshape == 'str' else ''), '')
        value = SEQ if vshape == 'seq' else t.value
        problems = []
        count = [0]

        def run(nd, attr='x', handlers=None, ctor_attr=True):
            kwargs = {}
            dfr = None
            if deferrable:
                args = []
                if deferrable == 'Declare':
                    args = [attr]
                dfr = (deferrable, args)
            elif has_attr and ctor_attr:
                kwargs['attr'] = attr
            if value is not None:
                kwargs['value'] = value
            count[0] += 1
            return T.run(cls, [], kwargs, nd, handlers=handlers,
                         attr_deferrable=dfr)

        def expect(what, got, exp):
            if not _trace_eq(got, exp):
                problems.append('%s: evaluates to %s, the printer model '
                                'assumes %s' % (what, _fmt(got), _fmt(exp)))

        N1, N2, N3 = (node('X', 'n%d' % i) for i in (1, 2, 3))
        if kind in ('attr', 'operator') and not deferrable:
            if not has_attr:
                # Operator(value='='), CommentsAttr() default attribute
                if cls == 'CommentsAttr' or D.rc.is_a(cls, 'CommentsAttr'):
                    for v, exp in ((None, []), ([], []),
                                   (N1, [('walk', N1, None, ANY)])):
                        tok, got, _ = run(Obj('P', comments=v))
                        expect('comments=%s' % _lbl(v), got, exp)
                else:
                    tok, got, _ = run(Obj('P'))
                    expect('value %r' % (value,), got,
                           [('walk', value, None, ANY)])
            else:
                for v, exp in ((None, []), ([], []),
                               (N1, [('walk', N1, None, ANY)]),
                               ('txt', [('walk', 'txt', None, ANY)]),
                               ('0', [('walk', '0', None, ANY)])):
                    tok, got, _ = run(Obj('P', x=v))
                    expect('attribute=%s' % _lbl(v), got, exp)
        elif kind == 'attr' and deferrable in ('Resolve', 'Literal',
                                               'LineComment',
                                               'BlockComment'):
            ncls = 'Identifier' if deferrable == 'Resolve' else 'X'
            nd = node(ncls, 'leaf', value='foo')
            tok, got, _ = run(nd)
            if deferrable in ('LineComment', 'BlockComment'):
                # without a handler a comment prints nothing
                expect('no handler', got, [])
            else:
                expect('no handler', got, [('walk', 'foo', None, ANY)])
            tok, got, tr = run(nd, handlers={deferrable: lambda n: 'bar'})
            expect('with handler', got, [('walk', 'bar', None, ANY)])
            if [r for r in tr if r[0] == 'handler'] != [
                    ('handler', deferrable, nd)]:
                problems.append('the %s handler is not called exactly once '
                                'with the node' % deferrable)
        elif kind == 'attr' and deferrable == 'Declare':
            ident = node('Identifier', 'id', value='foo')
            for v in (None, ident):
                tok, got, tr = run(Obj('P', x=v),
                                   handlers={'Declare': lambda n: None})
                expect('attribute=%s' % _lbl(v), got,
                       [] if v is None else [('walk', v, None, ANY)])
                hs = [r for r in tr if r[0] == 'handler']
                want = [] if v is None else [('handler', 'Declare', v)]
                if hs != want:
                    problems.append('Declare handler calls for %s: %r' % (
                        _lbl(v), hs))
        elif kind == 'text':
            tok, got, _ = run(Obj('P'))
            expect('value %r' % (value,), got, [('walk', value, None, ANY)])
        elif kind == 'optional':
            for v in (None, [], N1, [N1], 'txt'):
                nd = Obj('P', x=v)
                tok, got, _ = run(nd)
                expect('attribute=%s' % _lbl(v), got,
                       [] if v in (None, []) else
                       [('walk', nd, SEQ, None)])
        elif kind == 'join':
            items = [N1, N2, N3]
            if deferrable == 'Declare':
                items = [node('Identifier', 'id%d' % i, value='v%d' % i)
                         for i in (1, 2, 3)]
            for n in range(0, 4):
                xs = items[:n]
                if deferrable == 'Iter':
                    nd = Obj('P', _children=xs)
                else:
                    nd = Obj('P', x=xs)
                handlers = {'Declare': lambda n: None} \
                    if deferrable == 'Declare' else None
                tok, got, tr = run(nd, handlers=handlers)
                exp = []
                for i, x in enumerate(xs):
                    if i:
                        exp.append(('walk', nd, value if value else (),
                                    None))
                    exp.append(('walk', x, None, ANY))
                expect('%d item(s)' % n, got, exp)
                if deferrable == 'Declare':
                    hs = [r for r in tr if r[0] == 'handler']
                    if hs != [('handler', 'Declare', x) for x in xs]:
                        problems.append('Declare handler calls for %d '
                                        'items: %r' % (n, hs))
        elif kind == 'elisiontoken':
            for n in (1, 2, 3):
                nd = node('Elision', 'E%d' % n, value=n)
                tok, got, _ = run(nd, attr='value')
                expect('value=%d' % n, got,
                       [('walk', (value or '') * n, None, ANY)])
        elif kind == 'elisionjoin':
            for n in range(0, 5):
                for shape in itertools.product('EX', repeat=n):
                    xs = [node('Elision', 'E', value=2) if c == 'E'
                          else node('X', 'x') for c in shape]
                    nd = Obj('P', x=xs)
                    tok, got, _ = run(nd)
                    exp = []
                    for i, x in enumerate(xs):
                        if i:
                            if shape[i - 1] != 'E':
                                exp.append(('walk', SEP, None, None))
                            if shape[i] != 'E':
                                exp.append(('walk', nd, value if value
                                            else (), None))
                        exp.append(('walk', x, None, ANY))
                    got2 = _mark_sep(got, xs)
                    expect('items %s' % (''.join(shape) or '<none>'),
                           got2, exp)
        else:
            raise AnalysisError('token configuration %r has no conformance '
                                'domain' % (key,))
        # constructor signature assumed by engine/defs.py
        try:
            tok = T.build(cls)
            dflt = 'comments' if D.rc.is_a(cls, 'CommentsAttr') else None
            if getattr(tok, 'attr') != dflt or getattr(tok, 'value') \
                    is not None or getattr(tok, 'pos') != 0:
                problems.append('constructor defaults are (attr=%r, '
                                'value=%r, pos=%r)' % (
                                    tok.attr, tok.value, tok.pos))
        except AnalysisError:
            pass
        results.append((label, defname, not problems, '; '.join(problems),
                        count[0]))
    return results


class _Sep(object):
    def __repr__(self):
        return '<separator Elision(1)>'


SEP = _Sep()


def _mark_sep(got, xs):
    """replace the surrogate separator node (an Elision of value 1 that is
    not one of the items) by the SEP marker"""
    if not isinstance(got, list):
        return got
    out = []
    for r in got:
        if r[0] == 'walk' and isinstance(r[1], Obj) and \
                r[1].__dict__['_cls'] == 'Elision' and \
                not any(r[1] is x for x in xs):
            if r[1].has('value') and r[1].value == 1:
                out.append(('walk', SEP, r[2], r[3]))
                continue
        out.append(r)
    return out


def _lbl(v):
    if isinstance(v, Obj):
        return v.__dict__.get('_label') or v.__dict__['_cls']
    if isinstance(v, list):
        return '[' + ', '.join(_lbl(x) for x in v) + ']'
    return repr(v)


def _same_patch():
    pass


def token_rule(report, index, M, rid, violation=True):
    """violation=True: deviations are failures of rule `rid`;
    violation=False: deviations stop the check as a stale model"""
    res = conformance(index, M)
    if not violation:
        bad = [(l, m) for l, d, ok, m, n in res if not ok]
        if bad:
            raise AnalysisError(
                'the printer model is stale: ruletypes.%s deviates from '
                'the transcription (%s)' % (bad[0][0], bad[0][1][:300]))
        report.count('token class configurations evaluated from '
                     'ruletypes.py', len(res))
        return res
    r = report.rule(rid, 'Token classes of ruletypes.py print every child '
                    'once, in order, with its separators (decision table '
                    'by abstract evaluation)', floor=12)
    for label, defname, ok, msg, n in res:
        r.check(ok, label, 'ruletypes.py:%s' % label,
                'used by definition %s: %s' % (defname, msg),
                where='ruletypes.py:%s.__call__' % label.split('(')[0],
                okdetail='%d evaluations agree with the printer model' % n)
    report.count('%s: evaluations of Token.__call__' % rid,
                 sum(x[4] for x in res))
    return res


def deferrable_rule(report, index, rid, only=None):
    """Resolve / Literal / LineComment / BlockComment hand back exactly what
    the dispatcher's handler returns, whatever its spelling, and the node's
    own value (nothing for comments) without a handler: evaluated from
    ruletypes.py over a domain of handler results"""
    from engine.absint import Evaluator, Obj, Raised
    rt = index.need('calmjs.parse.ruletypes')
    r = report.rule(rid, 'deferrable rules pass the handler result through '
                    'unchanged (decision table by evaluation)',
                    floor=4 if only else 30)
    domain = {
        'Resolve': ('a', 'Z', '_', '$', '_a', '$0', 'a_b', 'ab', 'Z9',
                    '\u00e9', '__', '$$', 'aaaaaaaaaaaaaaaaaaaaaaaaaaaaaaaa'),
        'Literal': ('"s"', "'a b'", '1', '0x1F', '/re/g', '""', "'\\n'",
                    '1e3', 'true'),
        'LineComment': ('//c', '// c  ', '//', '//\t'),
        'BlockComment': ('/*c*/', '/**/', '/* a\n * b */'),
    }
    own, bases = {}, {}
    for name, node in rt.classes.items():
        own[name] = rt.class_methods(name)
        bases[name] = [ast.unparse(b).split('.')[-1] for b in node.bases]

    def methods_of(cls):
        out = {}
        todo = [cls]
        while todo:
            c = todo.pop(0)
            for k, v in own.get(c, {}).items():
                out.setdefault(k, v)
            todo.extend(bases.get(c, []))
        return out
    for cls, values in sorted(domain.items()):
        if only and cls not in only:
            continue
        if cls not in rt.classes:
            raise AnalysisError('ruletypes.%s vanished' % cls)
        ms = methods_of(cls)
        call = ms.get('__call__')
        if call is None:
            raise AnalysisError('ruletypes.%s has no __call__' % cls)
        ncls = 'Identifier' if cls == 'Resolve' else (
            'String' if cls == 'Literal' else cls)
        for v in values + (None,):
            node = Obj(ncls, value='original')
            rule_obj = Obj(cls)
            if v is None:
                disp = Obj('Dispatcher', deferrable=(
                    'pyfunc', lambda r_: NotImplemented))
                want = 'original' if cls in ('Resolve', 'Literal') else None
            else:
                disp = Obj('Dispatcher', deferrable=('pyfunc', lambda r_, v=v: (
                    'pyfunc', lambda d, n, v=v: v)))
                want = v
            ev = Evaluator(rt, cls, ms, {}, is_subclass=lambda c, b: c == b,
                           max_steps=20000)
            try:
                got, _ = ev.call(call, [disp, node], self_obj=rule_obj)
            except Raised as e:
                got = 'raises %s' % e.text
            r.check(got == want, '%s handler result %s' % (
                cls, 'absent' if v is None else repr(v)),
                '%s()(dispatcher, node) with the handler %s' % (
                    cls, 'absent' if v is None else 'returning %r' % v),
                'yields %r, expected %r: what the handler decided is not '
                'what is printed' % (got, want),
                where='ruletypes.py:%s.__call__' % cls)
    return r
