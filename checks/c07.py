# -*- coding: utf-8 -*-
"""
C07 - name obfuscation is a consistent, capture-free renaming.

Capture freedom is a relation between runtime scope sets; the core of C07
is NOT decided.  Structural necessary conditions decided here:

R07.1 scope markers are balanced and properly nested on every path of every
      definition; every construct that opens an ES5 scope has them, with
      parameters / body inside and the declared function name outside
R07.2 only identifier spellings change: the obfuscation rule contributes no
      layout handler, exactly the Resolve deferrable and the unobfuscate
      token handler; Resolve() occurs only in the Identifier definition;
      the prewalk hook returns the tree it was given; global scope is
      remapped iff obfuscate_globals
R07.3 generated names are identifiers and never reserved words: every
      public factory hands the generator a skip set that covers the ES5
      reserved words (def-use through default arguments)
R07.4 (note) binding sites are wrapped in Declare
R07.5 the skip set of a scope covers free names of the scope and of its
      descendants and the remapped names of enclosing scopes it refers to;
      only locally declared names are remapped (decision on abstract scope
      trees by abstract evaluation of Scope / CatchScope)
"""
from __future__ import annotations

import ast
import itertools
import operator

from engine.common import AnalysisError
from engine.absint import Evaluator, Obj, Raised
from engine.layout import Tables
from engine.srcindex import need_function, need_const, Unfoldable
from .shared import models

OBF = 'calmjs.parse.handlers.obfuscation'

ES5_RESERVED = set('''break case catch continue debugger default delete do
else finally for function if in instanceof new return switch this throw try
typeof var void while with class const enum export extends import super
null true false'''.split())

SCOPE_DEFS = {'FuncDecl': 'Scope', 'FuncExpr': 'Scope',
              'GetPropAssign': 'Scope', 'SetPropAssign': 'Scope',
              'Catch': 'Catch'}


def marker_paths(seq):
    """all marker sequences (struct marks and declare/resolve/body events)
    over the paths of a definition; Optional gives two paths"""
    paths = [[]]
    for t in seq:
        if t.kind == 'struct':
            for p in paths:
                p.append(t.name)
        elif t.kind == 'optional':
            sub = marker_paths(t.seq)
            paths = [p + s for p in paths for s in sub] + \
                [list(p) for p in paths]
        elif t.kind in ('attr', 'join'):
            ev = None
            if t.deferrable == 'Declare':
                ev = 'declare:%s' % t.attr
            elif t.kind == 'join' and t.attr == 'elements':
                ev = 'body'
            elif t.kind == 'attr' and t.attr in ('elements',):
                ev = 'body'
            elif t.kind == 'attr' and t.attr == 'identifier':
                ev = 'use:identifier'
            if ev:
                for p in paths:
                    p.append(ev)
    # dedupe
    out = []
    for p in paths:
        if p not in out:
            out.append(p)
    return out


# callables whose result can be iterated only once
ONE_SHOT_FACTORIES = ('iter', 'map', 'filter', 'zip', 'chain',
                      'from_iterable', 'islice', 'reversed', 'enumerate',
                      'takewhile', 'dropwhile', 'starmap', 'filterfalse',
                      'compress', 'accumulate', 'zip_longest')


def _flatten_iterable(v):
    """set of the strings a folded iterable expression yields; chain(...)
    and friends are looked through.  Anything else yields the empty set
    (coverage then cannot be shown)."""
    from engine.srcindex import CallTerm
    if isinstance(v, CallTerm):
        name = getattr(v.func, 'name', '')
        if name.split('.')[-1] in ('chain', 'tuple', 'list', 'set',
                                   'frozenset', 'sorted', 'iter'):
            out = set()
            for a in v.args:
                out |= _flatten_iterable(a)
            return out
        return set()
    if isinstance(v, dict):
        return set(v)
    if isinstance(v, (tuple, list, set, frozenset)):
        out = set()
        for x in v:
            if isinstance(x, str):
                out.add(x)
        return out
    return set()


def run(report, index, tier):
    M = models(index)
    from .c20 import guard_tokens, guard_transcriptions
    guard_tokens(report, index, M)
    guard_transcriptions(index, M, report, depth=2)
    from . import c14
    c14.rules(report, index)
    from .tokens import deferrable_rule
    deferrable_rule(report, index, 'R07.9', only=('Resolve', 'Literal'))
    D, A, lm = M.definitions, M.actions, M.lexmodel
    obf = index.need(OBF)
    T = Tables(index)
    report.explanation = (
        'Structural necessary conditions of a capture-free renaming: '
        'marker balance in the definitions, the shape of the obfuscation '
        'rule table, def-use of the reserved-word skip set through the '
        'public factories, and decision tables of the Scope bookkeeping '
        'obtained by abstract evaluation on abstract scope trees.')
    report.not_decided.append(
        'capture freedom itself (a relation between the runtime sets '
        'referenced_symbols / local_declared_symbols / remapped_symbols of '
        'an arbitrary scope tree); `with` / direct eval are out of scope')
    # R07.1 ---------------------------------------------------------------
    r1 = report.rule('R07.1', 'scope markers balanced, nested, and present '
                     'on every scope-opening construct', floor=10)
    pairs = {'PushScope': 'PopScope', 'PushCatch': 'PopCatch'}
    for defname, seq in sorted(D.defs.items()):
        for path in marker_paths(seq):
            stack = []
            ok = True
            why = ''
            for ev in path:
                if ev in pairs:
                    stack.append(ev)
                elif ev in pairs.values():
                    if not stack or pairs[stack[-1]] != ev:
                        ok, why = False, '%s without matching push' % ev
                        break
                    stack.pop()
            if ok and stack:
                ok, why = False, '%s is never popped' % stack
            has = any(e in pairs or e in pairs.values() for e in path)
            if has or defname in SCOPE_DEFS:
                r1.check(ok, '%s markers %s' % (defname, path),
                         '%s path %s' % (defname, path),
                         'scope markers are not balanced / nested: %s'
                         % why, where='unparsers/es5.py:%s' % defname)
    for defname, kind in sorted(SCOPE_DEFS.items()):
        if defname not in D.defs:
            raise AnalysisError('definition %s vanished' % defname)
        for path in marker_paths(D.defs[defname]):
            push = 'PushScope' if kind == 'Scope' else 'PushCatch'
            pop = pairs[push]
            ok = push in path and pop in path
            detail = '%s opens an ES5 scope but its definition lacks ' \
                '%s/%s' % (defname, push, pop)
            if ok:
                i, j = path.index(push), path.index(pop)
                inside = path[i + 1:j]
                outside = path[:i] + path[j + 1:]
                if 'body' not in inside:
                    ok = False
                    detail = 'the body of %s is walked outside its scope ' \
                        'markers' % defname
                for ev in path:
                    if ev.startswith('declare:') and ev != \
                            'declare:identifier' and ev not in inside:
                        ok = False
                        detail = '%s is declared outside the scope of %s' \
                            % (ev, defname)
                if kind == 'Scope' and 'declare:identifier' in inside:
                    ok = False
                    detail = 'the function name is declared inside the ' \
                        'function scope (it must be visible to the ' \
                        'enclosing scope)'
                if kind == 'Catch' and 'use:identifier' not in inside:
                    ok = False
                    detail = 'the catch parameter is printed outside the ' \
                        'catch scope'
            r1.check(ok, '%s scope %s' % (defname, path),
                     '%s path %s' % (defname, path), detail,
                     where='unparsers/es5.py:%s' % defname)
    # R07.2 ---------------------------------------------------------------
    r2 = report.rule('R07.2', 'obfuscation changes identifier spellings '
                     'only', floor=6)
    tab = T.table('obfuscate')
    r2.check(not tab.get('layout_handlers'), 'no layout handlers',
             'rules.obfuscate: layout_handlers',
             'the obfuscation rule installs layout handlers %s: output '
             'would differ in more than identifier spellings' % (
                 tab.get('layout_handlers'),), where='rules.py:obfuscate')
    dh = tab.get('deferrable_handlers', {})
    r2.check([k.name for k in dh] == ['Resolve'] and
             list(dh.values())[0].name == 'Obfuscator.resolve',
             'deferrables == {Resolve}', 'rules.obfuscate: '
             'deferrable_handlers', 'deferrable handlers are %s, expected '
             'exactly Resolve -> Obfuscator.resolve' % dh,
             where='rules.py:obfuscate')
    th = tab.get('token_handler')
    r2.check(th is not None and th.name == 'token_handler_unobfuscate',
             'token handler', 'rules.obfuscate: token_handler',
             'token handler is %s' % th, where='rules.py:obfuscate')
    hooks = tab.get('prewalk_hooks', [])
    r2.check([h.name for h in hooks] == ['Obfuscator.prewalk_hook'],
             'prewalk hook', 'rules.obfuscate: prewalk_hooks',
             'prewalk hooks are %s' % hooks, where='rules.py:obfuscate')
    pw = need_function(obf, 'prewalk_hook', 'Obfuscator')
    last = pw.body[-1]
    r2.check(isinstance(last, ast.Return) and isinstance(
        last.value, ast.Name) and last.value.id == pw.args.args[2].arg,
        'prewalk returns node', 'Obfuscator.prewalk_hook',
        'the prewalk hook does not return the tree it was given',
        where='handlers/obfuscation.py:Obfuscator.prewalk_hook')
    for defname, seq in sorted(D.defs.items()):
        uses = [t for t in D.walk_terms(defname)
                if t.deferrable == 'Resolve']
        if defname == 'Identifier':
            r2.check(len(uses) == 1, 'Identifier uses Resolve',
                     'definition Identifier', 'Identifier does not print '
                     'through Resolve(): nothing would be renamed')
        else:
            r2.check(not uses, '%s uses Resolve' % defname,
                     'definition %s' % defname,
                     '%s prints through Resolve(): its text (a property '
                     'name / literal) would be renamed' % defname,
                     where='unparsers/es5.py:%s' % defname)
    # finalize: global scope remapped iff obfuscate_globals
    omethods = obf.class_methods('Obfuscator')
    for flag in (False, True):
        calls = []

        def brs(gen, children_only=True, calls=calls):
            calls.append(children_only)
        gs = Obj('Scope', close=('pyfunc', lambda: None),
                 build_remap_symbols=('pyfunc', brs))
        o = Obj('Obfuscator', global_scope=gs, obfuscate_globals=flag,
                reserved_keywords=('do',))
        ev = Evaluator(obf, 'Obfuscator', omethods, {
            'NameGenerator': lambda skip=None: ('gen', tuple(skip or ()))})
        ev.call(omethods['finalize'], [], self_obj=o)
        r2.check(calls == [not flag], 'finalize(obfuscate_globals=%s)'
                 % flag, 'Obfuscator.finalize with obfuscate_globals=%s'
                 % flag, 'build_remap_symbols called with children_only=%s;'
                 ' names declared at top level must be remapped iff '
                 'obfuscate_globals' % calls,
                 where='handlers/obfuscation.py:Obfuscator.finalize')
    # R07.3 ---------------------------------------------------------------
    r3 = report.rule('R07.3', 'generated names are identifiers and never '
                     'reserved words', floor=5)
    chars = need_const(obf, 'ID_CHARS', types=str)
    import re
    r3.check(all(re.match(r'[A-Za-z_$]', c) for c in chars) and chars,
             'ID_CHARS', 'ID_CHARS = %r' % chars,
             'ID_CHARS contains a character that cannot start an '
             'identifier', where='handlers/obfuscation.py:ID_CHARS')
    kd = lm.keywords_dict
    r3.check(ES5_RESERVED <= set(kd), 'Lexer.keywords_dict covers ES5 '
             'reserved words', 'Lexer.keywords_dict',
             'missing reserved words: %s' % sorted(ES5_RESERVED - set(kd)))
    # def-use of reserved_keywords through the public factories
    factories = [
        ('calmjs.parse.rules', 'obfuscate'),
        ('calmjs.parse.handlers.obfuscation', 'obfuscate'),
        ('calmjs.parse.handlers.obfuscation', 'Obfuscator.__init__'),
    ]
    for modname, fname in factories:
        m = index.need(modname)
        if '.' in fname:
            cls, meth = fname.split('.')
            fdef = need_function(m, meth, cls)
        else:
            fdef = need_function(m, fname)
        a = fdef.args
        names = [x.arg for x in a.args]
        ds = [None] * (len(names) - len(a.defaults)) + list(a.defaults)
        dmap = dict(zip(names, ds))
        d = dmap.get('reserved_keywords')
        if 'reserved_keywords' not in dmap:
            raise AnalysisError('%s.%s lost its reserved_keywords '
                                'parameter' % (modname, fname))
        default = None
        if d is not None:
            try:
                default = set(ast.literal_eval(d))
            except Exception:
                default = None
        ok = d is None or (default is not None and ES5_RESERVED <= default)
        r3.check(
            ok, 'default reserved_keywords of %s.%s' % (
                modname.split('.')[-1], fname),
            '%s.%s(reserved_keywords=%s)' % (
                modname.split('.')[-1], fname,
                ast.unparse(d) if d is not None else '<required>'),
            'the public factory defaults to reserved_keywords=%s, which '
            'does not cover the ES5 reserved words: the documented '
            'composition Unparser(rules=(obfuscate(), indent())) generates '
            '`do`, `if`, `in` as soon as a scope needs two-letter names' % (
                ast.unparse(d) if d is not None else None),
            where='%s:%s' % (modname, fname))
    um = index.need('calmjs.parse.unparsers.es5')
    mp = need_function(um, 'minify_printer')
    call = [n for n in ast.walk(mp) if isinstance(n, ast.Call) and
            ast.unparse(n.func).endswith('rules.obfuscate')]
    ok = False
    if call:
        kw = {k.arg: k.value for k in call[0].keywords}
        if 'reserved_keywords' in kw:
            from engine.srcindex import Folder
            try:
                v = Folder(um).fold(kw['reserved_keywords'])
                ok = ES5_RESERVED <= _flatten_iterable(v)
            except Unfoldable:
                ok = False
    if call:
        kwv = {k.arg: k.value for k in call[0].keywords}.get(
            'reserved_keywords')
        oneshot = isinstance(kwv, ast.GeneratorExp) or (
            isinstance(kwv, ast.Call) and
            ast.unparse(kwv.func).split('.')[-1] in ONE_SHOT_FACTORIES)
        r3.check(not oneshot, 'reserved_keywords is re-iterable',
                 'minify_printer: reserved_keywords=%s' % (
                     ast.unparse(kwv) if kwv is not None else None),
                 'the skip set is a one-shot iterator: it is consumed by '
                 'the first print call of the printer, later calls skip '
                 'no reserved word', where='unparsers/es5.py:minify_printer')
    # the rule closure is invoked once per print call: the skip set it
    # hands to the Obfuscator must be the same on every invocation (a
    # one-shot iterator created by the factory would be empty from the
    # second print on) - decided by evaluating rules.obfuscate and calling
    # the closure it returns three times
    rules_mod = index.need('calmjs.parse.rules')
    ofn = need_function(rules_mod, 'obfuscate')
    for label, given in (('a tuple', ('do', 'if', 'in', '')),
                         ('a list', ['do', 'if', 'in']),
                         ('a set', {'do', 'if', 'in'})):
        seen_kw = []

        def mk_obf(seen_kw=seen_kw, **kw):
            rk = kw.get('reserved_keywords')
            try:
                seen_kw.append(sorted(x for x in rk if x))
            except TypeError:
                seen_kw.append(repr(rk))
            return Obj('Obfuscator', **kw)
        evo = Evaluator(rules_mod, None, {}, {'Obfuscator': mk_obf},
                        max_steps=100000, class_methods=T._class_methods())
        evo.inline_module_functions = True
        try:
            clo, _ = evo.call(ofn, [], {'reserved_keywords': given})
            if not (isinstance(clo, tuple) and clo and clo[0] == 'closure'):
                raise AnalysisError('rules.obfuscate does not return a '
                                    'rule closure')
            for _i in range(3):
                evo.steps = 0
                evo.call_closure(clo, [], {})
        except Raised as e:
            seen_kw.append('raises %s' % e.text)
        want = sorted(x for x in given if x)
        r3.check(len(seen_kw) == 3 and all(k == want for k in seen_kw),
                 'skip set stable across print calls (%s)' % label,
                 'rules.obfuscate(reserved_keywords=<%s>)() called three '
                 'times' % label,
                 'the Obfuscator instances of successive print calls '
                 'receive the skip sets %r, expected %r each time: from '
                 'the second print on, reserved words are generated' % (
                     seen_kw, want), where='rules.py:obfuscate')
    r3.check(ok, 'minify_printer passes the keyword list',
             'unparsers.es5.minify_printer', 'minify_printer does not pass '
             'a skip set covering the ES5 reserved words to '
             'rules.obfuscate', where='unparsers/es5.py:minify_printer')
    # the generator honours the skip set (decision by abstract evaluation)
    ng = obf.class_methods('NameGenerator')
    gen_iter = ng.get('__iter__')
    if gen_iter is None:
        raise AnalysisError('NameGenerator.__iter__ vanished')
    o = Obj('NameGenerator', skip={'a', 'c', 'ab'}, charset='abc')
    ev = Evaluator(obf, 'NameGenerator', ng, {
        'count': lambda n: range(n, 3),
        'product': lambda cs, repeat=1: itertools.product(cs, repeat=repeat)
    }, max_steps=100000)
    _, ys = ev.call(gen_iter, [], self_obj=o)
    want = [s for s in ['a', 'b', 'c', 'aa', 'ab', 'ac', 'ba', 'bb', 'bc',
                        'ca', 'cb', 'cc'] if s not in ('a', 'c', 'ab')]
    r3.check(ys == want, 'NameGenerator skips', 'NameGenerator.__iter__ '
             'with charset abc, skip {a, c, ab}',
             'yields %s, expected %s' % (ys[:8], want[:8]),
             where='handlers/obfuscation.py:NameGenerator.__iter__')
    # finalize seeds the generator with the reserved words, and generators
    # derived for a scope keep them (both by evaluating the source)
    ng_init = ng.get('__init__')
    ngcall = ng.get('__call__')
    if ng_init is None or ngcall is None:
        raise AnalysisError('NameGenerator.__init__ / __call__ vanished')

    def mk_generator(*args, **kw):
        o = Obj('NameGenerator')
        e2 = Evaluator(obf, 'NameGenerator', ng, {
            'iter': lambda x: iter(())}, max_steps=10000)
        e2.call(ng_init, list(args), kw, self_obj=o)
        return o
    fin = need_function(obf, 'finalize', 'Obfuscator')
    seen = []
    gscope = Obj('Scope', close=('pyfunc', lambda: None),
                 build_remap_symbols=('pyfunc', lambda g, **kw: seen.append(
                     (g, kw))))
    oself = Obj('Obfuscator', global_scope=gscope,
                reserved_keywords=('do', 'if'), obfuscate_globals=False)
    ev = Evaluator(obf, 'Obfuscator', obf.class_methods('Obfuscator'),
                   {'NameGenerator': mk_generator}, max_steps=10000)
    try:
        ev.call(fin, [], self_obj=oself)
    except Raised as e:
        seen = 'raises %s' % e.text
    ok = isinstance(seen, list) and len(seen) == 1 and isinstance(
        seen[0][0], Obj) and seen[0][0].has('skip') and {'do', 'if'} <= set(
        seen[0][0].skip)
    r3.check(ok, 'finalize seeds the generator with the reserved words',
             'Obfuscator.finalize', 'the name generator handed to '
             'build_remap_symbols does not skip the reserved words '
             '(observed: %r)' % (seen if not isinstance(seen, list) else [
                 (sorted(g.skip) if isinstance(g, Obj) and g.has('skip')
                  else g, kw) for g, kw in seen],),
             where='handlers/obfuscation.py:Obfuscator.finalize')
    base = mk_generator(skip=('do', 'if'))
    ev = Evaluator(obf, 'NameGenerator', ng, {
        'type': lambda o: ('pyfunc', mk_generator)}, max_steps=10000)
    try:
        derived, _ = ev.call(ngcall, [{'x'}], self_obj=base)
        dskip = set(derived.skip) if isinstance(derived, Obj) and \
            derived.has('skip') else None
    except Raised as e:
        dskip = 'raises %s' % e.text
    r3.check(isinstance(dskip, set) and {'do', 'if', 'x'} <= dskip,
             'derived generators keep the reserved words',
             'NameGenerator.__call__', 'a generator derived for a scope '
             'skips %r; it must keep the reserved words it was seeded '
             'with and add the names of the scope' % (dskip,),
             where='handlers/obfuscation.py:NameGenerator.__call__')
    # R07.5 ---------------------------------------------------------------
    r5 = report.rule('R07.5', 'reserved set of a scope covers free names '
                     '(own, descendants) and remapped outer names; only '
                     'declared names are remapped', floor=6)
    class_own = {c: obf.class_methods(c) for c in obf.classes}
    class_bases = {c: [b.id for b in node.bases if isinstance(b, ast.Name)]
                   for c, node in obf.classes.items()}
    cm = {}
    for c, node in obf.classes.items():
        methods = {}
        for b in node.bases:
            if isinstance(b, ast.Name) and b.id in obf.classes:
                methods.update(obf.class_methods(b.id))
        methods.update(obf.class_methods(c))
        cm[c] = methods

    def scope(parent=None, refs=None, decl=(), remap=None):
        s = Obj('Scope', node=None, parent=parent, children=[],
                referenced_symbols=dict(refs or {}),
                local_declared_symbols=set(decl),
                remapped_symbols=dict(remap or {}), _closed=False)
        if parent is not None:
            parent.children.append(s)
        return s

    def catch(parent, sym, usage=1, remap=None):
        s = Obj('CatchScope', node=None, parent=parent, children=[],
                catch_symbol=sym, catch_symbol_usage=usage,
                remapped_symbols=dict(remap or {}), _closed=False)
        parent.children.append(s)
        return s

    def mkev():
        return Evaluator(obf, None, {}, {
            'set': set, 'sorted': sorted,
            'reversed': lambda x: list(reversed(list(x))),
            'itemgetter': operator.itemgetter, 'next': next,
            'NameGenerator': lambda skip=None, charset=None: iter(
                n for n in ['a', 'b', 'c', 'd', 'e', 'f', 'g', 'h', 'i',
                            'j', 'k', 'l'] if n not in (skip or ())),
            'type': lambda o: o.__dict__['_cls']},
            class_methods=cm, max_steps=200000, class_own=class_own,
            class_bases=class_bases)

    def prop(obj, name):
        ev = mkev()
        fd = cm[obj.__dict__['_cls']].get(name) or cm['Scope'][name]
        ret, _ = ev.call(fd, [], self_obj=obj)
        return ret
    # tree: G(global) > P declares p,q (p remapped to 'a') > C declares x,
    # refers p (outer), g (free) > K refers h (free), x
    G = scope(None, {'g': 1, 'h': 1, 'P': 0}, {'P'})
    P = scope(G, {'p': 2, 'q': 1, 'g': 1, 'h': 1}, {'p', 'q'},
              {'p': 'a', 'q': 'b'})
    C = scope(P, {'x': 3, 'p': 1, 'g': 1, 'h': 1}, {'x'})
    K = scope(C, {'h': 1, 'x': 1}, set())
    try:
        res = prop(C, '_reserved_symbols')
    except (Raised, AnalysisError) as e:
        raise AnalysisError('cannot evaluate Scope._reserved_symbols: %s'
                            % e)
    for name, why in (('a', 'the remapped name of the outer variable `p` '
                       'that this scope refers to'),
                      ('g', 'a free (global) name used in this scope'),
                      ('h', 'a free name used in a nested scope')):
        r5.check(name in res, 'reserved covers %s' % why.split(' (')[0],
                 'Scope._reserved_symbols on an abstract scope tree',
                 '%r (%s) is not in the reserved set %s: a generated name '
                 'could capture it' % (name, why, sorted(res)),
                 where='handlers/obfuscation.py:Scope._reserved_symbols')
    # build_remap_symbols: only declared names, distinct, outside reserved
    gen_calls = []

    NAMES = ['a', 'b', 'c', 'd', 'e', 'f', 'g', 'h', 'i', 'j', 'k', 'l']
    # `b` plays the role of a reserved word: the generator the obfuscator
    # hands down was seeded with it.  A generator built afresh from the
    # class (the NameGenerator stand-in of mkev) does not know it.
    RESERVED = {'b'}

    def name_generator(skip=()):
        gen_calls.append(set(skip))
        return iter(n for n in NAMES
                    if n not in skip and n not in RESERVED)
    ev = mkev()
    ev.call(cm['Scope']['build_remap_symbols'],
            [('pyfunc', name_generator), False], self_obj=C)
    rs = C.remapped_symbols
    r5.check(set(rs) == {'x'}, 'only declared names are remapped',
             'Scope.build_remap_symbols',
             'remapped %s; free and outer names must keep their spelling' %
             sorted(rs), where='handlers/obfuscation.py:Scope.'
             'build_remap_symbols')
    r5.check(bool(gen_calls) and {'a', 'g', 'h'} <= gen_calls[0] and
             rs.get('x') not in ('a', 'g', 'h'),
             'generator is seeded with the reserved set',
             'Scope.build_remap_symbols', 'the generator for the scope was '
             'seeded with %s' % (gen_calls[:1],),
             where='handlers/obfuscation.py:Scope.build_remap_symbols')
    r5.check(K.remapped_symbols == {}, 'children are processed',
             'Scope.build_remap_symbols recursion',
             'nested scope got %s' % K.remapped_symbols)
    # catch scope
    G2 = scope(None, {'g': 1}, set())
    F = scope(G2, {'e': 1, 'v': 2, 'g': 1}, {'v'}, {'v': 'a'})
    CS = catch(F, 'e', 2)
    K2 = scope(CS, {'e': 1, 'v': 1, 'w': 1, 'z': 1}, {'w'})
    try:
        res = prop(CS, '_reserved_symbols')
    except (Raised, AnalysisError) as e:
        raise AnalysisError('cannot evaluate CatchScope._reserved_symbols: '
                            '%s' % e)
    for name, why in (('a', 'remapped name of the function variable `v`'),
                      ('g', 'free name of the enclosing function'),
                      ('z', 'free name used in a nested function')):
        r5.check(name in res, 'catch reserved covers %s' % why,
                 'CatchScope._reserved_symbols on an abstract scope tree',
                 '%r (%s) is not in the reserved set %s' % (
                     name, why, sorted(res)),
                 where='handlers/obfuscation.py:CatchScope')
    gen_calls[:] = []
    ev = mkev()
    ev.call(cm['CatchScope']['build_remap_symbols'],
            [('pyfunc', name_generator)], self_obj=CS)
    r5.check(set(CS.remapped_symbols) == {'e'} and
             CS.remapped_symbols['e'] not in ('a', 'g', 'z'),
             'catch parameter remapped alone',
             'CatchScope.build_remap_symbols',
             'remapped %s' % CS.remapped_symbols,
             where='handlers/obfuscation.py:CatchScope.build_remap_symbols')
    # the complete renaming (root call, as Obfuscator.finalize does) must be
    # injective on the names visible in every scope: two different
    # variables never get the same spelling (capture)
    def all_scopes(sc):
        yield sc
        for c in sc.children:
            for x in all_scopes(c):
                yield x

    def visible(sc):
        cls = sc.__dict__['_cls']
        if cls == 'CatchScope':
            names = {sc.catch_symbol} | set(sc.parent.referenced_symbols)
        else:
            names = set(sc.referenced_symbols)
        return names
    trees = []

    def is_sub(c, b):
        seen = [c]
        while seen:
            x = seen.pop()
            if x == b:
                return True
            seen.extend(class_bases.get(x, []))
        return False

    def new_scope(cls, node, parent=None):
        obj = Obj(cls)
        ev = builder()
        ev.call(cm[cls]['__init__'], [node, parent], self_obj=obj)
        return obj

    def builder():
        ev = mkev()
        ev.functions.update({
            'Scope': lambda node, parent=None: new_scope(
                'Scope', node, parent),
            'CatchScope': lambda node, parent=None: new_scope(
                'CatchScope', node, parent),
            'type': lambda o: (lambda *a: new_scope(
                o.__dict__['_cls'], *a)),
        })
        ev.is_subclass = is_sub
        return ev

    def call(obj, meth, *args):
        ev = builder()
        ret, _ = ev.call(cm[obj.__dict__['_cls']][meth], list(args),
                         self_obj=obj)
        return ret

    def build(spec, parent):
        """spec = (kind, declared, referenced, children); the calls mirror
        what the prewalk does: declare / reference while inside the scope,
        close when leaving it"""
        kind, declared, referenced, children = spec
        if kind == 'func':
            sc = call(parent, 'funcdecl', Obj('FuncDecl'))
        else:
            sc = call(parent, 'catchctx', Obj(
                'Catch', identifier=Obj('Identifier', value=kind[1])))
        for n in declared:
            call(sc, 'declare', n)
        for n in referenced:
            call(sc, 'reference', n)
        for ch in children:
            build(ch, sc)
        call(sc, 'close')
        return sc
    try:
        # function f(){ var v; try{}catch(e){ g(function(){var w; e;v;z}) } }
        G3 = new_scope('Scope', None)
        call(G3, 'declare', 'f')
        build(('func', ['v'], ['v', 'g'], [
            (('catch', 'e'), [], ['e', 'g'], [
                ('func', ['w'], ['w', 'w', 'e', 'v', 'z'], [])])]), G3)
        call(G3, 'close')
        trees.append(('catch + closure using the catch parameter', G3))
        # three nested functions sharing and shadowing names
        G4 = new_scope('Scope', None)
        build(('func', ['x', 'y'], ['x', 'x', 'x', 'y', 'h'], [
            ('func', ['q'], ['x', 'q', 'q', 'h'], [
                ('func', ['r'], ['q', 'y', 'r'], [])])]), G4)
        call(G4, 'close')
        trees.append(('three nested functions', G4))
        # many locals next to a catch: generated names beyond one letter
        G5 = new_scope('Scope', None)
        build(('func', ['a1', 'a2', 'a3'], ['a1', 'a2', 'a3', 'b'], [
            (('catch', 'a1'), [], ['a1', 'a2'], [
                ('func', ['a1', 'c'], ['a1', 'c', 'a3', 'b'], [])])]), G5)
        call(G5, 'close')
        trees.append(('catch parameter shadowing a local', G5))
    except (Raised, AnalysisError) as e:
        raise AnalysisError('cannot build abstract scope trees through '
                            'Scope.nest/declare/reference/close: %s' % e)
    for label, root in trees:
        ev = mkev()
        try:
            ev.call(cm['Scope']['build_remap_symbols'],
                    [('pyfunc', name_generator), True], self_obj=root)
        except (Raised, AnalysisError) as e:
            raise AnalysisError('cannot evaluate build_remap_symbols: %s'
                                % e)
        used = {}
        for sc in all_scopes(root):
            for orig, new in (sc.remapped_symbols.items()
                              if sc.has('remapped_symbols') else ()):
                used.setdefault(new, []).append(orig)
        r5.check(not (set(used) & RESERVED), 'generated names avoid the '
                 'reserved words: %s' % label, label,
                 'the variable(s) %s are renamed to %s, a name the '
                 'generator handed down by the obfuscator was told to skip '
                 '(a reserved word): some scope creates its own generator '
                 'instead of deriving it' % (
                     sorted(sum((v for k, v in used.items()
                                 if k in RESERVED), [])),
                     sorted(set(used) & RESERVED)),
                 where='handlers/obfuscation.py:build_remap_symbols')
        for sc in all_scopes(root):
            names = sorted(visible(sc))
            out = {}
            for n in names:
                ev = mkev()
                fd = cm[sc.__dict__['_cls']]['resolve']
                r_, _ = ev.call(fd, [n], self_obj=sc)
                out.setdefault(r_, []).append(n)
            clash = {k: v for k, v in out.items() if len(v) > 1}
            r5.check(not clash, 'renaming injective: %s' % label,
                     '%s: scope declaring %s' % (label, sorted(
                         [sc.catch_symbol] if sc.__dict__['_cls'] ==
                         'CatchScope' else sc.local_declared_symbols)),
                     'after renaming, the distinct variables %s are both '
                     'spelled %r in this scope: one captures the other' % (
                         list(clash.values())[0] if clash else '',
                         list(clash)[0] if clash else ''),
                     where='handlers/obfuscation.py:build_remap_symbols')
    # resolve walks outwards
    ev = mkev()
    ret, _ = ev.call(cm['Scope']['resolve'], ['p'], self_obj=K)
    r5.check(ret == 'a', 'resolve finds the outer mapping', 'Scope.resolve',
             'resolve("p") from a nested scope gives %r, expected the outer '
             'mapping "a"' % ret, where='handlers/obfuscation.py:Scope.'
             'resolve')
    ev = mkev()
    ret, _ = ev.call(cm['Scope']['resolve'], ['g'], self_obj=K)
    r5.check(ret == 'g', 'resolve leaves free names', 'Scope.resolve',
             'resolve("g") gives %r: free names must be unchanged' % ret)
    # R07.4 (note) --------------------------------------------------------
    declared = []
    for defname in D.defs:
        for t in D.walk_terms(defname):
            if t.deferrable == 'Declare':
                declared.append('%s.%s' % (defname, t.attr))
    report.informational.append(
        'binding sites wrapped in Declare: %s' % ', '.join(sorted(declared)))
    report.trusted_base += ['definitions model', 'abstract evaluator',
                            'ES5 reserved word list (7.6.1)']
