# -*- coding: utf-8 -*-
"""
C10 - Base64-VLQ codec is a bijection in canonical Source Map V3 form.

The inverse law is arithmetic over all integers and is NOT decided.  One
clause is an agreement between the writer's and the reader's tables and
constants and is decided:

R10.1 INT_B64 is the RFC 4648 base64 alphabet in order and B64_INT its
      inverse; VLQ_SHIFT = 5, VLQ_CONT = 1 << VLQ_SHIFT, VLQ_BASE_MASK =
      VLQ_CONT - 1, VLQ_MULTI_CHAR = VLQ_CONT / 2; encoder and decoder use
      these names (no diverging literal); encode_mappings /
      decode_mappings use the same separators.  (Expression-shape rules
      such as "the sign is shifted into bit 0" are deliberately not
      checked: they would fire on behaviour-preserving rewrites.)
"""
from __future__ import annotations

import ast

from engine.common import AnalysisError
from engine.srcindex import need_const, need_function

VLQ = 'calmjs.parse.vlq'
RFC4648 = ('ABCDEFGHIJKLMNOPQRSTUVWXYZabcdefghijklmnopqrstuvwxyz'
           '0123456789+/')


def names_and_ints(fdef):
    names = set()
    ints = []
    for n in ast.walk(fdef):
        if isinstance(n, ast.Name):
            names.add(n.id)
        elif isinstance(n, ast.Constant) and isinstance(n.value, int) and \
                not isinstance(n.value, bool):
            ints.append(n.value)
    return names, ints


def run(report, index, tier):
    m = index.need(VLQ)
    report.explanation = (
        'Table/constant agreement between the VLQ writer and reader, read '
        'from the module constants (folded) and from the names and '
        'literals the codec functions use.  The bijection law itself is '
        'arithmetic over all integers and is not decided statically.')
    report.not_decided.append(
        'encode/decode inverse law for every integer and canonicity of '
        'every encoding (arithmetic; out of reach of static analysis)')
    r = report.rule('R10.1', 'canonical alphabet/constants; writer and '
                    'reader agree', floor=10)
    int_b64 = need_const(m, 'INT_B64', types=str)
    r.check(int_b64 == RFC4648, 'INT_B64', 'INT_B64',
            'INT_B64 is not the RFC 4648 base64 alphabet in order: first '
            'difference at index %s' % next(
                (i for i, (a, b) in enumerate(zip(int_b64, RFC4648))
                 if a != b), 'length'), where='vlq.py:INT_B64')
    b64_int = need_const(m, 'B64_INT', types=dict)
    r.check(b64_int == {c: i for i, c in enumerate(int_b64)} and
            len(b64_int) == 64, 'B64_INT inverse', 'B64_INT',
            'B64_INT is not the inverse of INT_B64', where='vlq.py:B64_INT')
    shift = need_const(m, 'VLQ_SHIFT', types=int)
    cont = need_const(m, 'VLQ_CONT', types=int)
    mask = need_const(m, 'VLQ_BASE_MASK', types=int)
    multi = need_const(m, 'VLQ_MULTI_CHAR', types=int)
    r.check(shift == 5, 'VLQ_SHIFT', 'VLQ_SHIFT = %d' % shift,
            'Source Map V3 uses 5-bit groups')
    r.check(cont == 1 << shift == 32, 'VLQ_CONT', 'VLQ_CONT = %d' % cont,
            'continuation bit must be 1 << VLQ_SHIFT = 32')
    r.check(mask == cont - 1 == 31, 'VLQ_BASE_MASK',
            'VLQ_BASE_MASK = %d' % mask, 'base mask must be VLQ_CONT - 1')
    r.check(multi == cont // 2 == 16, 'VLQ_MULTI_CHAR',
            'VLQ_MULTI_CHAR = %d' % multi,
            'the single-character shortcut must cover exactly the values '
            'below VLQ_CONT / 2 (raw values with the sign bit < 16... 31 '
            'need no continuation only below 32; the shortcut bound is 16 '
            'sign-shifted units)')
    enc = need_function(m, 'encode_vlq')
    dec = need_function(m, 'vlq_decoder')
    en, ei = names_and_ints(enc)
    dn, di = names_and_ints(dec)
    r.check({'INT_B64', 'VLQ_BASE_MASK', 'VLQ_CONT', 'VLQ_SHIFT'} <= en,
            'encoder uses the shared constants', 'encode_vlq',
            'encode_vlq does not use INT_B64 / VLQ_BASE_MASK / VLQ_CONT / '
            'VLQ_SHIFT (found %s)' % sorted(
                n for n in en if n.isupper()), where='vlq.py:encode_vlq')
    r.check({'B64_INT', 'VLQ_BASE_MASK', 'VLQ_CONT', 'VLQ_SHIFT'} <= dn,
            'decoder uses the shared constants', 'vlq_decoder',
            'vlq_decoder does not use B64_INT / VLQ_BASE_MASK / VLQ_CONT / '
            'VLQ_SHIFT (found %s)' % sorted(
                n for n in dn if n.isupper()), where='vlq.py:vlq_decoder')
    r.check(set(ei) <= {0, 1, -1}, 'encoder literals', 'encode_vlq',
            'encode_vlq uses the integer literal(s) %s besides 0/1: a '
            'constant that can diverge from the decoder' % sorted(
                set(ei) - {0, 1, -1}), where='vlq.py:encode_vlq')
    r.check(set(di) <= {0, 1, -1}, 'decoder literals', 'vlq_decoder',
            'vlq_decoder uses the integer literal(s) %s besides 0/1' %
            sorted(set(di) - {0, 1, -1}), where='vlq.py:vlq_decoder')
    # separators
    em = need_function(m, 'encode_mappings')
    dm = need_function(m, 'decode_mappings')
    es = [n.value for n in ast.walk(em) if isinstance(n, ast.Constant) and
          isinstance(n.value, str)]
    ds = [n.value for n in ast.walk(dm) if isinstance(n, ast.Constant) and
          isinstance(n.value, str)]
    r.check(sorted(es) == [',', ';'] and sorted(ds) == [',', ';'],
            'mapping separators', 'encode_mappings / decode_mappings',
            'writer separators %s vs reader separators %s: Source Map V3 '
            'uses `,` between segments and `;` between lines' % (es, ds),
            where='vlq.py')
    report.trusted_base += ['CPython ast', 'constant folder']
