# -*- coding: utf-8 -*-
"""
C10 - Base64-VLQ codec is a bijection in canonical Source Map V3 form.

The inverse law is arithmetic over all integers and is NOT decided.  One
clause is an agreement between the writer's and the reader's tables and
constants and is decided:

R10.1 INT_B64 is the RFC 4648 base64 alphabet in order and B64_INT its
      inverse; VLQ_SHIFT = 5, VLQ_CONT = 1 << VLQ_SHIFT, VLQ_BASE_MASK =
      VLQ_CONT - 1, VLQ_MULTI_CHAR = VLQ_CONT / 2; encoder and decoder use
      these names (no diverging literal); encode_mappings /
      decode_mappings use the same separators.  (Expression-shape rules
      such as "the sign is shifted into bit 0" are deliberately not
      checked: they would fire on behaviour-preserving rewrites.)
"""
from __future__ import annotations

import ast

from engine.common import AnalysisError
from engine.srcindex import need_const, need_function

VLQ = 'calmjs.parse.vlq'
RFC4648 = ('ABCDEFGHIJKLMNOPQRSTUVWXYZabcdefghijklmnopqrstuvwxyz'
           '0123456789+/')


def reference_vlq(i):
    """canonical Base64 VLQ digits of an integer (Source Map V3)"""
    raw = (-i << 1) | 1 if i < 0 else i << 1
    out = []
    while True:
        d = raw & 31
        raw >>= 5
        if raw:
            out.append(RFC4648[d | 32])
        else:
            out.append(RFC4648[d])
            break
    return ''.join(out)


def names_and_ints(fdef):
    names = set()
    ints = []
    for n in ast.walk(fdef):
        if isinstance(n, ast.Name):
            names.add(n.id)
        elif isinstance(n, ast.Constant) and isinstance(n.value, int) and \
                not isinstance(n.value, bool):
            ints.append(n.value)
    return names, ints


def run(report, index, tier):
    report.explanation = (
        'Table/constant agreement between the VLQ writer and reader, read '
        'from the module constants (folded), and the codec functions '
        'folded on a table of integers against an independent reference '
        'encoder.  The bijection law itself for every integer is '
        'arithmetic and is not decided statically.')
    rules(report, index)


def rules(report, index):
    """also part of C09: a conforming decoder reads the map only if the
    digits are the canonical ones"""
    m = index.need(VLQ)
    _unused = (
        'Table/constant agreement between the VLQ writer and reader, read '
        'from the module constants (folded) and from the names and '
        'literals the codec functions use.  The bijection law itself is '
        'arithmetic over all integers and is not decided statically.')
    report.not_decided.append(
        'encode/decode inverse law for every integer (arithmetic): R10.2 '
        'folds the functions on [-2100, 2100], the powers of two up to '
        '2**65 with their neighbours and the 5-bit group boundaries')
    r = report.rule('R10.1', 'canonical alphabet/constants; writer and '
                    'reader agree', floor=2)
    int_b64 = need_const(m, 'INT_B64', types=str)
    r.check(int_b64 == RFC4648, 'INT_B64', 'INT_B64',
            'INT_B64 is not the RFC 4648 base64 alphabet in order: first '
            'difference at index %s' % next(
                (i for i, (a, b) in enumerate(zip(int_b64, RFC4648))
                 if a != b), 'length'), where='vlq.py:INT_B64')
    b64_int = need_const(m, 'B64_INT', types=dict)
    r.check(b64_int == {c: i for i, c in enumerate(int_b64)} and
            len(b64_int) == 64, 'B64_INT inverse', 'B64_INT',
            'B64_INT is not the inverse of INT_B64', where='vlq.py:B64_INT')
    shift = need_const(m, 'VLQ_SHIFT', types=int)
    cont = need_const(m, 'VLQ_CONT', types=int)
    mask = need_const(m, 'VLQ_BASE_MASK', types=int)
    r.check(shift == 5, 'VLQ_SHIFT', 'VLQ_SHIFT = %d' % shift,
            'Source Map V3 uses 5-bit groups')
    r.check(cont == 1 << shift == 32, 'VLQ_CONT', 'VLQ_CONT = %d' % cont,
            'continuation bit must be 1 << VLQ_SHIFT = 32')
    r.check(mask == cont - 1 == 31, 'VLQ_BASE_MASK',
            'VLQ_BASE_MASK = %d' % mask, 'base mask must be VLQ_CONT - 1')
    # R10.2: the codec functions folded on the group boundaries ------------
    r2 = report.rule('R10.2', 'encode / decode folded on every integer of [-2100, 2100], '
                     'every power of two up to 2**65 with its neighbours, '
                     'every 5-bit group boundary, and all ordered pairs of '
                     'a value pool: they '
                     'give the canonical Source Map V3 digits and invert '
                     'each other', floor=500)
    from engine.absint import Evaluator, Raised

    def ev():
        e = Evaluator(m, functions={'next': lambda it: next(iter(it))},
                      max_steps=200000)
        return e
    fns = {n: need_function(m, n) for n in (
        'encode_vlq', 'encode_vlqs', 'vlq_decoder', 'decode_vlq',
        'decode_vlqs', 'encode_mappings', 'decode_mappings')}

    def call(name, *args):
        try:
            ret, ys = ev().call(fns[name], list(args))
        except Raised as e:
            return 'raises %s' % e.text
        if name == 'vlq_decoder':
            return ys
        return ret
    values = {0, 1, -1, 2, -2, 15, -15, 16, -16, 17, -17, 1023, -1023,
              1024, -1024, 2 ** 31 - 1, 2 ** 31, -2 ** 31, 2 ** 53,
              2 ** 64 + 1, -(2 ** 64 + 1), 10 ** 30, -(10 ** 30)}
    for k in range(0, 10):
        b_ = 1 << (4 + 5 * k)
        values |= {b_ - 1, b_, b_ + 1, -(b_ - 1), -b_, -(b_ + 1)}
    # every small integer (tables of precomputed encodings end somewhere
    # in this range) and every power of two with its neighbours
    values |= set(range(-2100, 2101))
    for k in range(1, 66):
        for d in (-1, 0, 1):
            values |= {(1 << k) + d, -((1 << k) + d)}
    for i in sorted(values, key=lambda v: (abs(v), v)):
        want = reference_vlq(i)
        got = call('encode_vlq', i)
        r2.check(got == want, 'encode %d' % i, 'encode_vlq(%d)' % i,
                 'encode_vlq(%d) gives %r; the canonical Base64 VLQ is %r'
                 % (i, got, want), where='vlq.py:encode_vlq')
        back = call('decode_vlq', want)
        r2.check(back == i and type(back) is int, 'decode %d' % i,
                 'decode_vlq(%r)' % want,
                 'decode_vlq(%r) gives %r; the digits denote %d' % (
                     want, back, i), where='vlq.py:vlq_decoder')
    # the list forms may take other paths than the scalar form (tables
    # of precomputed small encodings, generators): every value again,
    # alone and after another value
    bad_list = []
    for i in sorted(values, key=lambda v: (abs(v), v)):
        want = reference_vlq(i)
        for seq in ([i], [7, i]):
            wants = ''.join(reference_vlq(x) for x in seq)
            got = call('encode_vlqs', list(seq))
            back = call('decode_vlqs', wants)
            if got != wants or back != tuple(seq):
                bad_list.append((seq, got, wants, back))
        if abs(i) <= 700 or abs(i) in (1024, 2 ** 20, 2 ** 31, 2 ** 40):
            maps_ = [[(i,), (0, i, 3, i)], [(4, 0, i, 2)]]
            got = call('encode_mappings', maps_)
            wantm = '%s,%s;%s' % (
                want, ''.join(reference_vlq(x) for x in (0, i, 3, i)),
                ''.join(reference_vlq(x) for x in (4, 0, i, 2)))
            if got != wantm:
                bad_list.append((maps_, got, wantm, None))
    r2.check(not bad_list, 'list forms agree with the scalar codec',
             'encode_vlqs / decode_vlqs / encode_mappings on every value of '
             'the scalar table',
             '%d sequences differ; first: %r is encoded as %r (canonical: '
             '%r), decoded back as %r' % (
                 len(bad_list), bad_list[0][0] if bad_list else None,
                 bad_list[0][1] if bad_list else None,
                 bad_list[0][2] if bad_list else None,
                 bad_list[0][3] if bad_list else None),
             where='vlq.py:encode_vlqs / decode_vlqs / encode_mappings')
    seqs = [(0, 0, 0, 0), (1, -1, 16, -16), (123456, 0, -7, 2 ** 40),
            (), (5,)]
    # decoder state must not leak from one value to the next: all ordered
    # pairs over short / long, negative / positive values
    pool = (0, 1, -1, 15, -15, 16, -16, 20, -20, 40, -40, 1000, -1000,
            2 ** 20, -(2 ** 20))
    seqs += [(a_, b_) for a_ in pool for b_ in pool]
    seqs += [(-20, 40, -1000, 7), (40, -20, 16, -16, 0)]
    for seq in seqs:
        want = ''.join(reference_vlq(i) for i in seq)
        got = call('encode_vlqs', list(seq))
        back = call('decode_vlqs', want)
        r2.check(got == want and back == tuple(seq),
                 'sequence %r' % (seq,), 'encode_vlqs / decode_vlqs %r'
                 % (seq,), 'encode gives %r (expected %r), decode gives %r'
                 % (got, want, back), where='vlq.py')
    # one call, several segments: what was encoded for an earlier segment
    # must not influence a later one (tables, memoisation keyed by hashes:
    # hash(-1) == hash(-2), hash(2**61 - 1) == hash(0) in CPython)
    hpool = (0, 1, -1, -2, 2, 15, 16, -16, 2 ** 61 - 1, 2 ** 61,
             -(2 ** 61 - 1), 2 ** 61 - 2)
    bad_hist = []
    for v in hpool:
        for w in hpool:
            maps_ = [[(4, 0, 0, v), (4, 0, 0, w)], [(v,), (w,)],
                     [(4, 0, 0, v)]]
            wantm = ';'.join(','.join(''.join(
                reference_vlq(x) for x in seg) for seg in line)
                for line in maps_)
            got = call('encode_mappings', maps_)
            back = call('decode_mappings', wantm)
            if got != wantm or back != [list(x) for x in maps_]:
                bad_hist.append((maps_, got, wantm, back))
    r2.check(not bad_hist, 'segments of one call are encoded independently',
             'encode_mappings / decode_mappings on every ordered pair of '
             'segments over %d values in one call' % len(hpool),
             '%d mappings differ; first: %r is encoded as %r (canonical: '
             '%r), decoded back as %r' % (
                 len(bad_hist), bad_hist[0][0] if bad_hist else None,
                 bad_hist[0][1] if bad_hist else None,
                 bad_hist[0][2] if bad_hist else None,
                 bad_hist[0][3] if bad_hist else None),
             where='vlq.py:encode_mappings / decode_mappings')
    maps = [[(0, 0, 0, 0), (4, 0, 0, 4, 1)], [], [(2,)]]
    want = 'AAAA,IAAIC;;E'
    got = call('encode_mappings', maps)
    back = call('decode_mappings', want)
    r2.check(got == want and back == [list(x) for x in maps],
             'mappings', 'encode_mappings / decode_mappings',
             'encode gives %r (expected %r: `,` between segments, `;` '
             'between lines), decode gives %r' % (got, want, back),
             where='vlq.py')
    report.trusted_base += ['CPython ast', 'constant folder']
