# -*- coding: utf-8 -*-
"""
C04 - automatic semicolon insertion follows ECMA-262 7.9.

R04.1 AUTOSEMI twins in the grammar (and nowhere else)
R04.2 decision table of Lexer.auto_semi (exhaustive over the abstract
      domain) and the retry discipline of Parser.p_error
R04.3 restricted productions: decision table of the AUTOSEMI rule in
      Lexer._get_update_token; enforcement site for postfix ++/--
R04.4 the line-terminator evidence survives comments (finite exploration
      of the abstract transition function extracted from _set_tokens)
R04.5 every ES5 line terminator reaches the LINE_TERMINATOR rule
"""
from __future__ import annotations

import ast
import itertools

from engine.common import AnalysisError
from engine.absint import Evaluator, Obj, Raised
from engine.srcindex import need_function, need_const
from .shared import models

ES5_LINE_TERMINATORS = '\n\r\u2028\u2029'

# ES5 statements terminated by `;` that 7.9 makes optional (A.4)
ASI_STATEMENTS = {
    'variable_statement': 'VariableStatement',
    'expr_statement': 'ExpressionStatement',
    'iteration_statement': 'do-while',
    'continue_statement': 'ContinueStatement',
    'break_statement': 'BreakStatement',
    'return_statement': 'ReturnStatement',
    'throw_statement': 'ThrowStatement',
    'debugger_statement': 'DebuggerStatement',
}
RESTRICTED_PREFIX = {'CONTINUE', 'BREAK', 'RETURN', 'THROW'}


def canon(oc):
    import re
    return (oc.status, re.sub(r':[A-Za-z_]+', '', repr(oc.value)),
            [(n.cls, sorted((i, a) for i, a, _ in n.setpos))
             for n in oc.nodes])


def r041(report, g, A):
    rule = report.rule('R04.1', 'SEMI-terminated statements have an '
                       'AUTOSEMI twin; AUTOSEMI occurs nowhere else',
                       floor=20)
    if 'AUTOSEMI' not in g.terminals or 'SEMI' not in g.terminals:
        raise AnalysisError('SEMI/AUTOSEMI tokens vanished')
    rhs_by_lhs = {}
    for p in g.productions:
        rhs_by_lhs.setdefault(p.lhs, {})[p.rhs] = p
    lhs_with_twin = set()
    for p in g.productions:
        n_auto = p.rhs.count('AUTOSEMI')
        if p.rhs and p.rhs[-1] == 'SEMI' and len(p.rhs) > 1:
            twin = p.rhs[:-1] + ('AUTOSEMI',)
            tp = rhs_by_lhs[p.lhs].get(twin)
            ok = tp is not None
            detail = 'no alternative `%s -> %s`: the terminating `;` of ' \
                'this statement can never be inserted' % (
                    p.lhs, ' '.join(twin))
            if ok and tp.func != p.func:
                a = sorted(map(repr, map(canon, A.of(p))))
                b = sorted(map(repr, map(canon, A.of(tp))))
                if a != b:
                    ok = False
                    detail = 'the AUTOSEMI twin is handled by %s which ' \
                        'builds a different tree than %s' % (tp.func, p.func)
            elif ok:
                a = sorted(map(repr, map(canon, A.of(p))))
                b = sorted(map(repr, map(canon, A.of(tp))))
                if a != b:
                    ok = False
                    detail = 'the two alternatives build different trees'
            rule.check(ok, p.text, p.text, detail,
                       where='parsers/es5.py:%s' % p.func)
            if ok:
                lhs_with_twin.add(p.lhs)
        if n_auto:
            ok = (n_auto == 1 and p.rhs[-1] == 'AUTOSEMI' and
                  len(p.rhs) > 1 and
                  rhs_by_lhs[p.lhs].get(p.rhs[:-1] + ('SEMI',)) is not None)
            rule.check(
                ok, 'AUTOSEMI in ' + p.text, p.text,
                'AUTOSEMI outside the terminator position of a statement '
                'with a SEMI twin: an inserted semicolon could become an '
                'empty statement or part of a for(;;) header',
                where='parsers/es5.py:%s' % p.func)
        # SEMI in non-final position (for headers) / alone (empty statement)
        for i, s in enumerate(p.rhs):
            if s == 'SEMI' and (i != len(p.rhs) - 1 or len(p.rhs) == 1):
                alt = p.rhs[:i] + ('AUTOSEMI',) + p.rhs[i + 1:]
                rule.check(
                    alt not in rhs_by_lhs[p.lhs],
                    'non-terminator SEMI %d in %s' % (i + 1, p.text),
                    '%s (SEMI at %d)' % (p.text, i + 1),
                    'this semicolon must never be inserted automatically '
                    'but an AUTOSEMI alternative exists')
    for lhs, name in sorted(ASI_STATEMENTS.items()):
        rule.check(lhs in lhs_with_twin, 'reference ' + lhs,
                   '%s (%s)' % (lhs, name),
                   'ES5 %s is subject to ASI but %s has no SEMI/AUTOSEMI '
                   'pair' % (name, lhs))
    return rule


def lexer_methods(lm):
    return lm.module.class_methods('Lexer')


_LEXER_FIELDS = {}


def lexer_initial_fields(lm):
    """the attributes a fresh Lexer has, obtained by evaluating
    Lexer.__init__ from its source (ply's lexer is not built)"""
    key = id(lm.module)
    if key not in _LEXER_FIELDS:
        methods = lexer_methods(lm)
        init = methods.get('__init__')
        if init is None:
            raise AnalysisError('Lexer.__init__ vanished')
        o = Obj('Lexer', build=('pyfunc', lambda **kw: None))
        ev = Evaluator(lm.module, 'Lexer', methods, {})
        ev.call(init, [], self_obj=o)
        fields = dict(o.__dict__['_fields'])
        fields.pop('build', None)
        fields.pop('token', None)
        _LEXER_FIELDS[key] = fields
    import copy
    out = {}
    for k, v in _LEXER_FIELDS[key].items():
        out[k] = copy.deepcopy(v) if isinstance(v, (list, dict, set)) \
            else v
    return out


def mk_lexer_obj(prev=None, cur=None, stack=None, lm=None):
    fields = dict(prev_token=None, cur_token=None, valid_prev_token=None,
                  cur_token_real=None, next_tokens=[],
                  token_stack=[[None, []]], hidden_tokens=[],
                  with_comments=False, yield_comments=False)
    if lm is not None:
        fields.update(lexer_initial_fields(lm))
    fields['prev_token'] = prev
    fields['cur_token'] = cur
    if stack is not None:
        fields['token_stack'] = stack
    if fields.get('lexer') is None:
        fields['lexer'] = Obj('PlyLexer', lineno=1, lexpos=0, lexdata='')
    return Obj('Lexer', **fields)


def hand(lexer, token):
    """what the pair (ply lexer, Lexer.get_lexer_token) leaves behind when
    it hands out `token`: the token carries ply's current line, ply's line
    counter has advanced over the line terminators in the token and its
    offset stands behind the token.  Stand-ins for get_lexer_token go
    through this so that code consulting the ply lexer sees a consistent
    picture."""
    if not lexer.has('lexer') or lexer.lexer is None:
        lexer.lexer = Obj('PlyLexer', lineno=1, lexpos=0, lexdata='')
    if token is None:
        return None
    ply = lexer.lexer
    if not ply.has('lineno'):
        ply.lineno = 1
    import re as _re
    n = len(_re.findall('\r\n|[\n\r\u2028\u2029]', token.value or ''))
    if not n and token.type == 'LINE_TERMINATOR':
        n = 1
    token.lineno = ply.lineno
    ply.lineno = ply.lineno + n
    return token


def tok(type_, value=None):
    return Obj('LexToken', type=type_, value=value or type_, lineno=1,
               lexpos=0, colno=1)


def r042(report, lm, pm, rid='R04.2'):
    rule = report.rule(rid, 'insertion predicate auto_semi == 7.9.1 '
                       'rules 1-2 (decision table)', floor=15)
    methods = lexer_methods(lm)
    for need in ('auto_semi', '_is_prev_token_lt', '_create_semi_token'):
        if need not in methods:
            raise AnalysisError('Lexer.%s vanished' % need)
    functions = {'AutoLexToken': lambda: Obj('AutoLexToken')}
    cells = 0
    for ttype in (None, 'SEMI', 'AUTOSEMI', 'RBRACE', 'ID', 'LBRACE',
                  'PLUSPLUS'):
        for ptype, depth in [(p_, d_) for p_ in (
                None, 'LINE_TERMINATOR', 'ID', 'BLOCK_COMMENT')
                for d_ in (1, 2, 3)]:
            ev = Evaluator(lm.module, 'Lexer', methods, functions)
            token = tok(ttype) if ttype else None
            # the predicate must not depend on the parenthesis bookkeeping
            # (depth > 1: inside the header of if/for/while)
            stack = [[None, []]] + [[tok('LPAREN'), []]
                                    for _ in range(depth - 1)]
            # the state is reached through the lexer's own transition
            # function: <a> [<previous raw token>] <offending token>
            lexer = mk_lexer_obj(stack=stack, lm=lm)
            feed_ = []
            if ptype is not None:
                if ptype != 'ID':
                    feed_.append(tok('ID', 'a'))
                feed_.append(tok(ptype, '\n' if ptype == 'LINE_TERMINATOR'
                                 else ('/*c*/' if ptype == 'BLOCK_COMMENT'
                                       else 'a')))
            feed_.append(token)
            for t_ in feed_:
                hand(lexer, t_)
                ev.call(methods['_set_tokens'], [t_], self_obj=lexer)
            try:
                ret, _ = ev.call(methods['auto_semi'], [token],
                                 self_obj=lexer)
            except Raised as e:
                ret = ('raised', e.text)
            expected = (ttype is None) or (
                ttype not in ('SEMI', 'AUTOSEMI') and (
                    ttype == 'RBRACE' or ptype == 'LINE_TERMINATOR'))
            got = isinstance(ret, Obj)
            ok = got == expected
            detail = 'auto_semi(token=%s) with previous token %s%s %s a ' \
                'semicolon; 7.9.1 requires %s' % (
                    ttype, ptype, '' if depth == 1 else
                    ' inside %d open header parenthes%s' % (
                        depth - 1, 'is' if depth == 2 else 'es'),
                    'inserts' if got else 'does not insert',
                    'insertion' if expected else 'no insertion')
            if ok and got:
                if ret.type != 'AUTOSEMI' or ret.value != ';':
                    ok = False
                    detail = 'inserted token is %s %r, not AUTOSEMI ";"' % (
                        ret.type, ret.value)
                elif token is not None and lexer.next_tokens != [token]:
                    ok = False
                    detail = 'the offending token is not re-queued after ' \
                        'the inserted semicolon'
                elif token is None and lexer.next_tokens:
                    ok = False
                    detail = 'end of input re-queues a token'
            if ok and not got and ret is not None:
                ok = False
                detail = 'returns %r instead of None' % (ret,)
            rule.check(ok, 'auto_semi(%s|prev=%s|depth=%d)' % (
                ttype, ptype, depth),
                       'auto_semi(token=%s, prev_token=%s, header depth=%d)'
                       % (ttype, ptype, depth - 1),
                       detail, where='lexers/es5.py:Lexer.auto_semi')
            cells += 1
    # p_error: the result of auto_semi is returned to the parser first
    perr = need_function(pm, 'p_error', 'Parser')
    body = [s for s in perr.body if not (isinstance(s, ast.Expr) and
                                         isinstance(s.value, ast.Constant))]
    ok = False
    name = None
    if body and isinstance(body[0], ast.Assign) and isinstance(
            body[0].value, ast.Call) and ast.unparse(
            body[0].value.func).endswith('lexer.auto_semi') and \
            len(body[0].value.args) == 1 and isinstance(
                body[0].targets[0], ast.Name):
        name = body[0].targets[0].id
        arg = ast.unparse(body[0].value.args[0])
        if len(body) > 1 and isinstance(body[1], ast.If) and \
                ast.unparse(body[1].test) == '%s is not None' % name and \
                arg == perr.args.args[1].arg:
            calls = [ast.unparse(s) for s in body[1].body]
            ok = any('errok()' in c for c in calls) and \
                calls[-1] == 'return %s' % name
    rule.check(ok, 'p_error retry', 'Parser.p_error',
               'p_error does not start by asking auto_semi(token) and '
               'returning the inserted token after errok()',
               where='parsers/es5.py:Parser.p_error')
    return rule


def delivery(rule, lm, methods, functions, modes):
    # ... and the semicolon reaches the parser before the next real token,
    # with the comment still delivered (Lexer.token evaluated on the raw
    # stream, only the raw token source is a stand-in)
    tokfn = methods.get('token')
    if tokfn is None:
        raise AnalysisError('Lexer.token vanished')
    for kw in sorted(RESTRICTED_PREFIX):
        for run, label in (
                ((('LINE_TERMINATOR', '\n'),), 'line break'),
                ((('BLOCK_COMMENT', '/*\n*/'),), 'multi-line comment'),
                ((('BLOCK_COMMENT', '/*c*/'), ('LINE_TERMINATOR', '\n')),
                 'comment, line break'),
                ((('LINE_COMMENT', '//c'), ('LINE_TERMINATOR', '\n'),
                  ('LINE_TERMINATOR', '\n')), 'line comment, two breaks')):
            for yc, wc in modes:
                raw = [tok(kw)] + [tok(*x) for x in run] + [
                    tok('ID', 'x'), None]
                it = iter(raw)
                lexer = mk_lexer_obj(lm=lm)
                lexer.yield_comments = yc
                # comment capture (the parser's with_comments): the
                # comments are kept aside, the token sequence is the same
                lexer.with_comments = wc
                lexer.lexer = Obj('PlyLexer', lexdata='ab', lexpos=0,
                                  begin=('pyfunc', lambda state: None))
                lexer.get_lexer_token = ('pyfunc', lambda it=it, lexer=lexer:
                                         hand(lexer, next(it)))
                got = []
                try:
                    for _ in range(8):
                        ev = Evaluator(lm.module, 'Lexer', methods,
                                       functions)
                        ret, _ys = ev.call(tokfn, [], self_obj=lexer)
                        if ret is None:
                            break
                        got.append(ret.type)
                except Raised as e:
                    got.append('raises %s' % e.text)
                want = [kw] + ([x[0] for x in run if x[0] != 'LINE_TERMINATOR']
                               if yc else [])
                # the semicolon comes with the first line break: after a
                # comment that contains it, in place of a line terminator
                want_yc = [kw]
                placed = False
                for x in run:
                    is_lt = x[0] == 'LINE_TERMINATOR' or '\n' in x[1]
                    if x[0] != 'LINE_TERMINATOR' and yc:
                        want_yc.append(x[0])
                    if is_lt and not placed:
                        want_yc.append('AUTOSEMI')
                        placed = True
                want_yc.append('ID')
                rule.check(got == want_yc,
                           'delivery %s %s%s' % (
                               kw, label, ' (comments yielded)' if yc
                               else ' (comments captured)' if wc else ''),
                           'Lexer.token() on %s %s ID%s' % (
                               kw, ' '.join(x[0] for x in run),
                               ', comments yielded' if yc else
                               ', comments captured' if wc else ''),
                           'the parser receives %r, expected %r' % (
                               got, want_yc),
                           where='lexers/es5.py:Lexer._token / '
                           '_get_update_token')


def r043(report, g, lm):
    rule = report.rule('R04.3', 'restricted productions: AUTOSEMI exactly '
                       'after continue/break/return/throw + line break',
                       floor=90)
    methods = lexer_methods(lm)
    for need in ('_get_update_token', '_set_tokens', '_create_semi_token'):
        if need not in methods:
            raise AnalysisError('Lexer.%s vanished' % need)
    functions = {'AutoLexToken': lambda: Obj('AutoLexToken')}
    fires = set()
    others = ('ID', 'SEMI', 'LPAREN', 'PLUSPLUS', 'LINE_COMMENT', 'NUMBER')
    spurious = []
    for ptype in g.tokens:
        for ntype in ('LINE_TERMINATOR',) + others:
            ev = Evaluator(lm.module, 'Lexer', methods, functions)
            lexer = mk_lexer_obj(lm=lm)
            new = tok(ntype)
            try:
                # the state after ptype is reached through the lexer's
                # own transition function
                first = tok(ptype)
                lexer.get_lexer_token = ('pyfunc', lambda first=first, lexer=lexer:
                                         hand(lexer, first))
                ev.call(methods['_get_update_token'], [], self_obj=lexer)
                lexer.get_lexer_token = ('pyfunc', lambda new=new, lexer=lexer:
                                         hand(lexer, new))
                ret, _ = ev.call(methods['_get_update_token'], [],
                                 self_obj=lexer)
            except Raised:
                continue
            auto = isinstance(ret, Obj) and ret.type == 'AUTOSEMI'
            if auto and ntype == 'LINE_TERMINATOR':
                fires.add(ptype)
            elif auto:
                spurious.append((ptype, ntype))
            elif ret is not new:
                spurious.append((ptype, ntype, 'returns %r' % (ret,)))
    for ptype in g.tokens:
        expected = ptype in RESTRICTED_PREFIX
        got = ptype in fires
        rule.check(
            expected == got, 'restricted %s' % ptype,
            '%s <LineTerminator>' % ptype,
            'a line terminator after %s %s an AUTOSEMI; 7.9.1 restricted '
            'productions: %s' % (
                ptype, 'yields' if got else 'does not yield',
                'required' if expected else 'must not'),
            where='lexers/es5.py:Lexer._get_update_token')
    rule.check(not spurious, 'spurious AUTOSEMI', 'non line-terminator '
               'tokens', 'AUTOSEMI produced / token replaced for %r'
               % (spurious[:5],))
    # the decision does not depend on the parenthesis stack (a function
    # body inside a call argument, inside a header, ...)
    stacks = {
        'inside an open `(`': lambda: [[None, [tok('LPAREN')]]],
        'inside a statement header': lambda: [[None, []],
                                              [tok('LPAREN'), []]],
        'inside `(` within a header': lambda: [[None, []], [
            tok('LPAREN'), [tok('LPAREN')]]],
        'inside two open `(`': lambda: [[None, [tok('LPAREN'),
                                               tok('LPAREN')]]],
    }
    for ptype in sorted(RESTRICTED_PREFIX) + ['ID', 'RPAREN', 'RBRACE']:
        for ctx, mk in sorted(stacks.items()):
            ev = Evaluator(lm.module, 'Lexer', methods, functions)
            lexer = mk_lexer_obj(stack=mk(), lm=lm)
            new = tok('LINE_TERMINATOR')
            try:
                first = tok(ptype)
                lexer.get_lexer_token = ('pyfunc', lambda first=first, lexer=lexer:
                                         hand(lexer, first))
                ev.call(methods['_get_update_token'], [], self_obj=lexer)
                lexer.get_lexer_token = ('pyfunc', lambda new=new, lexer=lexer:
                                         hand(lexer, new))
                ret, _ = ev.call(methods['_get_update_token'], [],
                                 self_obj=lexer)
            except Raised as e:
                ret = 'raises %s' % e.text
            auto = isinstance(ret, Obj) and ret.type == 'AUTOSEMI'
            expected = ptype in RESTRICTED_PREFIX
            rule.check(
                auto == expected and (auto or ret is new),
                'restricted %s %s' % (ptype, ctx),
                '%s <LineTerminator> %s' % (ptype, ctx),
                'a line terminator after %s %s %s an AUTOSEMI (%r); the '
                'restricted productions of 7.9.1 do not depend on '
                'enclosing parentheses (e.g. a function body that is a '
                'call argument)' % (ptype, ctx, 'yields' if auto else
                                    'does not yield', ret),
                where='lexers/es5.py:Lexer._get_update_token')
    # comments between the keyword and the line break are transparent
    # (ES5 7.4), a block comment containing a line break counts as one,
    # and however many line breaks follow, one semicolon is supplied:
    # every marker run of up to three items is fed through the lexer's
    # own transition function after the keyword
    kinds_ = (('LINE_TERMINATOR', '\n'), ('BLOCK_COMMENT', '/*c*/'),
              ('BLOCK_COMMENT', '/*\n*/'), ('LINE_COMMENT', '//c'),
              # characters str.splitlines() breaks on but ES5 7.3 does not
              ('BLOCK_COMMENT', '/*\x0b\x0c\x1c\x85*/'),
              ('BLOCK_COMMENT', '/*\u2029*/'))
    runs = []
    for k in range(1, 4):
        for run in itertools.product(kinds_, repeat=k):
            if any(x[0] == 'LINE_COMMENT' and (
                    i + 1 >= len(run) or run[i + 1][0] != 'LINE_TERMINATOR')
                    for i, x in enumerate(run)):
                continue
            runs.append(run)
    failing = {}
    for ptype in sorted(RESTRICTED_PREFIX) + ['ID', 'NUMBER', 'RBRACE']:
        for run in runs:
            ev = Evaluator(lm.module, 'Lexer', methods, dict(
                functions, zip=zip, iter=iter, len=len))
            lexer = mk_lexer_obj(lm=lm)
            autos = 0
            # the raw tokens come from a ply stand-in over a laid-out
            # text; get_lexer_token (column, line index, ply's line
            # counter) is the lexer's own
            seq = [(ptype, lm.fixed.get(ptype) or 'k')] + list(run) + [
                ('ID', 'x')]
            text = ''
            raws = []
            for t in seq:
                raws.append(Obj('LexToken', type=t[0], value=t[1],
                                lexpos=len(text), lineno=0))
                text += t[1] + ('' if t[0] in (
                    'LINE_TERMINATOR',) else ' ')
            ply = Obj('PlyLexer', lineno=1, lexpos=0, lexdata=text)
            queue = list(raws)

            def next_raw(queue=queue, ply=ply):
                if not queue:
                    return None
                t_ = queue.pop(0)
                t_.lineno = ply.lineno
                ply.lexpos = t_.lexpos + len(t_.value)
                return t_
            ply.token = ('pyfunc', next_raw)
            lexer.lexer = ply
            try:
                for t in seq:
                    ret, _ = ev.call(methods['_get_update_token'], [],
                                     self_obj=lexer)
                    if isinstance(ret, Obj) and ret.type == 'AUTOSEMI':
                        autos += 1
                    # a semicolon queued behind a comment that is still
                    # delivered
                    queued = [q for q in lexer.next_tokens if isinstance(
                        q, Obj) and q.type == 'AUTOSEMI']
                    autos += len(queued)
                    lexer.next_tokens = [q for q in lexer.next_tokens
                                         if q not in queued]
            except Raised as e:
                autos = 'raises %s' % e.text
            has_lt = any(x[0] == 'LINE_TERMINATOR' or
                         set(x[1]) & set(ES5_LINE_TERMINATORS) for x in run)
            want = 1 if (ptype in RESTRICTED_PREFIX and has_lt) else 0
            label = ' '.join(
                x[0] if x[0] != 'BLOCK_COMMENT' else
                'BLOCK_COMMENT(multi-line)' if set(x[1]) & set(
                    ES5_LINE_TERMINATORS) else
                'BLOCK_COMMENT(form feed)' if '\x0c' in x[1] else x[0]
                for x in run)
            construct = '%s %s ID' % (ptype, label)
            if autos == want:
                rule.ok(construct)
                continue
            cls = '%s with comments: %s semicolon' % (
                'restricted keyword' if ptype in RESTRICTED_PREFIX else
                'other token', 'missing' if want and not autos else
                'extra' if isinstance(autos, int) else 'error')
            failing.setdefault(cls, []).append((construct, autos, want))
    for cls, items in sorted(failing.items()):
        c, autos, want = min(items, key=lambda it: len(it[0]))
        rule.fail(cls, '%s  (+%d more runs)' % (c, len(items) - 1),
                  '%s AUTOSEMI token(s) are supplied, 7.9.1 with 7.4 '
                  'requires %d; failing runs: %s' % (
                      autos, want, [i[0] for i in items[:6]]),
                  where='lexers/es5.py:Lexer._get_update_token',
                  witness=c)
    delivery(rule, lm, methods, functions,
             ((False, False), (True, False), (False, True)))
    # the grammar must accept the inserted token right after the keyword
    by = {}
    for p in g.productions:
        by.setdefault(p.rhs, p)
    for kw in sorted(RESTRICTED_PREFIX):
        rule.check((kw, 'AUTOSEMI') in by or kw == 'THROW',
                   'grammar %s AUTOSEMI' % kw, '%s AUTOSEMI' % kw,
                   'no production `%s AUTOSEMI`' % kw)
    # postfix restricted production
    rp = report.rule('R04.3p', 'postfix ++/-- after a line terminator is '
                     'separated from the preceding operand', floor=1)
    site = None
    mods = [lm.module, models_parser_module(g)]
    for m in mods:
        for node in ast.walk(m.tree):
            if isinstance(node, (ast.If, ast.IfExp, ast.BoolOp)):
                text = ast.unparse(node.test if hasattr(node, 'test')
                                   else node)
                if ('PLUSPLUS' in text or 'MINUSMINUS' in text) and (
                        'LINE_TERMINATOR' in text or
                        '_is_prev_token_lt' in text):
                    site = '%s:%s' % (m.name, node.lineno)
    rp.check(site is not None, 'postfix restricted production',
             'LeftHandSideExpression [no LineTerminator here] ++/--',
             'no site in the lexer or the error hook relates PLUSPLUS / '
             'MINUSMINUS to a preceding line terminator: `a\\n++b` is read '
             'as `a++ b`',
             where='lexers/es5.py:Lexer._get_update_token')
    return rule


def models_parser_module(g):
    return g.parser_module


def r044(report, lm, maxrun=3):
    rule = report.rule('R04.4', 'line-terminator evidence is transparent to '
                       'comments (all marker runs up to length 3)',
                       floor=15)
    methods = lexer_methods(lm)
    kinds = {
        'LT': ('LINE_TERMINATOR', '\n'),
        'LC': ('LINE_COMMENT', '//c'),
        'BC': ('BLOCK_COMMENT', '/*c*/'),
        'BCML': ('BLOCK_COMMENT', '/*\n*/'),
    }
    failing = {}
    total = 0
    for n in range(0, maxrun + 1):
        for run in itertools.product(sorted(kinds), repeat=n):
            # a line comment is always followed by a line terminator (or
            # the end of input): skip impossible runs
            if any(k == 'LC' and (i + 1 >= len(run) or run[i + 1] != 'LT')
                   for i, k in enumerate(run)):
                continue
            ev = Evaluator(lm.module, 'Lexer', methods, {})
            lexer = mk_lexer_obj(lm=lm)
            seq = [tok('ID', 'a')] + [tok(*kinds[k]) for k in run] + \
                [tok('ID', 'b')]
            for t in seq:
                hand(lexer, t)
                ev.call(methods['_set_tokens'], [t], self_obj=lexer)
            got, _ = ev.call(methods['_is_prev_token_lt'], [],
                             self_obj=lexer)
            expected = any(k in ('LT', 'BCML') for k in run)
            total += 1
            ok = bool(got) == expected
            if ok:
                rule.ok('a %s b' % ' '.join(run))
                continue
            if 'BCML' in run and 'LT' not in run:
                cls = 'line terminator inside a block comment is not seen'
            elif expected:
                cls = 'line terminator followed by a comment is forgotten'
            else:
                cls = 'line terminator reported although none was seen'
            failing.setdefault(cls, []).append(' '.join(run))
    for cls, runs in sorted(failing.items()):
        rule.fail(cls, 'a <%s> b  (+%d more runs)' % (runs[0], len(runs) - 1),
                  '_is_prev_token_lt() disagrees with 7.9 for the marker '
                  'runs %s' % runs[:6],
                  where='lexers/es5.py:Lexer._set_tokens / '
                  '_is_prev_token_lt')
    report.count('marker runs explored', total)
    # the transition function is applied once per lexer token
    gut = methods.get('_get_update_token')
    calls = [n for n in ast.walk(gut) if isinstance(n, ast.Call) and
             ast.unparse(n.func) == 'self._set_tokens']
    rule.check(len(calls) == 1 and ast.unparse(calls[0].args[0]) ==
               'self.get_lexer_token()', '_set_tokens per token',
               'Lexer._get_update_token',
               '_get_update_token does not pass each lexer token through '
               '_set_tokens exactly once')
    return rule


def r045(report, lm):
    rule = report.rule('R04.5', 'no ES5 line terminator is swallowed by '
                       't_ignore', floor=4)
    ignore = lm.ignore.get('INITIAL')
    if ignore is None:
        raise AnalysisError('t_ignore vanished')
    for ch in ES5_LINE_TERMINATORS:
        rule.check(
            ch not in ignore, 't_ignore contains U+%04X' % ord(ch),
            'U+%04X vs t_ignore' % ord(ch),
            'ply skips the characters of t_ignore before any rule is '
            'tried, so U+%04X never becomes a LINE_TERMINATOR token: no ASI '
            'at it and no line is counted' % ord(ch),
            where='lexers/es5.py:Lexer.t_ignore')
    return rule


def rules(report, index, tier='quick'):
    """the ASI rules (also part of C03: where semicolons are supplied is
    part of which texts the parser accepts and of the tree it builds)"""
    M = models(index)
    g, A, lm = M.grammar, M.actions, M.lexmodel
    pm = g.parser_module
    r041(report, g, A)
    r042(report, lm, pm)
    r043(report, g, lm)
    r044(report, lm, maxrun=5 if tier == 'thorough' else 3)
    r045(report, lm)


def run(report, index, tier):
    report.explanation = (
        'ASI decided per cooperating piece: grammar twins (exhaustive over '
        'the productions), the decision table of Lexer.auto_semi and of the '
        'restricted-production rule obtained by abstract evaluation of the '
        'functions over the complete token-type domain, a finite '
        'exploration of the token-tracking transition function for comment '
        'transparency, and the t_ignore character set.')
    rules(report, index, tier)
    report.extra['exhaustive'] = True
    report.not_decided.append(
        'the second sentence of C04 (any subset of removable semicolons '
        'yields the identical tree) additionally depends on ply\'s error '
        'token re-injection, which is outside the repository')
    report.trusted_base += ['CPython ast', 'abstract evaluator '
                            '(engine/absint.py)', 'ECMA-262 5.1 7.9.1 facts']
