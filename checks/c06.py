# -*- coding: utf-8 -*-
"""
C06 - token stream is a faithful, gap-free, correctly located segmentation.

R06.1 nobody rewrites a token: stores to value / lexpos / lineno / type of
      token objects occur only at the audited sites
R06.2 gaps are white space, line terminators and comments: t_ignore is the
      ES5 WhiteSpace set; the tokens _token drops are exactly the comment
      and line-terminator tokens; the languages of those three rules equal
      the ES5 reference automata
R06.3 ordered choice == longest match for every ordered pair of rules
      (ply's rule order reconstructed from the source); keywords are the
      ES5 reserved words, classified on exact match only
R06.4 every token updates the line index once, after its column is taken;
      the line-terminator-sequence pattern is the ES5 one (CRLF as one);
      decision tables of _update_newline_idx / column helpers
"""
from __future__ import annotations

import ast

from engine.common import AnalysisError
from engine.absint import Evaluator, Obj, Raised
from engine.effects import write_sites
from engine.lexauto import (
    LexAutomata, ES5_LINE_TERMINATORS, ES5_WHITESPACE_FIXED, ES5_ZS,
    ES5_ZS_OPTIONAL, REF_LINE_TERMINATOR_SEQ, REF_LINE_COMMENT,
    REF_BLOCK_COMMENT)
from engine.rx import equivalent
from engine.srcindex import need_const, need_function, RegexConst
from .shared import models
from .c07 import ES5_RESERVED
from .c12 import always_raises

LEX = 'calmjs.parse.lexers.es5'
TOKEN_ATTRS = ('value', 'lexpos', 'lineno', 'type', 'colno')
ALLOWED_STORES = {
    ('t_ID', 'type'): 'keyword classification of an identifier token',
    ('get_lexer_token', 'colno'): 'column annotation (new attribute)',
    ('broken_string_token_handler', 'value'):
        'error token truncated for the message; the handler then raises',
    ('token', 'hidden_tokens'): 'comment buffer attached to the token',
}


def run(report, index, tier):
    M = models(index)
    lm = M.lexmodel
    mod = index.need(LEX)
    LA = LexAutomata(lm)
    alpha = LA.alpha
    report.explanation = (
        'The token rules are compiled from their regex source to automata '
        'over character-class atoms and compared with ES5 reference '
        'automata; ply\'s rule order is reconstructed and every ordered '
        'pair is checked for ordered-choice = longest-match; effect '
        'analysis of token attribute stores; decision tables of the line / '
        'column bookkeeping by abstract evaluation.')
    report.count('atoms', alpha.n)
    report.count('token rules', len(lm.rules))
    # R06.1 ---------------------------------------------------------------
    r1 = report.rule('R06.1', 'token text / offset / line are never '
                     'rewritten', floor=3)
    for s in write_sites(mod):
        if s.kind not in ('store', 'augstore', 'setattr'):
            continue
        if s.attr not in TOKEN_ATTRS and s.attr != 'hidden_tokens':
            continue
        if s.rootkind in ('self',) or s.root == 'self':
            continue
        construct = '%s: %s' % (s.func, s.text)
        if s.rootkind == 'fresh':
            r1.ok(construct, 'freshly created token')
            continue
        ok = (s.func, s.attr) in ALLOWED_STORES
        detail = 'the lexer rewrites `%s` of a token it hands out: the ' \
            'token text / position no longer equals the input substring' % \
            s.attr
        if ok and s.func == 'broken_string_token_handler':
            fn = need_function(mod, 'broken_string_token_handler')
            idx = [i for i, st in enumerate(fn.body) if s.node is st or
                   s.node in ast.walk(st)]
            ok = bool(idx) and always_raises(fn.body[idx[0] + 1:])
            detail = 'the error token is rewritten but the handler does ' \
                'not raise on every following path'
        r1.check(ok, '%s stores token.%s' % (s.func, s.attr), construct,
                 detail, where=s.where,
                 okdetail=ALLOWED_STORES.get((s.func, s.attr)))
    tid = need_function(mod, 't_ID', 'Lexer')
    t = ast.unparse(tid)
    r1.check("self.keywords_dict.get(token.value, 'ID')" in t,
             't_ID classification', 'Lexer.t_ID',
             't_ID does not classify by exact lookup of token.value in '
             'keywords_dict', where='lexers/es5.py:t_ID')
    # R06.2 ---------------------------------------------------------------
    r2 = report.rule('R06.2', 'gaps between tokens are ES5 white space, '
                     'line terminators and comments', floor=25)
    ignore = lm.ignore.get('INITIAL')
    if ignore is None:
        raise AnalysisError('t_ignore vanished')
    want = set(ES5_WHITESPACE_FIXED + ES5_ZS)
    for ch in sorted(set(ignore) | want):
        name = 'U+%04X' % ord(ch)
        if ch in want:
            r2.check(ch in ignore, 't_ignore lacks %s' % name,
                     '%s in t_ignore' % name,
                     'ES5 WhiteSpace %s is not skipped: it is reported as '
                     'an illegal character' % name,
                     where='lexers/es5.py:t_ignore')
        elif ch in ES5_ZS_OPTIONAL:
            r2.ok('%s (Zs in older Unicode)' % name)
        else:
            what = 'a line terminator' if ch in ES5_LINE_TERMINATORS \
                else 'not ES5 white space'
            r2.check(False, 't_ignore contains %s' % name,
                     '%s in t_ignore' % name,
                     '%s is %s but is skipped silently between tokens%s' % (
                         name, what, ': it never becomes a LINE_TERMINATOR '
                         'token and lines after it are not counted'
                         if ch in ES5_LINE_TERMINATORS else ''),
                     where='lexers/es5.py:t_ignore')
    # which tokens of the underlying lexer reach the parser: Lexer.token
    # is evaluated from its source on a stream [T, ID, <end>] for every
    # token type T; only comments and line terminators may be withheld
    methods = mod.class_methods('Lexer')
    tokfn = need_function(mod, 'token', 'Lexer')
    droppable = {'LINE_TERMINATOR', 'LINE_COMMENT', 'BLOCK_COMMENT'}
    for ttype in sorted(set(lm.tokens) | droppable):
        for flags in ((False, False), (True, False)):
            stream = [Obj('LexToken', type=ttype, value='t', lineno=1,
                          lexpos=0, colno=1),
                      Obj('LexToken', type='ID', value='b', lineno=1,
                          lexpos=2, colno=3), None]
            it = iter(stream)
            lexer = Obj('Lexer', next_tokens=[], hidden_tokens=[],
                        with_comments=flags[0], yield_comments=flags[1],
                        cur_token=None, prev_token=None,
                        cur_token_real=None, valid_prev_token=None,
                        token_stack=[[None, []]],
                        lexer=Obj('PlyLexer', lexdata='ab', lexpos=0))
            lexer._get_update_token = ('pyfunc', lambda it=it: next(it))
            got = []
            try:
                for _ in range(3):
                    ev = Evaluator(mod, 'Lexer', methods, {})
                    ret, _ys = ev.call(tokfn, [], self_obj=lexer)
                    if ret is None:
                        break
                    got.append(ret)
            except Raised as e:
                got = 'raises %s' % e.text
            want = [t for t in stream[:2] if t.type not in droppable]
            ok = isinstance(got, list) and len(got) == len(want) and all(
                g is w for g, w in zip(got, want))
            r2.check(ok, 'token stream %s%s' % (
                ttype, ' (with comments)' if flags[0] else ''),
                'Lexer.token() on the raw stream [%s, ID]' % ttype,
                'returns %s; every token except comments and line '
                'terminators must reach the parser, in order' % (
                    [t.type for t in got] if isinstance(got, list) else got),
                where='lexers/es5.py:Lexer.token / _token')
            if ttype in ('LINE_COMMENT', 'BLOCK_COMMENT') and flags[0] \
                    and isinstance(got, list) and got:
                hid = got[0].hidden_tokens if got[0].has(
                    'hidden_tokens') else []
                r2.check(len(hid) == 1 and hid[0] is stream[0],
                         'comment carried by the next token (%s)' % ttype,
                         'Lexer.token() with comment capture on [%s, ID]'
                         % ttype, 'the comment is not handed to the next '
                         'token exactly once (hidden_tokens=%r)' % (hid,),
                         where='lexers/es5.py:Lexer.token')
    for name, ref in (('LINE_TERMINATOR', REF_LINE_TERMINATOR_SEQ),
                      ('LINE_COMMENT', REF_LINE_COMMENT),
                      ('BLOCK_COMMENT', REF_BLOCK_COMMENT)):
        d = LA.dfa(lm.rule(name))
        ok, w = equivalent(d, LA.compile(ref).dfa)
        r2.check(ok, 'language of %s' % name, 't_%s' % name,
                 't_%s differs from the ES5 definition on %r' % (
                     name, alpha.word(w) if w else ''),
                 where='lexers/es5.py:t_%s' % name)
    from .litlang import literal_rule
    literal_rule(report, index, M, 'R06.5')
    context_free_rule(report, M, 'R06.6')
    # R06.3 ---------------------------------------------------------------
    r3 = report.rule('R06.3', 'ordered choice == longest match; keywords '
                     'exact', floor=1000)
    order = LA.ordered('INITIAL')
    report.count('rule order', ' '.join(r.type for r in order[:12]) + ' ...')
    for i, r1_ in enumerate(order):
        d1 = LA.dfa(r1_)
        la1 = LA.compiled[r1_.name].lookaheads
        for r2_ in order[i + 1:]:
            d2 = LA.dfa(r2_)
            # is there v in L(r2) with a proper prefix in L(r1) such that
            # r1 cannot match all of v?  (then ply returns the shorter r1)
            w = shorter_first(d1, d2, la1)
            construct = '%s before %s' % (r1_.type, r2_.type)
            r3.check(w is None, construct, construct,
                     'ply tries %s first; on input %r it matches only a '
                     'proper prefix although %s matches more: punctuators '
                     'and literals are not matched longest-first' % (
                         r1_.type, alpha.word(w) if w else '', r2_.type),
                     where='lexers/es5.py:t_%s / t_%s' % (r1_.type,
                                                           r2_.type))
    kd = lm.keywords_dict
    r3.check(set(kd) == ES5_RESERVED, 'keyword set', 'Lexer.keywords_dict',
             'keywords differ from the ES5 reserved words: missing %s, '
             'extra %s' % (sorted(ES5_RESERVED - set(kd)),
                           sorted(set(kd) - ES5_RESERVED)),
             where='lexers/es5.py:keywords')
    r3.check(all(v == k.upper() for k, v in kd.items()) and
             all(v in lm.tokens for v in kd.values()),
             'keyword token types', 'Lexer.keywords_dict',
             'a reserved word does not map to its own token type')
    iddfa = LA.dfa(lm.rule('ID'))
    for kw in sorted(kd):
        r3.check(iddfa.accepts_str(kw), 'keyword %s lexes as ID' % kw,
                 'keyword %r in L(ID)' % kw,
                 'the reserved word %r is not matched by the identifier '
                 'rule, so it is never classified' % kw)
    line_index_rule(report, index, 'R06.4', LA)
    report.not_decided.append('ply\'s own lexpos/value bookkeeping '
                              '(outside the repository)')
    report.trusted_base += [
        'CPython re._parser', 'transcription of ply.lex rule ordering '
        '(functions by line, strings by decreasing regex length)',
        'ES5 7.2/7.3/7.4/7.6.1 reference sets']


def context_free_rule(report, M, rid):
    """a punctuator rule matches its lexeme whatever follows: the pattern
    (a constant of the repository) is applied, with the flags ply uses, to
    the lexeme followed by every probe character and by nothing.  A
    look-ahead that makes `++` refuse to match before `+` breaks the
    longest-match reading of 7.7 without changing the rule's language.
    GETPROP / SETPROP are contextual by design and decided by R03.3."""
    import re as _re
    lm = M.lexmodel
    r = report.rule(rid, 'fixed-lexeme token rules match their lexeme in '
                    'every right context', floor=40)
    probes = [chr(c) for c in range(32, 127)] + list(
        '\n\r\t\u2028\u00e9\u1885') + ['']
    for rule in lm.rules:
        if rule.state != 'INITIAL' or rule.type in ('GETPROP', 'SETPROP'):
            continue
        lexeme = lm.fixed.get(rule.type)
        if not lexeme or not isinstance(rule.pattern, str):
            continue
        try:
            rx = _re.compile(rule.pattern, _re.VERBOSE)
        except _re.error as e:
            raise AnalysisError('token rule %s does not compile: %s' % (
                rule.name, e))
        bad = []
        for f in probes:
            m = rx.match(lexeme + f)
            if m is None or m.end() != len(lexeme):
                bad.append(f)
        r.check(not bad, 'rule %s context free' % rule.type,
                '%s = %r' % (rule.name, rule.pattern),
                'does not match its lexeme %r when followed by %s: the '
                'longest punctuator at that place is not the token '
                'produced' % (lexeme, ', '.join(repr(b) for b in bad[:6])),
                where='lexers/es5.py:%s' % rule.name,
                witness='a%s%sb' % (lexeme, bad[0] if bad else ''))
    return r


def line_index_rule(report, index, rid, LA=None):
    """line / column bookkeeping of the lexer (shared by C06, C08, C11 and
    C12: every recorded position depends on it)"""
    M = models(index)
    lm = M.lexmodel
    mod = index.need(LEX)
    if LA is None:
        LA = LexAutomata(lm)
    alpha = LA.alpha
    r4 = report.rule(rid, 'line index updated once per token after the '
                     'column is taken; ES5 line terminator sequences',
                     floor=10)
    methods = mod.class_methods('Lexer')
    glt = need_function(mod, 'get_lexer_token', 'Lexer')
    calls = [ast.unparse(n.func) for n in ast.walk(glt)
             if isinstance(n, ast.Call)]
    order_ok = calls.count('self.lexer.token') == 1 and \
        calls.count('self._get_colno') == 1 and \
        calls.count('self._update_newline_idx') == 1 and \
        calls.index('self._get_colno') < calls.index(
            'self._update_newline_idx')
    r4.check(order_ok, 'get_lexer_token order', 'Lexer.get_lexer_token',
             'get_lexer_token does not take the column before updating the '
             'line index exactly once (calls: %s)' % calls,
             where='lexers/es5.py:get_lexer_token')
    others = []
    for name, f in methods.items():
        if name in ('get_lexer_token',):
            continue
        for n in ast.walk(f):
            if isinstance(n, ast.Call) and ast.unparse(n.func) in (
                    'self.lexer.token',):
                others.append(name)
    r4.check(not others, 'single raw token source', 'self.lexer.token()',
             'the raw ply lexer is also read in %s: tokens obtained there '
             'bypass the line/column bookkeeping' % others,
             where='lexers/es5.py')
    patt = need_const(mod, 'PATT_LINE_TERMINATOR_SEQUENCE', types=RegexConst)
    got = LA.compile(patt.pattern, patt.flags).dfa
    ok, w = equivalent(got, LA.compile(REF_LINE_TERMINATOR_SEQ).dfa)
    r4.check(ok, 'PATT_LINE_TERMINATOR_SEQUENCE language',
             'PATT_LINE_TERMINATOR_SEQUENCE',
             'differs from the ES5 LineTerminatorSequence on %r' % (
                 alpha.word(w) if w else ''),
             where='lexers/es5.py:PATT_LINE_TERMINATOR_SEQUENCE')
    # alternation order: CRLF must win over CR (regex alternation is
    # ordered): \r(?!\n) or \r\n listed before a bare \r
    import re as _re
    upd = need_function(mod, '_update_newline_idx', 'Lexer')
    cases = [
        ('abc', 0, [], 0),
        ('a\nb', 10, [12], 1),
        ('/*\r\n*/', 5, [9], 1),
        ('"a\\\r\\\nb"', 0, [4, 6], 2),
        ('\r\n\r\n', 3, [5, 7], 2),
        ('x y ', 0, [2, 4], 2),
        ('\n', 7, [8], 1),
        # characters Python's str.splitlines treats as line boundaries
        # but ES5 7.3 does not
        ('"a\x0cb"', 3, [], 0),
        ('/*\x0b\x1c\x1d\x1e\x85*/', 0, [], 0),
        ('"\x85\n"', 2, [5], 1),
    ]
    for value, lexpos, want_idx, want_lines in cases:
        lexer = Obj('Lexer', newline_idx=[0],
                    lexer=Obj('PlyLexer', lineno=1))
        ttype = ('BLOCK_COMMENT' if value.startswith('/*') else
                 'STRING' if value[:1] in '"\'' else
                 'LINE_TERMINATOR' if value.strip('\r\n\u2028\u2029') == ''
                 else 'ID')
        tok = Obj('LexToken', value=value, lexpos=lexpos, type=ttype,
                  lineno=1, colno=1)
        ev = Evaluator(mod, 'Lexer', methods, {
            'zip': zip, 'iter': iter, 'len': len})
        try:
            ev.call(upd, [tok], self_obj=lexer)
            got = (lexer.newline_idx[1:], lexer.lexer.lineno - 1)
        except Raised as e:
            got = 'raises %s' % e.text
        r4.check(got == (want_idx, want_lines),
                 '_update_newline_idx(%r@%d)' % (value, lexpos),
                 '_update_newline_idx(token value=%r lexpos=%d)' % (
                     value, lexpos),
                 'records line starts %r, expected offsets %r and %d new '
                 'line(s)' % (got, want_idx, want_lines),
                 where='lexers/es5.py:_update_newline_idx')
    # every token whose rule can match a line terminator passes through
    # the line index: get_lexer_token is evaluated once per such type
    lt_atoms = set()
    for ch in '\n\r\u2028\u2029':
        lt_atoms.add(alpha.atom_of_char(ch))
    multiline = set()
    for rule in lm.rules:
        d = LA.dfa(rule)
        live = d.live()
        reach = d.reachable()
        if any(a in lt_atoms and q in reach and t in live
               for q, tr in enumerate(d.trans) for a, t in tr.items()):
            multiline.add(rule.type)
    if 'LINE_TERMINATOR' not in multiline or 'BLOCK_COMMENT' not in \
            multiline:
        raise AnalysisError('token rules that can span lines: %s' % sorted(
            multiline))
    for ttype in sorted(multiline):
        lexer = Obj('Lexer', newline_idx=[0], last_newline_lexpos=0,
                    lexer=Obj('PlyLexer', lineno=1, lexpos=4,
                              lexdata='0123a\nb'))
        tok = Obj('LexToken', type=ttype, value='a\nb', lexpos=4, lineno=1)
        lexer.lexer.token = ('pyfunc', lambda tok=tok: tok)
        ev = Evaluator(mod, 'Lexer', methods, {
            'zip': zip, 'iter': iter, 'len': len})
        try:
            ret, _ = ev.call(glt, [], self_obj=lexer)
            got = (ret is tok, lexer.newline_idx[1:],
                   lexer.lexer.lineno - 1,
                   tok.colno if tok.has('colno') else None)
        except Raised as e:
            got = 'raises %s' % e.text
        r4.check(got == (True, [6], 1, 5),
                 'get_lexer_token(%s spanning a line)' % ttype,
                 'get_lexer_token() for a %s token containing a line '
                 'terminator' % ttype,
                 'the %s rule can match a line terminator, but after '
                 'get_lexer_token the line index is %r (expected the token '
                 'returned, line start [6], one new line, column 5): every '
                 'later line:column is wrong' % (ttype, got),
                 where='lexers/es5.py:get_lexer_token')
    # a whole text, token by token: every token gets the column ES5 line
    # counting gives its offset, and the line index ends up with every
    # line start (each terminator kind alone in a token, CRLF inside a
    # comment, a continuation inside a string); the ply lexer object is a
    # stand-in that hands out the raw tokens of the text
    import re as _re
    pieces = [('ID', 'a'), ('LINE_TERMINATOR', '\u2028'),
              ('BLOCK_COMMENT', '/*x\r\ny*/'), ('ID', 'b'),
              ('LINE_TERMINATOR', '\r'), ('STRING', '"s\\\n t"'),
              ('LINE_TERMINATOR', '\u2029'), ('ID', 'c'),
              ('BLOCK_COMMENT', '/*\u2028*/'), ('ID', 'd'),
              ('LINE_TERMINATOR', '\r\n'), ('ID', 'e'),
              ('LINE_TERMINATOR', '\n'), ('BLOCK_COMMENT', '/*\x0c\x85*/'),
              ('ID', 'f')]
    text = ''.join(v for _t, v in pieces)
    starts = [0] + [m.end() for m in _re.finditer(
        '\r\n|[\n\r\u2028\u2029]', text)]
    raw = []
    pos = 0
    for t, v in pieces:
        raw.append(Obj('LexToken', type=t, value=v, lexpos=pos, lineno=0))
        pos += len(v)
    ply = Obj('PlyLexer', lineno=1, lexpos=0, lexdata=text)
    queue = list(raw)

    def next_raw():
        if not queue:
            return None
        t_ = queue.pop(0)
        t_.lineno = ply.lineno
        ply.lexpos = t_.lexpos + len(t_.value)
        return t_
    ply.token = ('pyfunc', next_raw)
    from .c04 import mk_lexer_obj
    lexer = mk_lexer_obj(lm=lm)
    lexer.lexer = ply
    problems = []
    try:
        for t_ in raw:
            ev = Evaluator(mod, 'Lexer', methods, {
                'zip': zip, 'iter': iter, 'len': len})
            ret, _ = ev.call(glt, [], self_obj=lexer)
            line = max(i for i, s0 in enumerate(starts)
                       if s0 <= t_.lexpos) + 1
            want_col = t_.lexpos - starts[line - 1] + 1
            if ret is not t_:
                problems.append('token %r is not returned' % (t_.value,))
            elif not t_.has('colno') or t_.colno != want_col or \
                    t_.lineno != line:
                problems.append('%s %r at offset %d gets line %s column '
                                '%s, ES5 counting gives %d:%d' % (
                                    t_.type, t_.value, t_.lexpos, t_.lineno,
                                    t_.colno if t_.has('colno') else None,
                                    line, want_col))
        if list(lexer.newline_idx) != starts:
            problems.append('the line index ends as %r, the lines of the '
                            'text start at %r' % (list(lexer.newline_idx),
                                                  starts))
    except Raised as e:
        problems.append('raises %s' % e.text)
    r4.check(not problems, 'line and column of every token of a text',
             'get_lexer_token() over %r' % text,
             '; '.join(problems[:3]),
             where='lexers/es5.py:get_lexer_token / _get_colno / '
             '_update_newline_idx', witness=text)
    gc = need_function(mod, '_get_colno_lexpos', 'Lexer')
    for last, lexpos, want in ((0, 0, 1), (0, 5, 6), (12, 12, 1),
                               (12, 20, 9)):
        data = ('x' * (last - 1) + '\u2029' if last else '') + 'y' * 30
        lexer = Obj('Lexer', newline_idx=[0, last] if last else [0],
                    lexer=Obj('PlyLexer', lexdata=data, lexpos=lexpos,
                              lineno=2 if last else 1))
        ev = Evaluator(mod, 'Lexer', methods, {})
        got, _ = ev.call(gc, [lexpos], self_obj=lexer)
        r4.check(got == want, '_get_colno_lexpos(%d|%d)' % (last, lexpos),
                 '_get_colno_lexpos(lexpos=%d) with last line start %d' % (
                     lexpos, last), 'returns %r, the 1-based column is %d'
                 % (got, want), where='lexers/es5.py:_get_colno_lexpos')
    return r4


def shorter_first(d1, d2, lookaheads1):
    """A word v in L(d2) such that some proper prefix of v is in L(d1) and
    d1 cannot match all of v nor a longer prefix... precisely: the longest
    prefix of v in L(d1) is non-empty and shorter than v.  If d1 has a
    trailing positive look-ahead the continuation of v must satisfy it."""
    from collections import deque
    # state: (q1 or None(dead), q2, best1 (has d1 accepted a prefix?),
    #         la state tuple)
    la = [(pos, dfa) for pos, dfa, _ in lookaheads1 if pos]
    start = (d1.start, d2.start, False, None)
    seen = {start: None}
    dq = deque([start])
    live2 = d2.live()
    while dq:
        st = dq.popleft()
        q1, q2, had, laq = st
        if q2 in d2.accept and had and (q1 is None or q1 not in d1.accept):
            # v accepted by d2, d1 matched a proper prefix, not v itself
            if laq is None or laq == 'ok':
                out = []
                cur = st
                while seen[cur] is not None:
                    prev, a = seen[cur]
                    out.append(a)
                    cur = prev
                return out[::-1]
        for a, n2 in d2.trans[q2].items():
            if n2 not in live2:
                continue
            n1 = d1.step(q1, a) if q1 is not None else None
            nhad = had or (q1 is not None and q1 in d1.accept)
            nla = laq
            if q1 is not None and q1 in d1.accept and la and laq is None:
                # d1 accepts here: its look-ahead must hold on what follows
                nla = ('run', la[0][1].start)
            if isinstance(nla, tuple):
                lad = la[0][1]
                nq = lad.step(nla[1], a)
                if nq is None:
                    nla = 'fail'
                elif nq in lad.accept:
                    nla = 'ok'
                else:
                    nla = ('run', nq)
            if nla == 'fail':
                # the prefix match of d1 was not valid; forget it
                nhad_eff = False
                nla = None
            else:
                nhad_eff = nhad
            nst = (n1, n2, nhad_eff, nla)
            if nst not in seen:
                seen[nst] = (st, a)
                dq.append(nst)
    return None
