# -*- coding: utf-8 -*-
"""
C11 - every AST node position is self-consistent and lies on its own token.

R11.1 every node constructed by an action is positioned (setpos on all
      paths, or the explicit clone of exactly the attributes setpos sets)
R11.2 the setpos index is inside the production and names a slot that
      always has a token (not nullable); the two documented exceptions are
      recognised by shape
R11.3 the index names the first slot of the node's own extent or an
      operator / keyword token inside it
R11.4 literal positions recorded by setpos (including `additional`) are
      positions of exactly that text
R11.5 findpos / lookup_colno derive the column from the same offset and
      line index (decision table by abstract evaluation)
"""
from __future__ import annotations

import ast

from engine.common import AnalysisError
from engine.absint import Evaluator, Obj, Raised
from engine.actions import NodeVal, Slot
from engine.srcindex import need_function
from .shared import models, skeleton_results, none_slots


def setpos_attrs(am):
    """attributes Node.setpos assigns on self (directly)"""
    _, fn = am.find_method('Node', 'setpos')
    if fn is None:
        raise AnalysisError('Node.setpos vanished')
    out = set()
    for node in ast.walk(fn):
        targets = []
        if isinstance(node, ast.Assign):
            targets = node.targets
        for t in targets:
            elts = t.elts if isinstance(t, ast.Tuple) else [t]
            for e in elts:
                if isinstance(e, ast.Attribute) and isinstance(
                        e.value, ast.Name) and e.value.id == 'self':
                    out.add(e.attr)
    return out


def str_valued(M, sym):
    g = M.grammar
    if g.is_terminal(sym):
        return True
    ks = M.actions.kinds.get(sym, set())
    return bool(ks) and all(k[0] == 'str' for k in ks)


def empty_value_kinds(M):
    """nonterminal -> kinds its value can have when it derives the empty
    string (fixpoint over productions with an all-nullable RHS)"""
    g, A = M.grammar, M.actions
    from engine.actions import value_kinds
    out = {n: set() for n in g.nullable}
    changed = True
    while changed:
        changed = False
        for p in g.productions:
            if p.lhs not in g.nullable or not all(
                    s in g.nullable for s in p.rhs):
                continue
            for oc in A.of(p):
                if oc.status != 'ok':
                    continue
                ks, _ = value_kinds(
                    oc.value, lambda s: out.get(s, set()),
                    lambda s: set(), M.astmodel)
                if not ks <= out[p.lhs]:
                    out[p.lhs] |= ks
                    changed = True
    return out


def node_extents(res):
    """NodeVal (by id) -> sorted list of RHS positions its printed items
    are aligned with"""
    ext = {}
    for item, pos in res['pairs']:
        p = pos if isinstance(pos, int) else pos[0]
        n = item.node
        if n is not None:
            ext.setdefault(id(n), []).append(p)
    return ext


def direct_token_map_rule(g, A, r4):
    """a token map written directly by an action: every entry keyed by the
    text of slot i must record the position of slot i"""
    import re as _re
    for prod in g.productions:
        for oc in A.of(prod):
            stores = [n.stores.get('_token_map') for n in oc.nodes] + [
                e[3] for e in oc.effects if e[0] == 'store' and
                e[2] == '_token_map']
            for st in [x for x in stores if x]:
                try:
                    tree = ast.parse(st, mode='eval').body
                except SyntaxError:
                    continue
                if not isinstance(tree, ast.Dict):
                    continue
                for k, v in zip(tree.keys, tree.values):
                    if not (isinstance(k, ast.Subscript) and isinstance(
                            k.value, ast.Name) and k.value.id == 'p' and
                            isinstance(k.slice, ast.Constant)):
                        continue
                    idxs = [int(m) for m in _re.findall(
                        r'findpos\(p, (\d+)\)', ast.unparse(v))]
                    ok = bool(idxs) and all(
                        i == k.slice.value for i in idxs)
                    r4.check(ok, 'direct token map %s [%s]' % (
                        prod.func, ast.unparse(k)),
                        '%s: _token_map = %s' % (prod.text, st),
                        'the entry for the text of slot %s records the '
                        'position of slot %s: the text is not at that '
                        'position' % (k.slice.value, idxs),
                        where='parsers/es5.py:%s' % prod.func)


def run(report, index, tier):
    M = models(index)
    from .c20 import guard_tokens, guard_transcriptions
    guard_tokens(report, index, M)
    guard_transcriptions(index, M, report, depth=2)
    g, A, am, lm = M.grammar, M.actions, M.astmodel, M.lexmodel
    report.explanation = (
        'Every node construction site of every parser action (per '
        'production alternative and path) is checked for its setpos call, '
        'the index is related to the production (bounds, nullability, '
        'extent of the node computed from the skeleton alignment) and the '
        'recorded literal positions to the lexemes of the slots.')
    r1 = report.rule('R11.1', 'every constructed node is positioned '
                     '(setpos or full clone)', floor=200)
    r2 = report.rule('R11.2', 'setpos index inside the production and on a '
                     'slot that always has a token', floor=200)
    r3 = report.rule('R11.3', 'index = first slot of the node extent, or an '
                     'operator/keyword token of it', floor=200)
    r4 = report.rule('R11.4', 'recorded literal positions name slots with '
                     'exactly that text', floor=3)
    r5 = report.rule('R11.5', 'findpos/lookup_colno column arithmetic '
                     '(decision table)', floor=6)
    want = setpos_attrs(am) - {'comments'}
    if not {'lexpos', 'lineno', 'colno', '_token_map'} <= want:
        raise AnalysisError('Node.setpos no longer assigns lexpos/lineno/'
                            'colno/_token_map (found %s)' % sorted(want))
    results = {}
    for res in skeleton_results(index):
        results[(res['prod'].index, res['n'])] = res
    sites = 0
    evk = empty_value_kinds(M)
    for prod in g.productions:
        for n, oc in enumerate(A.of(prod)):
            if oc.status != 'ok':
                continue
            res = results.get((prod.index, n))
            ext = node_extents(res) if res and res['ok'] else {}
            nslots = none_slots(M.printer, oc)
            top = oc.value if isinstance(oc.value, NodeVal) else None
            for node in oc.nodes:
                sites += 1
                construct = '%s :: %s [%s]' % (
                    prod.text, node.cls,
                    ','.join('%s=%s' % c for c in oc.conds) or '-')
                where = 'parsers/es5.py:%s (line %s)' % (prod.func,
                                                         node.lineno)
                key = '%s|%s#%d' % (prod.text, node.cls, node.order)
                # R11.1
                if node.setpos:
                    r1.ok(construct)
                elif node.clones:
                    r1.check(
                        set(node.clones) == want, key, construct,
                        'node is positioned by cloning %s but setpos '
                        'assigns %s' % (sorted(node.clones), sorted(want)),
                        where=where)
                    src = set(repr(v) for v in node.clones.values())
                    r1.check(len(src) == 1, key + ' clone source',
                             construct, 'position attributes are cloned '
                             'from different values %s' % sorted(src),
                             where=where)
                    continue
                else:
                    r1.fail(key, construct,
                            'no setpos() call reaches this node on this '
                            'path: it keeps lexpos/lineno/colno = None',
                            where=where)
                    continue
                if len(node.setpos) > 1:
                    r1.fail(key + ' multiple', construct,
                            'setpos called %d times' % len(node.setpos),
                            where=where)
                idx, additional, line = node.setpos[-1]
                # R11.2
                if not 1 <= idx <= len(prod.rhs):
                    if not prod.rhs and idx == 1:
                        pass
                    r2.fail(key, construct,
                            'setpos index %d is outside the production '
                            '(%d symbols)' % (idx, len(prod.rhs)),
                            where=where)
                    continue
                sym = prod.rhs[idx - 1]
                nullable = (not g.is_terminal(sym)) and sym in g.nullable
                adjusted = bool(node.adjusts)
                if adjusted:
                    # placeholder for an omitted clause: positioned one
                    # character after the preceding single-character token
                    lex = lm.lexeme(sym) if g.is_terminal(sym) else None
                    nxt = idx + 1
                    ok = (node.adjusts == {'lexpos': 1, 'colno': 1} and
                          lex is not None and len(lex) == 1 and
                          nxt in nslots and node.cls == 'EmptyStatement')
                    r2.check(
                        ok, key, construct,
                        'position adjustment %s after setpos(p, %d) is not '
                        'the documented placeholder shape (lexpos+1 and '
                        'colno+1 together, after a one-character token, '
                        'for an omitted clause)' % (node.adjusts, idx),
                        where=where)
                    continue
                if nullable and idx in nslots:
                    r2.fail(key, construct,
                            'setpos index %d names %s which is empty on '
                            'this path: no token to take a position from'
                            % (idx, sym), where=where)
                    continue
                if nullable and idx in oc.narrow:
                    ks = M.printer.kinds(Slot(idx, sym, oc.narrow[idx]))
                    if ks and not (ks & evk.get(sym, set())):
                        # the path facts exclude every value the slot has
                        # when it derives nothing: a token exists
                        nullable = False
                if nullable:
                    root_ok = prod.lhs == g.start and len(prod.rhs) == 1
                    r2.check(
                        root_ok, key, construct,
                        'setpos index %d names the nullable %s: when it '
                        'derives nothing ply tracks no position' % (
                            idx, sym), where=where)
                else:
                    r2.ok(construct)
                # R11.3
                positions = ext.get(id(node))
                if node is top or not positions:
                    first = 1
                    inside = range(1, len(prod.rhs) + 1)
                else:
                    first = min(positions)
                    inside = range(first, max(positions) + 1)
                # leading empty slots do not count
                while first in nslots and first < idx:
                    first += 1
                if idx == first:
                    r3.ok(construct)
                else:
                    ok = idx in inside and str_valued(M, sym)
                    r3.check(
                        ok, key, construct,
                        'setpos index %d (%s) is neither the first slot of '
                        'the node\'s extent (p[%d]) nor an operator/keyword '
                        'token inside it' % (idx, sym, first), where=where)
                # R11.4
                for text, i in additional:
                    ok = 1 <= i <= len(prod.rhs)
                    detail = 'additional index %d outside the production' % i
                    if ok:
                        s2 = prod.rhs[i - 1]
                        firsts = g.first_of(s2)
                        lexs = {lm.lexeme(t) for t in firsts}
                        nul = (not g.is_terminal(s2)) and s2 in g.nullable
                        ok = lexs == {text} and not nul
                        detail = (
                            'additional=(%r, %d): p[%d] is %s whose first '
                            'token is %s, not always %r' % (
                                text, i, i, s2, sorted(
                                    map(str, lexs)), text))
                    r4.check(ok, key + ' additional %r' % text,
                             construct + ' additional=(%r, %d)' % (text, i),
                             detail, where=where)
    # string valued nonterminals must be single-terminal pass-throughs (their
    # tracked position is that of the text they carry)
    for nt in g.nonterminals:
        ks = A.kinds.get(nt, set())
        if ks and all(k[0] == 'str' for k in ks):
            for p in g.by_lhs[nt]:
                r4.check(len(p.rhs) == 1 and g.is_terminal(p.rhs[0]),
                         'string nonterminal ' + p.text, p.text,
                         'a string-valued nonterminal spans more than its '
                         'own token: the position recorded for its text is '
                         'not where the text is')
    # elision token map: ',' * value recorded at the start of the run
    for p in g.by_lhs.get('elision', []):
        for oc in A.of(p):
            stores = [n.stores.get('_token_map') for n in oc.nodes] + [
                e[3] for e in oc.effects if e[0] == 'store' and
                e[2] == '_token_map']
            stores = [s for s in stores if s]
            ok = len(stores) == 1 and 'findpos(p, 0)' in stores[0] and \
                "',' *" in stores[0] and '.value' in stores[0]
            r4.check(ok, 'elision map ' + p.text, p.text,
                     'the elision token map is not {\",\" * value: '
                     '[findpos(p, 0)]}: %s' % stores,
                     where='parsers/es5.py:%s' % p.func)
    direct_token_map_rule(g, A, r4)
    report.count('node construction sites (paths)', sites)

    # R11.5 ---------------------------------------------------------------
    _, findpos = am.find_method('Node', 'findpos')
    if findpos is None:
        raise AnalysisError('Node.findpos vanished')
    lookup = need_function(lm.module, 'lookup_colno', 'Lexer')
    newline_idx = [0, 10, 25, 26]
    for lineno, lexpos, want_col in ((1, 0, 1), (1, 7, 8), (2, 10, 1),
                                     (2, 17, 8), (3, 25, 1), (4, 30, 5)):
        lexer = Obj('Lexer', newline_idx=list(newline_idx))
        ev = Evaluator(lm.module, 'Lexer', lm.module.class_methods('Lexer'))
        got, _ = ev.call(lookup, [lineno, lexpos], self_obj=lexer)
        r5.check(got == want_col, 'lookup_colno(%d,%d)' % (lineno, lexpos),
                 'lookup_colno(lineno=%d, lexpos=%d) newline_idx=%s' % (
                     lineno, lexpos, newline_idx),
                 'returns %r, the 1-based column is %d' % (got, want_col),
                 where='lexers/es5.py:Lexer.lookup_colno')
    # findpos: for every offset of a text using all four ES5 line
    # terminators (and CRLF), with the line index the lexer keeps for it,
    # the column returned is the 1-based distance from the line start
    import re as _re
    text = 'ab\ncd\u2028e\rfg\r\nh\u2029ij'
    starts = [0] + [m.end() for m in _re.finditer(
        '\r\n|[\n\r\u2028\u2029]', text)]
    for lexpos, ch in enumerate(text):
        if ch in '\n\r\u2028\u2029':
            continue
        lineno = max(i for i, s0 in enumerate(starts) if s0 <= lexpos) + 1
        want_col = lexpos - starts[lineno - 1] + 1
        lexer = Obj('Lexer', newline_idx=list(starts), lexer=Obj(
            'PlyLexer', lexdata=text, lexpos=lexpos, lineno=lineno))

        def lk(ln, lp, lexer=lexer):
            ev0 = Evaluator(lm.module, 'Lexer',
                            lm.module.class_methods('Lexer'))
            return ev0.call(lookup, [ln, lp], self_obj=lexer)[0]
        lexer.lookup_colno = ('pyfunc', lk)
        p = Obj('YaccProduction',
                lexpos=('pyfunc', lambda i, lexpos=lexpos: lexpos),
                lineno=('pyfunc', lambda i, lineno=lineno: lineno),
                lexer=lexer)
        ev = Evaluator(am.module, 'Node', {}, {
            'callable': lambda x: x is not None,
            'getattr': lambda o, n, d=None: (
                (getattr(o, n) if o.has(n) else d) if isinstance(o, Obj)
                else getattr(o, n, d))})
        try:
            got, _ = ev.call(findpos, [p, 1], self_obj=Obj('Node'))
            got = tuple(got)
        except Raised as e:
            got = 'raises %s' % e.text
        except (TypeError, ValueError):
            pass
        r5.check(got == (lexpos, lineno, want_col),
                 'findpos(line %d, column %d)' % (lineno, want_col),
                 'Node.findpos for the token at offset %d of %r' % (
                     lexpos, text),
                 'returns %r; under ES5 line terminator counting the '
                 'token is at (offset, line, column) = %r' % (
                     got, (lexpos, lineno, want_col)),
                 where='asttypes.py:Node.findpos',
                 witness=text)
    from .c06 import line_index_rule
    line_index_rule(report, index, 'R11.6')
    from .c12 import text_passthrough_rule
    text_passthrough_rule(report, index, 'R11.7')
    report.not_decided.append(
        'agreement of offset/line/column under ES5 line terminator '
        'counting additionally needs R06.4 (line index updated once per '
        'token) and R04.5 (U+2028/9): reported under C06/C04')
    report.trusted_base += ['CPython ast', 'action interpreter (E3)',
                            'skeleton alignment (E5)']
