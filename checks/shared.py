# -*- coding: utf-8 -*-
"""Model construction shared by the per-property checks."""
from __future__ import annotations

from engine.common import AnalysisError
from engine.grammar import Grammar
from engine.astmodel import AstModel
from engine.lexmodel import LexModel
from engine.actions import ActionModel, NodeVal, ListVal, Slot, Const
from engine.defs import Definitions
from engine.skeleton import Printer, SkeletonError, align, tokens_only


class Models(object):
    """Lazily built, cached per SourceIndex."""

    def __init__(self, index):
        self.index = index
        self._c = {}

    def _get(self, key, fn):
        if key not in self._c:
            self._c[key] = fn()
        return self._c[key]

    @property
    def grammar(self):
        return self._get('g', lambda: Grammar(self.index))

    @property
    def astmodel(self):
        return self._get('am', lambda: AstModel(self.index))

    @property
    def lexmodel(self):
        return self._get('lm', lambda: LexModel(self.index))

    @property
    def actions(self):
        return self._get('A', lambda: ActionModel(
            self.grammar, self.astmodel, self.lexmodel))

    @property
    def definitions(self):
        return self._get('D', lambda: Definitions(self.index))

    @property
    def printer(self):
        return self._get('P', lambda: Printer(
            self.grammar, self.actions, self.astmodel, self.lexmodel,
            self.definitions))


def models(index):
    if not hasattr(index, '_models'):
        from engine.layout import register_fragment_fields
        register_fragment_fields(index)
        index._models = Models(index)
    return index._models


SKIP_ALIGN = ('Array', 'Elision')


def none_slots(P, oc):
    """slots that hold None on this path (by the path facts)"""
    out = set()
    for idx, facts in oc.narrow.items():
        sym = oc.prod.rhs[idx - 1]
        if P.g.is_terminal(sym):
            continue
        ks = P.kinds(Slot(idx, sym, facts))
        if ks == {('none',)}:
            out.add(idx)
    return out


def skeleton_results(index):
    """R01.1 core: for every ok outcome, the alignment of the printed
    skeleton with a production.  Cached.  Returns a list of dicts."""
    M = models(index)
    if 'skel' in M._c:
        return M._c['skel']
    g, A, P = M.grammar, M.actions, M.printer
    results = []
    for prod in g.productions:
        for n, oc in enumerate(A.of(prod)):
            if oc.status != 'ok':
                continue
            res = {'prod': prod, 'outcome': oc, 'n': n, 'kind': None,
                   'ok': True, 'msg': '', 'pairs': [], 'items': [],
                   'matched': prod}
            v = oc.value
            if isinstance(v, NodeVal):
                res['kind'] = 'node'
                if v.cls in SKIP_ALIGN:
                    res['kind'] = 'node-special'
                    results.append(res)
                    continue
                try:
                    items = P.emit_node(v)
                except SkeletonError as e:
                    res['ok'] = False
                    res['msg'] = str(e)
                    results.append(res)
                    continue
                res['items'] = items
                ok, pairs, msg = align(P, items, prod, none_slots(P, oc))
                if not ok:
                    # some other alternative of the same nonterminal that
                    # yields the same abstract value
                    for prod2 in g.by_lhs[prod.lhs]:
                        if prod2 is prod:
                            continue
                        same = [o for o in A.of(prod2) if o.status == 'ok'
                                and repr(o.value) == repr(v)]
                        if not same:
                            continue
                        ok2, pairs2, _ = align(P, items, prod2,
                                               none_slots(P, same[0]))
                        if ok2:
                            ok, pairs, msg = True, pairs2, ''
                            res['matched'] = prod2
                            break
                res['ok'], res['pairs'], res['msg'] = ok, pairs, msg
            elif isinstance(v, Slot):
                res['kind'] = 'pass'
                others = [s for i, s in enumerate(prod.rhs, 1)
                          if i != v.idx and s != 'empty']
                lossy = [s for s in others if not (
                    s in g.nullable and not g.is_terminal(s))]
                if lossy and P.kinds(v) and all(
                        k[0] == 'list' for k in P.kinds(v)):
                    res['kind'] = 'list'
                elif lossy:
                    res['kind'] = 'lossy'
                    if prod.lhs in P.wrappers():
                        res['msg'] = 'wrapper (expanded at its uses)'
                    else:
                        kinds = P.kinds(v)
                        built = set()
                        for prod2 in g.by_lhs[prod.lhs]:
                            for o in A.of(prod2):
                                if o.status == 'ok' and isinstance(
                                        o.value, NodeVal):
                                    built.add(('node', o.value.cls))
                        if not kinds or not kinds <= built:
                            res['ok'] = False
                            res['msg'] = (
                                'returns p[%d] unchanged and drops %s, but '
                                'the value kinds %s are not rebuilt by a '
                                'non-lossy alternative' % (
                                    v.idx, ' '.join(lossy),
                                    sorted(k[-1] for k in kinds)))
            elif isinstance(v, ListVal):
                res['kind'] = 'list'
            else:
                res['kind'] = 'other'
            results.append(res)
    M._c['skel'] = results
    return results


def rule_skeleton(report, index, rid, title=None):
    """R01.1 / R02.1 / R03.4: writer/reader skeleton agreement."""
    rule = report.rule(
        rid, title or 'definition skeleton == production RHS (per action '
        'outcome)', floor=150)
    lossy = report.rule(
        rid + 'L', 'lossy pass-through alternatives are rebuilt by a '
        'non-lossy one', floor=1)
    for res in skeleton_results(index):
        prod = res['prod']
        oc = res['outcome']
        if res['kind'] == 'node':
            v = oc.value
            construct = '%s :: %s' % (prod.text, v.cls)
            rule.check(
                res['ok'],
                '%s|%s' % (prod.text, v.cls), construct,
                'definition %s %s [action %s, outcome %s]' % (
                    v.cls, res['msg'], prod.func,
                    oc.conds or 'unconditional'),
                where='parsers/es5.py:%s unparsers/es5.py:%s' % (
                    prod.func, v.cls),
                okdetail='prints %s' % ' '.join(
                    repr(i) for i in tokens_only(res['items'])))
        elif res['kind'] == 'lossy':
            lossy.check(
                res['ok'], prod.text, prod.text,
                '%s [action %s]' % (res['msg'], prod.func),
                where='parsers/es5.py:%s' % prod.func)
    rule.note('Array/Elision (ElisionJoinAttr) are decided by the dedicated '
              'enumeration rule, not by alignment')
    return rule
