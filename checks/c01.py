# -*- coding: utf-8 -*-
"""
C01 - pretty output re-parses to the same tree; fixpoint.

The round trip is decided as the three premises of an induction over the
tree (DESIGN.md section 3, C01):

R01.1 writer/reader skeleton agreement: every definition prints exactly
      the terminals of the production that built the node, children in
      their slots
R01.2 no token fusion under the `indent` table
R01.3 restricted productions stay on one line (no line break can be
      printed between return/throw/break/continue and their operand, nor
      between an operand and postfix ++/--)
R01.4 the printed text does not depend on source positions (fixpoint
      premise)
"""
from __future__ import annotations

import ast

from engine.common import AnalysisError
from engine.effects import iter_functions, own_nodes
from engine.stream import PrintGrammar
from .shared import models, rule_skeleton
from .fusion import FusionEngine, fusion_rule, K, desc
from .c20 import guard_transcriptions, guard_tokens

RESTRICTED = ('return', 'throw', 'break', 'continue')
POSITION_ATTRS = ('lexpos', 'lineno', 'colno', '_token_map')


def r013(report, E, M, handlers, handled):
    rule = report.rule('R01.3', 'no line break inside a restricted '
                       'production (7.9.1)', floor=20)
    PG = PrintGrammar(M, handled, comments=False)
    transparent = {n for n in handled
                   if n not in ('OpenBlock', 'CloseBlock', 'EndStatement')}
    windows = PG.analyse(transparent, maxrun=12)
    n = 0
    for (ta, run, tb) in sorted(windows, key=repr):
        if ta == 'START' or tb == 'END':
            continue
        restricted = ta[0] == 'lit' and ta[1] in RESTRICTED
        postfix = tb[0] == 'lit' and tb[1] in ('++', '--') and any(
            True for _ in [0]) and not run and False
        if not restricted:
            continue
        n += 1
        before = E.sample(ta)
        _, fb = E.boundary_atoms(tb)
        after = E.sample(tb, first=fb[0]) if fb else 'x'
        out = E.run_output(handlers, run, before, after)
        broke = any('\n' in t or '\r' in t for t in out)
        slot = ' '.join('%s(%s)' % (m[0], m[1]) for m in run) or '<adjacent>'
        rule.check(not broke, '%s|%s|%s' % (ta[1], slot, desc(tb)),
                   '%r %s %s' % (ta[1], slot, desc(tb)),
                   'a line break is printed between `%s` and its operand: '
                   'automatic semicolon insertion ends the statement there'
                   % ta[1], where='unparsers/es5.py')
    # postfix: operand and ++/-- are adjacent in the definition
    D = M.definitions
    if 'PostfixExpr' not in D.defs:
        raise AnalysisError('definition PostfixExpr vanished')
    terms = [t for t in D.defs['PostfixExpr']
             if not (t.kind == 'attr' and t.cls == 'CommentsAttr')]
    marks = [t.name for t in terms if t.kind == 'layout']
    rule.check(not any(m in ('Newline', 'OptionalNewline') for m in marks),
               'PostfixExpr', 'PostfixExpr: operand <marks> ++/--',
               'a line break can be printed between the operand and the '
               'postfix operator', where='unparsers/es5.py:PostfixExpr')
    return rule


def r014(report, index):
    rule = report.rule('R01.4', 'emitted text is data-flow independent of '
                       'source positions', floor=8)
    for dotted in ('calmjs.parse.handlers.core',
                   'calmjs.parse.handlers.indentation'):
        m = index.need(dotted)
        for cls, f, chain in iter_functions(m):
            tainted = set()
            for n in ast.walk(f):
                if isinstance(n, ast.Assign) and isinstance(
                        n.value, ast.Call) and isinstance(
                        n.value.func, ast.Attribute) and \
                        n.value.func.attr in ('getpos', 'findpos'):
                    for t in n.targets:
                        for x in ast.walk(t):
                            if isinstance(x, ast.Name) and x.id != '_':
                                tainted.add(x.id)
            for n in own_nodes(f):
                if isinstance(n, ast.Call) and isinstance(
                        n.func, ast.Name) and \
                        n.func.id == 'StreamFragment' and n.args:
                    text = n.args[0]
                    names = {x.id for x in ast.walk(text)
                             if isinstance(x, ast.Name)}
                    attrs = {x.attr for x in ast.walk(text)
                             if isinstance(x, ast.Attribute)}
                    bad = (names & tainted) | (attrs & set(POSITION_ATTRS))
                    rule.check(
                        not bad, '%s text %s' % (f.name, ast.unparse(text)),
                        '%s: StreamFragment(%s, ...)' % (
                            f.name, ast.unparse(text)),
                        'the printed text depends on %s: printing the '
                        're-parsed tree (other positions) would give other '
                        'bytes' % sorted(bad),
                        where='%s:%s' % (dotted, f.name))
    return rule


def r015(report, M):
    """white space the pretty printer itself emits must be transparent to
    the lexer's division / regex decision (C05 is assumed for the rest)"""
    from .c05 import peek_skip_set
    rule = report.rule('R01.5', 'layout white space printed by the indent '
                       'table is seen through by the `/` look-behind',
                       floor=2)
    lm = M.lexmodel
    skip = peek_skip_set(lm)
    for ch, what in ((' ', 'the space printed by Space / indentation'),
                     ('\t', 'a tab indentation string')):
        rule.check(ch in skip and ch in lm.ignore.get('INITIAL', ''),
                   'peek sees through %r' % ch, 'printed %r before `/`' % ch,
                   '%s precedes a regular expression literal at the start '
                   'of a line, but Lexer._token does not look past %r when '
                   'deciding between division and regex: the pretty output '
                   'is re-read differently' % (what, ch),
                   where='lexers/es5.py:Lexer._token')
    return rule


def run(report, index, tier):
    M = models(index)
    guard_transcriptions(index, M, report, 'R01.7',
                         depth=4 if tier == 'thorough' else 3, strict=False)
    report.explanation = (
        'Round-trip induction decided premise by premise on tables: '
        'skeleton agreement of definitions and productions, absence of '
        'token fusion for every (token class, layout run, token class) '
        'window of the print grammar under the indent table, no line break '
        'inside restricted productions, position independence of the '
        'emitted text.')
    rule_skeleton(report, index, 'R01.1')
    guard_tokens(report, index, M, 'R01.6')
    from . import c15, c14
    c15.rules(report, index)
    c14.rules(report, index)
    from .arrays import array_rule
    array_rule(report, index, M, 'R01.1e',
               bound=11 if tier == 'thorough' else 8)
    E = FusionEngine(index)
    handlers = E.table('indent', indent_str='  ')
    handled = {k.name for k in handlers if not isinstance(k, tuple)}
    fusion_rule(report, E, 'R01.2', 'no token fusion under the indent '
                'table', handlers, handled)
    r013(report, E, M, handlers, handled)
    from .runs import uniformity_rule
    uniformity_rule(report, M, E.T, 'R01.8', [('indent table', handlers)])
    from .c13 import line_comment_rule
    line_comment_rule(report, index, M, E.T, 'R01.9')
    r014(report, index)
    r015(report, M)
    report.not_decided += [
        'walker.walk on rule sequences longer than the evaluated ones '
        '(R01.7 evaluates it from its source on every sequence of up to '
        'three rules, thorough four)',
        'indentation strings containing non-white-space',
        'array literals longer than the enumeration bound']
    report.trusted_base += [
        'the abstract evaluator (walker.walk / process_layouts / the Token classes are evaluated from their source, not transcribed)',
        'regex front end of CPython (re._parser)',
        'transcription of ply.lex rule ordering', 'ES5 7.8.3 / 7.9.1 facts']
