# -*- coding: utf-8 -*-
"""
C13 - comment capture is faithful and does not perturb the parse.

R13.1 non-interference: the capture flags are read only where comment
      tokens are routed / attached; set_comments writes only the comments
      attribute and the fresh comment nodes; hidden_tokens feeds nothing
      but set_comments
R13.2 verbatim, positioned, in source order (abstract evaluation of
      Node.set_comments)
R13.3 attached at most once: Lexer.token() hands the pending comments to
      exactly one token and resets the buffer; within one action no two
      nodes take their position (hence comments) from the same token
R13.4 printed comments do not split a restricted production
"""
from __future__ import annotations

import ast

from engine.common import AnalysisError
from engine.absint import Evaluator, Obj, Raised
from engine.effects import write_sites, iter_functions, own_nodes
from engine.srcindex import need_function
from .shared import models

LEX = 'calmjs.parse.lexers.es5'
PAR = 'calmjs.parse.parsers.es5'
AST = 'calmjs.parse.asttypes'
FLAGS = ('with_comments', 'yield_comments')


def enclosing_tests(fdef, target):
    """texts of the tests of the if statements enclosing `target`"""
    out = []

    def rec(node, stack):
        if node is target:
            out.extend(stack)
            return True
        for field, value in ast.iter_fields(node):
            items = value if isinstance(value, list) else [value]
            for c in items:
                if not isinstance(c, ast.AST):
                    continue
                st = stack
                if isinstance(node, ast.If) and field in ('body', 'orelse'):
                    st = stack + [(ast.unparse(node.test), field)]
                if rec(c, st):
                    return True
        return False
    rec(fdef, [])
    return out


def line_comment_rule(report, index, M, T, rid):
    """a printed line comment is followed by a line break (the marks of
    the LineComment definition evaluated through process_layouts)"""
    D = M.definitions
    r7 = report.rule(rid, 'a printed line comment is followed by a line '
                     'break whatever its text and the depth (the marks '
                     'after the comment evaluated through process_layouts)',
                     floor=20)
    from engine.layout import process_run, RULETYPES_MOD
    from engine.srcindex import Sym as _Sym
    for cname in ('LineComment', 'BlockComment'):
        if cname not in D.defs:
            raise AnalysisError('definition %s vanished' % cname)
        terms = [x for x in D.defs[cname] if x.kind != 'struct']
        if not terms or terms[0].kind != 'attr':
            raise AnalysisError('definition %s has an unexpected shape'
                                % cname)
        marks = [x.name for x in terms[1:] if x.kind == 'layout']
        if len(marks) != len(terms) - 1:
            raise AnalysisError('definition %s prints more than the '
                                'comment and layout marks' % cname)
        texts = ('//c', '//c ', '//c\t', '//c\xa0', '//', '// x;',
                 '//c\x0b', '//\u3000') if cname == 'LineComment' else (
                     '/*c*/', '/* c */', '/*\n*/')
        for indent_str in ('  ', '\t', ''):
            tab = T.table('indent', indent_str=indent_str)[
                'layout_handlers']
            run = [(_Sym(RULETYPES_MOD, mk), cname) for mk in marks
                   if _Sym(RULETYPES_MOD, mk) in tab]
            for level in (0, 2):
                for text in texts:
                    for after in ('b', '}', None):
                        for hh in tab.values():
                            if hh.kind == 'method' and hh.obj is not None \
                                    and hh.obj.has('_level'):
                                hh.obj._level = level
                        out = process_run(T, tab, run, text, after,
                                          M.astmodel, indent_str=indent_str)
                        for hh in tab.values():
                            if hh.kind == 'method' and hh.obj is not None \
                                    and hh.obj.has('_level'):
                                hh.obj._level = 0
                        if cname == 'BlockComment':
                            # a block comment needs no line break; only
                            # the line comment swallows what follows
                            r7.ok('block comment')
                            continue
                        joined = ''.join(out)
                        r7.check(joined[:1] in ('\n', '\r'),
                                 'line comment %r indent %r' % (
                                     text, indent_str),
                                 'LineComment %r, %s at depth %d, followed '
                                 'by %r' % (text, ' '.join(marks), level,
                                            after),
                                 'the marks after the comment print %r: no '
                                 'line break directly after the comment, so '
                                 'what is printed next becomes part of it'
                                 % (joined,),
                                 where='handlers/indentation.py / '
                                 'unparsers/es5.py:LineComment',
                                 witness='%s\nb;' % text)
    return r7


def run(report, index, tier):
    M = models(index)
    from .c20 import guard_tokens, guard_transcriptions
    guard_tokens(report, index, M)
    guard_transcriptions(index, M, report, depth=2)
    from . import c14
    c14.rules(report, index)
    from .tokens import deferrable_rule
    deferrable_rule(report, index, 'R13.8',
                    only=('LineComment', 'BlockComment'))
    g, A, am = M.grammar, M.actions, M.astmodel
    lm = index.need(LEX)
    pm = index.need(PAR)
    asttypes = index.need(AST)
    report.explanation = (
        'Def-use analysis of the comment-capture flags and of the '
        'hidden-token buffer, abstract evaluation of Node.set_comments and '
        'Lexer.token, a per-action uniqueness rule over the setpos token '
        'slots, and a structural rule relating the comment definitions to '
        'the restricted productions in the unparser table.')
    # R13.1 ---------------------------------------------------------------
    r1 = report.rule('R13.1', 'capture flags influence only the routing / '
                     'attachment of comments', floor=6)
    allowed = {
        ('Lexer', '__init__'), ('Lexer', '_token'), ('Parser', '__init__'),
        ('Node', 'setpos'),
    }
    for m in (lm, pm, asttypes):
        for cls, f, chain in iter_functions(m):
            for n in own_nodes(f):
                if isinstance(n, ast.Attribute) and n.attr in FLAGS and \
                        isinstance(n.ctx, ast.Load):
                    construct = '%s.%s reads %s' % (cls, f.name,
                                                    ast.unparse(n))
                    where = '%s:%s.%s (line %s)' % (m.name, cls, f.name,
                                                    n.lineno)
                    ok = (cls, f.name) in allowed
                    detail = 'the capture flag is read outside the ' \
                        'comment routing code: the parse can depend on it'
                    if cls == 'Lexer':
                        # decided by evaluation below (non-interference
                        # of the flags on the token stream)
                        continue
                    if ok and f.name == 'setpos':
                        continue    # decided by evaluation below
                    r1.check(ok, '%s.%s reads %s' % (cls, f.name, n.attr),
                             construct, detail, where=where)
    # the flags do not interfere with the token stream: Lexer.token is
    # evaluated from its source on the raw stream [T, ID, <end>] for every
    # token type T under the four flag combinations; the non-comment
    # tokens returned must be the same objects in the same order
    lmeth = lm.class_methods('Lexer')
    tokfn = lmeth.get('token')
    if tokfn is None:
        raise AnalysisError('Lexer.token vanished')
    from engine.lexmodel import LexModel
    types = sorted(set(M.lexmodel.tokens) | {
        'LINE_TERMINATOR', 'LINE_COMMENT', 'BLOCK_COMMENT'})

    def token_stream(ttype, wc, yc):
        stream = [Obj('LexToken', type=ttype, value='t', lineno=1,
                      lexpos=0, colno=1),
                  Obj('LexToken', type='ID', value='b', lineno=1,
                      lexpos=2, colno=3), None]
        it = iter(stream)
        from .c04 import mk_lexer_obj, hand
        lexer = mk_lexer_obj(lm=M.lexmodel)
        lexer.with_comments = wc
        lexer.yield_comments = yc
        lexer.lexer = Obj('PlyLexer', lexdata='ab', lexpos=0,
                          begin=('pyfunc', lambda state: None))
        # only the raw token source is a stand-in: _get_update_token and
        # _set_tokens (the line terminator evidence) are the real ones
        lexer.get_lexer_token = ('pyfunc', lambda it=it, lexer=lexer:
                                 hand(lexer, next(it)))
        got = []
        for _ in range(3):
            ev = Evaluator(lm, 'Lexer', lmeth, {})
            ret, _ys = ev.call(tokfn, [], self_obj=lexer)
            if ret is None:
                break
            got.append(ret)
        # the insertion predicate the parser consults after these tokens
        semi = []
        asemi = lmeth.get('auto_semi')
        if asemi is None:
            raise AnalysisError('Lexer.auto_semi vanished')
        for probe in ('ID', 'RBRACE', 'SEMI', None):
            ptok = None if probe is None else Obj(
                'LexToken', type=probe, value='p', lineno=1, lexpos=3,
                colno=4)
            saved = list(lexer.next_tokens)
            ev = Evaluator(lm, 'Lexer', lmeth, {
                'AutoLexToken': lambda: Obj('AutoLexToken')})
            ret, _ys = ev.call(asemi, [ptok], self_obj=lexer)
            semi.append((probe, ret.type if isinstance(ret, Obj) else ret))
            lexer.next_tokens = saved
        return stream, got, semi
    for ttype in types:
        results = {}
        for wc in (False, True):
            for yc in (False, True):
                try:
                    stream, got, semi = token_stream(ttype, wc, yc)
                    results[(wc, yc)] = ([
                        stream.index(t) for t in got
                        if t.type not in ('LINE_COMMENT', 'BLOCK_COMMENT')],
                        semi)
                except Raised as e:
                    results[(wc, yc)] = 'raises %s' % e.text
        base = results[(False, False)]
        r1.check(all(v == base for v in results.values()),
                 'token stream %s independent of the flags' % ttype,
                 'Lexer.token() on [%s, ID], then auto_semi, under the '
                 'four flag combinations' % ttype,
                 'the non-comment tokens returned, or the semicolon '
                 'insertion decisions after them, depend on the capture '
                 'flags: %r' % (results,),
                 where='lexers/es5.py:Lexer.token / _token')
    # ... nor with the semicolons of the restricted productions: after
    # return / break / continue / throw, with the line break inside or
    # behind a comment, the parser receives the same tokens whether the
    # comments are captured or dropped
    from .c04 import delivery, lexer_methods
    delivery(r1, M.lexmodel, lexer_methods(M.lexmodel),
             {'AutoLexToken': lambda: Obj('AutoLexToken')},
             ((False, False), (False, True)))
    # with capture on, every comment is handed to exactly one token: the
    # next real one.  Raw stream [c1, T, c2, <LT>, ID] for every token
    # type T
    real_types = [t for t in types if t not in (
        'LINE_TERMINATOR', 'LINE_COMMENT', 'BLOCK_COMMENT',
        # never raw tokens / an unmatched `)` is an error of its own
        'AUTOSEMI', 'RPAREN')]
    for ttype in real_types:
        c1 = Obj('LexToken', type='BLOCK_COMMENT', value='/*1*/', lineno=1,
                 lexpos=0, colno=1)
        c2 = Obj('LexToken', type='LINE_COMMENT', value='//2', lineno=1,
                 lexpos=8, colno=9)
        t1 = Obj('LexToken', type=ttype, value='t', lineno=1, lexpos=6,
                 colno=7)
        lt = Obj('LexToken', type='LINE_TERMINATOR', value='\n', lineno=1,
                 lexpos=11, colno=12)
        t2 = Obj('LexToken', type='ID', value='b', lineno=2, lexpos=12,
                 colno=1)
        it = iter([c1, t1, c2, lt, t2, None])
        from .c04 import mk_lexer_obj, hand
        lexer = mk_lexer_obj(lm=M.lexmodel)
        lexer.with_comments = True
        lexer.lexer = Obj('PlyLexer', lexdata='ab', lexpos=0,
                          begin=('pyfunc', lambda state: None))
        lexer.get_lexer_token = ('pyfunc', lambda it=it, lexer=lexer:
                                 hand(lexer, next(it)))
        handed = []
        try:
            for _ in range(6):
                ev = Evaluator(lm, 'Lexer', lmeth, {
                    'AutoLexToken': lambda: Obj('AutoLexToken')})
                ret, _ys = ev.call(tokfn, [], self_obj=lexer)
                if ret is None:
                    break
                hs = ret.hidden_tokens if ret.has('hidden_tokens') else []
                handed.append((ret.type, [h.value for h in (hs or [])]))
        except Raised as e:
            handed.append(('raises %s' % e.text, []))
        comments = [v for _t, hs in handed for v in hs]
        first = next((hs for t_, hs in handed if t_ != 'AUTOSEMI'), None)
        r1.check(comments == ['/*1*/', '//2'] and first == ['/*1*/'],
                 'comments handed over once around %s' % ttype,
                 'Lexer.token() on [/*1*/ %s //2 <LT> ID] with capture on'
                 % ttype,
                 'the tokens carry the hidden comments %r; expected /*1*/ '
                 'on the %s token and //2 on the next one, each once' % (
                     handed, ttype),
                 where='lexers/es5.py:Lexer.token')
    # Node.setpos: the flag decides only whether set_comments is called
    _, setpos = am.find_method('Node', 'setpos')
    if setpos is None:
        raise AnalysisError('Node.setpos vanished')
    outcomes = {}
    for flag in (False, True):
        for slot_is_token in (False, True):
            calls = []
            node = Obj('Node',
                       findpos=('pyfunc', lambda p_, i: (i * 10, 1, i)),
                       set_comments=('pyfunc',
                                     lambda p_, i: calls.append(i)))
            slot = Obj('LexToken') if slot_is_token else Obj('YaccSymbol')
            pobj = Obj('YaccProduction', lexer=Obj('Lexer',
                                                   with_comments=flag),
                       slice=[None, slot, Obj('LexToken')],
                       _items=[None, 'var', Obj('X')])
            ev = Evaluator(asttypes, 'Node', {}, {
                'defaultdict': lambda f_: __import__(
                    'collections').defaultdict(list)},
                is_subclass=lambda c, b: c == b)
            ev.iter_hook = lambda o: list(o._items)
            try:
                ev.call(setpos, [pobj, 1, (('=', 2),)], self_obj=node)
                fields = (node.lexpos, node.lineno, node.colno,
                          dict(node._token_map))
            except Raised as e:
                fields = 'raises %s' % e.text
            outcomes[(flag, slot_is_token)] = (fields, list(calls))
    for st_ in (False, True):
        off, on = outcomes[(False, st_)], outcomes[(True, st_)]
        r1.check(off[0] == on[0] and off[1] == [] and
                 on[1] == ([1] if st_ else []),
                 'setpos %s slot' % ('token' if st_ else 'nonterminal'),
                 'Node.setpos with capture off / on, anchor slot is a %s'
                 % ('token' if st_ else 'nonterminal'),
                 'capture off gives %r, capture on gives %r: the flag must '
                 'only decide whether set_comments is called (on a token '
                 'slot), never the recorded positions' % (off, on),
                 where='asttypes.py:Node.setpos')
    # writes of set_comments
    _, setc = am.find_method('Node', 'set_comments')
    if setc is None:
        raise AnalysisError('Node.set_comments vanished')
    for s in write_sites(asttypes):
        if s.func != 'set_comments':
            continue
        ok = (s.rootkind == 'fresh') or (
            s.rootkind == 'self' and s.kind == 'store' and
            ast.unparse(s.base) in ('self', 'self.comments'))
        r1.check(ok, 'set_comments writes %s' % s.text,
                 'Node.set_comments: %s' % s.text,
                 'set_comments writes %s: capture changes more than the '
                 'comments attribute' % s.text, where=s.where)
    # hidden_tokens of a token is read only by set_comments
    for m in (lm, pm, asttypes):
        for cls, f, chain in iter_functions(m):
            for n in own_nodes(f):
                reads = None
                if isinstance(n, ast.Attribute) and \
                        n.attr == 'hidden_tokens' and isinstance(
                        n.ctx, ast.Load) and ast.unparse(n.value) != 'self':
                    reads = ast.unparse(n)
                if isinstance(n, ast.Call) and isinstance(
                        n.func, ast.Name) and n.func.id == 'getattr' and \
                        len(n.args) >= 2 and isinstance(
                        n.args[1], ast.Constant) and \
                        n.args[1].value == 'hidden_tokens':
                    reads = ast.unparse(n)
                if reads:
                    r1.check(f.name == 'set_comments',
                             '%s reads token.hidden_tokens' % f.name,
                             '%s: %s' % (f.name, reads),
                             'the comments buffered on a token are read '
                             'outside set_comments',
                             where='%s:%s' % (m.name, f.name))
    # R13.2 ---------------------------------------------------------------
    r2 = report.rule('R13.2', 'set_comments: verbatim, positioned, in '
                     'source order (decision table)', floor=6)

    def mkcomment(kind):
        def ctor(value):
            return Obj(kind, value=value)
        return ctor

    def mkcomments(children):
        return Obj('Comments', children=list(children))
    cases = [
        [('LINE_COMMENT', '//a', 3, 1, 4)],
        [('BLOCK_COMMENT', '/*a*/', 3, 1, 4), ('LINE_COMMENT', '//b', 9, 1,
                                               10)],
        [('BLOCK_COMMENT', '/*a\n*/', 0, 1, 1), ('BLOCK_COMMENT', '/*b*/',
                                                 8, 2, 3),
         ('LINE_COMMENT', '//c', 14, 2, 9)],
        # blanks at either end of the comment text are part of it
        [('LINE_COMMENT', '// note  \t', 0, 1, 1)],
        [('LINE_COMMENT', '//x\xa0', 2, 1, 3), ('BLOCK_COMMENT',
                                                '/* y \n */ ', 9, 2, 1)],
        [('BLOCK_COMMENT', '/**/', 5, 3, 2), ('LINE_COMMENT', '//', 9, 3,
                                              6)],
    ]
    for case in cases:
        toks = [Obj('LexToken', type=t, value=v, lexpos=lp, lineno=ln,
                    colno=cn) for t, v, lp, ln, cn in case]
        carrier = Obj('LexToken', hidden_tokens=toks)
        p = Obj('YaccProduction', slice=[None, carrier])
        node = Obj('Node')
        ev = Evaluator(asttypes, 'Node', asttypes.class_methods('Node'), {
            'LineComment': mkcomment('LineComment'),
            'BlockComment': mkcomment('BlockComment'),
            'Comments': mkcomments,
            'getattr': lambda o, n, d=None: getattr(o, n)
            if o.has(n) else d,
            'reversed': lambda x: list(reversed(x)),
            'list': list})
        try:
            ev.call(setc, [p, 1], self_obj=node)
            cs = node.comments
            got = [(c.__dict__['_cls'], c.value, c.lexpos, c.lineno,
                    c.colno) for c in cs.children]
            for c in cs.children:
                tm = c._token_map if c.has('_token_map') else None
                if tm != {c.value: [(c.lexpos, c.lineno, c.colno)]}:
                    got.append(('token map of %r' % c.value, tm))
            gotpos = (cs.lexpos, cs.lineno, cs.colno)
        except Raised as e:
            # the evaluated code itself raises: a finding; a failure of
            # the evaluator (AnalysisError) stops the check instead
            got, gotpos = 'raises %s' % e.text, None
        want = [({'LINE_COMMENT': 'LineComment',
                  'BLOCK_COMMENT': 'BlockComment'}[t], v, lp, ln, cn)
                for t, v, lp, ln, cn in case]
        wantpos = tuple(case[0][2:])
        r2.check(got == want and gotpos == wantpos,
                 'set_comments %s' % ' '.join(repr(c[1]) for c in case),
                 'Node.set_comments on %s' % [c[1] for c in case],
                 'attaches %s at %s; expected %s at %s' % (
                     got, gotpos, want, wantpos),
                 where='asttypes.py:Node.set_comments')
    # R13.3 ---------------------------------------------------------------
    r3 = report.rule('R13.3', 'comments are attached at most once',
                     floor=100)
    lmethods = lm.class_methods('Lexer')
    tokfn = lmethods.get('token')
    if tokfn is None:
        raise AnalysisError('Lexer.token vanished')
    c1 = Obj('LexToken', type='LINE_COMMENT', value='//c')
    seq = [Obj('LexToken', type='ID', value='a'),
           Obj('LexToken', type='ID', value='b'), None]
    lexer = Obj('Lexer', hidden_tokens=[c1])
    it = iter(seq)
    lexer._token = ('pyfunc', lambda: next(it))
    outs = []
    for _ in seq:
        ev = Evaluator(lm, 'Lexer', lmethods, {})
        ret, _ys = ev.call(tokfn, [], self_obj=lexer)
        outs.append(ret)
    ok = (outs[0] is seq[0] and outs[0].has('hidden_tokens') and
          outs[0].hidden_tokens == [c1] and
          not outs[1].has('hidden_tokens') and outs[2] is None and
          lexer.hidden_tokens == [])
    r3.check(ok, 'Lexer.token moves the buffer once', 'Lexer.token',
             'pending comments are not handed to exactly the next token '
             'and cleared (they could be attached twice or lost)',
             where='lexers/es5.py:Lexer.token')
    for prod in g.productions:
        for oc in A.of(prod):
            if oc.status != 'ok':
                continue
            seen = {}
            for node in oc.nodes:
                for idx, _add, _line in node.setpos:
                    if not 1 <= idx <= len(prod.rhs):
                        continue
                    if not g.is_terminal(prod.rhs[idx - 1]):
                        continue
                    seen.setdefault(idx, []).append(node.cls)
            for idx, owners in seen.items():
                r3.check(len(owners) == 1,
                         '%s p[%d]' % (prod.text, idx),
                         '%s: setpos(p, %d) by %s' % (prod.text, idx, owners),
                         'two nodes built by this action take their '
                         'position from the same token p[%d]: a comment '
                         'preceding it is attached to both' % idx,
                         where='parsers/es5.py:%s' % prod.func)
    # R13.4 ---------------------------------------------------------------
    r4 = report.rule('R13.4', 'printed comments do not split a restricted '
                     'production', floor=4)
    D = M.definitions
    rules_mod = index.need('calmjs.parse.rules')
    # does the pretty table print comments and give Newline a handler?
    indent_fn = need_function(rules_mod, 'indent')
    t = ast.unparse(indent_fn)
    prints_comments = 'LineComment' in t and 'BlockComment' in t
    comment_defs_break = []
    for name in ('LineComment', 'BlockComment'):
        if name in D.defs:
            marks = [x.name for x in D.defs[name] if x.kind == 'layout']
            if any(mk in ('Newline', 'OptionalNewline') for mk in marks):
                comment_defs_break.append(name)
    restricted = {'Return': 'return', 'Throw': 'throw', 'Break': 'break',
                  'Continue': 'continue'}
    for defname, kw in sorted(restricted.items()):
        if defname not in D.defs:
            raise AnalysisError('definition %s vanished' % defname)
        terms = list(D.walk_terms(defname))
        kwi = [i for i, x in enumerate(terms) if x.kind == 'text' and
               x.value.strip() == kw]
        operand = None
        if kwi:
            for x in terms[kwi[0] + 1:]:
                if x.kind == 'attr' and x.cls != 'CommentsAttr':
                    operand = x
                    break
                if x.kind == 'text':
                    break
        if operand is None:
            r4.ok('%s has no operand' % defname)
            continue
        # node kinds that can stand in the operand attribute
        kinds = set()
        for oc in A.all_outcomes():
            for node in oc.nodes:
                if node.cls == defname and operand.attr in node.attrs:
                    from .c16 import attr_kinds
                    v = node.attrs[operand.attr]
                    if hasattr(v, 'sym'):
                        kinds |= {k[1] for k in M.printer.kinds(v)
                                  if k[0] == 'node'}
        leading = sorted(k for k in kinds if k in D.defs and D.defs[k] and
                         D.defs[k][0].cls == 'CommentsAttr')
        ok = not (prints_comments and comment_defs_break and leading)
        r4.check(ok, defname, '%s: %r <comments of operand> operand' % (
            defname, kw),
            'a comment captured on the first token of the operand of `%s` '
            'is printed between the keyword and the operand by the '
            'operand\'s leading CommentsAttr (%d node types), and the %s '
            'definition ends in a line break: `%s /*c*/ x` is printed as '
            '`%s /*c*/<newline>x`, which automatic semicolon insertion '
            'reads as `%s;`' % (kw, len(leading),
                                '/'.join(comment_defs_break), kw, kw, kw),
            where='unparsers/es5.py:%s / LineComment / BlockComment'
            % defname)
    # R13.5 ---------------------------------------------------------------
    r5 = report.rule('R13.5', 'comments are printed verbatim', floor=3)
    core = index.need('calmjs.parse.handlers.core')
    from engine.layout import Tables
    T = Tables(index)
    dh = T.table('indent', indent_str='  ').get('deferrable_handlers', {})
    names = sorted(k.name for k in dh)
    r5.check(names == ['BlockComment', 'LineComment'],
             'pretty table prints both comment kinds',
             'rules.indent: deferrable_handlers', 'deferrable handlers of '
             'the indent table are %s' % names, where='rules.py:indent')
    for k, h in sorted(dh.items(), key=lambda kv: kv[0].name):
        for text in ('// trailing blanks  \t', '/* a\n * b */',
                     '//\u00a0x\u00a0', '/**/', '/* a\r\n * b\r */',
                     '/* a\u2028b\u2029 */', '/*\t\x0b\x0c*/'):
            ev = Evaluator(h.module, None, {}, {})
            ret, _ = ev.call(h.fdef, [Obj('Dispatcher', newline_str='\n',
                                          indent_str='  '),
                                      Obj(k.name, value=text)])
            r5.check(ret == text, '%s prints %r' % (k.name, text),
                     '%s handler on %r' % (k.name, text),
                     'the comment %r is printed as %r: the re-parsed tree '
                     'carries a different comment' % (text, ret),
                     where='handlers/core.py:%s' % h.name)
    line_comment_rule(report, index, M, T, 'R13.7')
    # R13.6 ---------------------------------------------------------------
    r6 = report.rule('R13.6', 'a node that can receive comments prints '
                     'them first (CommentsAttr leads its definition)',
                     floor=40)
    carriers = {}
    for prod in g.productions:
        for oc in A.of(prod):
            if oc.status != 'ok':
                continue
            for node in oc.nodes:
                for idx, _add, _line in node.setpos:
                    if 1 <= idx <= len(prod.rhs) and g.is_terminal(
                            prod.rhs[idx - 1]):
                        carriers.setdefault(node.cls, prod)
    for cls, prod in sorted(carriers.items()):
        if cls not in D.defs:
            continue
        printing = [t for t in D.defs[cls] if t.kind != 'struct']
        lead = printing[0] if printing else None
        ok = lead is not None and D.rc.is_a(
            lead.cls or '', 'CommentsAttr') if lead is not None and \
            lead.kind == 'attr' else False
        r6.check(ok, cls, '%s (positioned on a token of `%s`)' % (
            cls, prod.text),
            'comments that precede the anchor token of a %s node are '
            'attached to it by setpos/set_comments, but the definition of '
            '%s does not start with CommentsAttr(): they are dropped by '
            'the printers' % (cls, cls),
            where='unparsers/es5.py:%s' % cls)
    report.not_decided.append(
        'that the re-parse attaches the same comments to the same nodes '
        '(depends on which token carries them after re-layout)')
    report.trusted_base += ['CPython ast', 'abstract evaluator',
                            'action interpreter', 'definitions model']
