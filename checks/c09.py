# -*- coding: utf-8 -*-
"""
C09 - the source map decodes to exactly the positions the fragments carried.

The statement quantifies over all fragment streams; what is decided here is
a bounded part of it, by partial evaluation:

R09.1 `sourcemap.write` (with Names, Bookkeeper, Book, normalize_mappings)
      is evaluated from its source on every stream of up to N abstract
      fragments (N = 3, thorough 4) over an alphabet of fragment shapes
      (positioned / unpositioned / implied 0:0, renamed or not, one of two
      sources, text with or without a line end), with normalisation off
      and on.  The relative mappings it returns are decoded by an
      independent Source Map V3 decoder (absolute positions, running
      source / line / column / name state); then, clause by clause:
        * every explicitly positioned fragment is mapped, at the generated
          line / column at which it was written, to its source, line,
          column and - if renamed - original name; with normalisation on,
          "mapped" means by the nearest preceding segment of the line with
          the column interpolated linearly;
        * every source and name index is in range;
        * generated columns do not decrease within a line;
        * the number of mapping lines equals the number of lines of the
          written text.
R09.2 `encode_sourcemap` hands exactly those mappings to
      `vlq.encode_mappings` (folded on the same streams, decoded again).

This is exhaustive over the abstract streams up to the bound and nothing
more: streams longer than N, and positions other than the representative
ones, are not decided.  The VLQ layer is C10.
"""
from __future__ import annotations

import ast
import itertools

from engine.common import AnalysisError
from engine.absint import Evaluator, Obj, Raised
from engine.srcindex import need_function

SM = 'calmjs.parse.sourcemap'

# fragment shapes: (text, lineno, colno, original name, source)
TEXTS = ('a', 'bcd', ' ', 'x\n', '\n')
# line ends other than LF, and characters str.splitlines() treats as line
# boundaries although the statement (LF, CR, CRLF) does not
WIDE_TEXTS = TEXTS + ('y\r\n', 'z\r', 'p\x0cq', 'v\x0b\x85\u2028w')


def fragment_alphabet(wide=False):
    """abstract fragments; positions are filled in by `concretise`.
    wide: more texts and more ways the source position moves"""
    out = []
    for text in (WIDE_TEXTS if wide else TEXTS):
        out.append((text, 'none', None, 'S1'))       # no position
        out.append((text, 'pos', None, 'S1'))        # explicit position
        if text.strip():
            out.append((text, 'pos', 'orig', 'S1'))  # renamed identifier
            out.append((text, 'pos', None, 'S2'))    # second source file
            out.append((text, 'zero', None, 'S1'))   # implied position 0:0
            if wide:
                # the source position goes back to an earlier line, stays
                # on the line exactly where the previous fragment ended
                # (the case normalisation drops), or jumps on the line
                out.append((text, 'back', None, 'S1'))
                out.append((text, 'cont', None, 'S1'))
                out.append((text, 'back-aligned', None, 'S1'))
    return out


def concretise(stream):
    """give the positioned fragments source positions"""
    out = []
    line, col = 3, 1
    prev_len = 0
    for i, (text, kind, name, source) in enumerate(stream):
        if kind == 'none':
            out.append((text, None, None, None, source + '.js'))
            prev_len = len(text)
            continue
        if kind == 'zero':
            out.append((text, 0, 0, None, source + '.js'))
            prev_len = len(text)
            continue
        if kind == 'pos':
            # positions move forward, sometimes to a new source line
            col += 2 + i
            if i % 2:
                line += 1
                col = 1 + i
        elif kind == 'back':
            line = max(1, line - 2)
            col = 1 + i
        elif kind == 'cont':
            col += prev_len
        elif kind == 'back-aligned':
            # an earlier line, at the column a continuation would have
            line = max(1, line - 1)
            col += prev_len
        out.append((text, line, col, name, source + '.js'))
        prev_len = len(name) if name else len(text)
    return out


class SourceMapModel(object):

    def __init__(self, index):
        self.m = index.need(SM)
        self.write = need_function(self.m, 'write')
        self.encode = need_function(self.m, 'encode_sourcemap')
        self.own = {}
        self.bases = {}
        for name, node in self.m.classes.items():
            self.own[name] = {st.name: st for st in node.body
                              if isinstance(st, ast.FunctionDef)}
            self.bases[name] = [ast.unparse(b).split('.')[-1]
                                for b in node.bases]

    def evaluator(self):
        ev = Evaluator(self.m, class_methods=self.own, class_own=self.own,
                       class_bases=self.bases, max_steps=400000,
                       is_subclass=lambda c, b: c == b)
        ev.instantiate_classes = True
        ev.constants['logger'] = Obj(
            'Logger', warning=('pyfunc', lambda *a, **k: None),
            info=('pyfunc', lambda *a, **k: None),
            debug=('pyfunc', lambda *a, **k: None))
        return ev

    DRIVER = '''
def __two_calls__(first, second, stream):
    book = default_book()
    sources = Names()
    names = Names()
    mappings, _, _ = write(
        first, stream, normalize=False, book=book, sources=sources,
        names=names)
    return write(
        second, stream, normalize=False, book=book, sources=sources,
        names=names, mappings=mappings)
'''

    def run_write_twice(self, first, second):
        """the documented multi-call use (test_multiple_call): one book,
        one Names for sources and names, the mappings handed on"""
        written = []
        stream = Obj('Stream', write=('pyfunc', written.append))
        ev = self.evaluator()
        fd = ast.parse(self.DRIVER).body[0]
        try:
            ret, _ = ev.call(fd, [list(first), list(second), stream])
        except Raised as e:
            return 'raises %s' % e.text, ''.join(written)
        return ret, ''.join(written)

    def run_write(self, fragments, normalize):
        written = []
        stream = Obj('Stream', write=('pyfunc', written.append))
        ev = self.evaluator()
        try:
            ret, _ = ev.call(self.write, [list(fragments), stream],
                             {'normalize': normalize})
        except Raised as e:
            return 'raises %s' % e.text, ''.join(written)
        return ret, ''.join(written)


def decode(mappings):
    """Source Map V3: relative segments -> absolute
    [(gen line, gen col, source idx, src line, src col, name idx|None)]
    (src line / col 0-based as in the format); 1-element segments carry
    only the generated column"""
    out = []
    src = sline = scol = name = 0
    for gl, line in enumerate(mappings):
        gcol = 0
        for seg in line:
            if len(seg) not in (1, 4, 5):
                raise ValueError('segment of length %d' % len(seg))
            gcol += seg[0]
            if len(seg) == 1:
                out.append((gl, gcol, None, None, None, None))
                continue
            src += seg[1]
            sline += seg[2]
            scol += seg[3]
            nm = None
            if len(seg) == 5:
                name += seg[4]
                nm = name
            out.append((gl, gcol, src, sline, scol, nm))
    return out


def lookup(decoded, gl, gc):
    """segment that maps generated position (gl, gc): the last segment of
    the line at or before the column"""
    best = None
    for seg in decoded:
        if seg[0] == gl and seg[1] <= gc:
            if best is None or seg[1] >= best[1]:
                best = seg
    return best


def expectations(fragments):
    """[(gen line, gen col, fragment)] for the explicitly positioned
    fragments, and the number of lines of the written text"""
    gl = gc = 0
    out = []
    for frag in fragments:
        text, lineno, colno, name, source = frag
        if lineno and colno:
            out.append((gl, gc, frag))
        i = 0
        while i < len(text):
            ch = text[i]
            if ch == '\r' and text[i + 1:i + 2] == '\n':
                i += 1
                ch = '\n'
            if ch in '\r\n':
                gl += 1
                gc = 0
            else:
                gc += 1
            i += 1
    return out


def check_stream(model, fragments, normalize, split=None):
    """list of problems (strings) for one stream; split: the stream is
    written by two calls sharing book, sources, names and mappings"""
    if split is None:
        ret, text = model.run_write(fragments, normalize)
    else:
        ret, text = model.run_write_twice(fragments[:split],
                                          fragments[split:])
    if isinstance(ret, str):
        return [ret]
    try:
        mappings, sources, names = ret
    except (TypeError, ValueError):
        return ['write returns %r' % (ret,)]
    problems = []
    want_text = ''.join(f[0] for f in fragments)
    if text != want_text:
        problems.append('the written text is %r, the fragments spell %r'
                        % (text, want_text))
    import re as _re
    nlines = len(_re.split(r'\r\n|\r|\n', want_text))
    if len(mappings) != nlines:
        problems.append('%d mapping line(s) for %d line(s) of text' % (
            len(mappings), nlines))
    try:
        dec = decode(mappings)
    except ValueError as e:
        return problems + [str(e)]
    for gl in range(len(mappings)):
        cols = [s[1] for s in dec if s[0] == gl]
        if cols != sorted(cols) or any(c < 0 for c in cols):
            problems.append('generated columns of line %d are %r' % (
                gl, cols))
    for s in dec:
        if s[2] is not None and not 0 <= s[2] < len(sources):
            problems.append('source index %d out of range (%d sources)'
                            % (s[2], len(sources)))
        if s[5] is not None and not 0 <= s[5] < len(names):
            problems.append('name index %d out of range (%d names)' % (
                s[5], len(names)))
        if s[2] is not None and (s[3] < 0 or s[4] < 0):
            problems.append('negative source position %r' % (s,))
    for gl, gc, frag in expectations(fragments):
        ftext, lineno, colno, name, source = frag
        seg = lookup(dec, gl, gc)
        where = '%r written at %d:%d' % (ftext, gl, gc)
        if seg is None or seg[2] is None:
            problems.append('%s has no mapping' % where)
            continue
        if not 0 <= seg[2] < len(sources):
            continue
        got = (sources[seg[2]], seg[3] + 1, seg[4] + 1 + (gc - seg[1]))
        if got != (source, lineno, colno):
            problems.append('%s maps to %s:%d:%d, the fragment carries '
                            '%s:%d:%d' % ((where,) + got + (source, lineno,
                                                          colno)))
        if name is not None:
            if seg[1] != gc or seg[5] is None or not 0 <= seg[5] < len(
                    names) or names[seg[5]] != name:
                problems.append('%s does not carry its original name %r'
                                % (where, name))
    return problems


def crlf_split(frags):
    return any(a[0].endswith('\r') and b[0].startswith('\n')
               for a, b in zip(frags, frags[1:]))


def classify(problem):
    for key, cls in (
            ('maps to', 'a positioned fragment is mapped to another '
             'position'),
            ('has no mapping', 'a positioned fragment has no mapping'),
            ('original name', 'a renamed fragment loses its original name'),
            ('index', 'source / name index out of range'),
            ('mapping line(s)', 'mapping lines != text lines'),
            ('generated columns', 'generated columns decrease'),
            ('written text', 'the text written differs from the fragments'),
            ('negative', 'negative source position'),
            ('raises', 'write raises'), ('segment of length',
                                         'malformed segment')):
        if key in problem:
            return cls
    return 'other: ' + problem[:40]


def _worker(arg):
    root, streams = arg[:2]
    from engine.srcindex import SourceIndex
    try:
        model = SourceMapModel(SourceIndex(root))
        out = []
        if len(arg) > 2:
            for frags in streams:
                for split in range(1, len(frags)):
                    out.append((frags, split, check_stream(
                        model, frags, False, split=split)))
            return out
        for frags in streams:
            for normalize in (False, True):
                out.append((frags, normalize,
                            check_stream(model, frags, normalize)))
        return out
    except AnalysisError as e:
        return 'evaluation of sourcemap.write: %s' % e


def run(report, index, tier):
    report.explanation = (
        'sourcemap.write and its bookkeeping classes are evaluated from '
        'their source on every abstract fragment stream up to a bound; the '
        'relative mappings are decoded by an independent Source Map V3 '
        'decoder and compared, clause by clause, with what the fragments '
        'carried.')
    model = SourceMapModel(index)
    bound = 4 if tier == 'thorough' else 3
    r1 = report.rule('R09.1', 'the decoded map gives every explicitly '
                     'positioned fragment its source, line, column and '
                     'name; indices in range; columns monotone; one '
                     'mapping line per text line (all abstract streams up '
                     'to %d fragments, normalisation off and on)' % bound,
                     floor=1000)
    alpha = fragment_alphabet()
    wide = fragment_alphabet(wide=True)
    failing = {}
    n = 0
    jobs = []
    seen_jobs = set()
    for alphabet, upto in ((alpha, bound), (wide, bound - 1)):
        for k in range(1, upto + 1):
            for stream in itertools.product(alphabet, repeat=k):
                job = concretise(stream)
                key = repr(job)
                if key not in seen_jobs:
                    seen_jobs.add(key)
                    jobs.append(job)
    # line-structured family: what a printer emits around line breaks -
    # two fragments ending a generated line (the second often a
    # continuation the normalisation drops), one or two line-break
    # fragments (a blank generated line), one or two fragments opening the
    # next line.  Longer than the bound, but narrow.
    head = [('a', k, nm, s_) for k, nm, s_ in (
        ('pos', None, 'S1'), ('cont', None, 'S1'), ('back', None, 'S1'),
        ('pos', 'orig', 'S1'), ('pos', None, 'S2'), ('none', None, 'S1'))]
    breaks = [('\n', 'none', None, 'S1'), ('x\n', 'pos', None, 'S1')]
    tail = [('bcd', k, nm, s_) for k, nm, s_ in (
        ('pos', None, 'S1'), ('cont', None, 'S1'), ('back', None, 'S1'),
        ('none', None, 'S1'))]
    n_lines = 0
    for h in itertools.product(head, head[:2] + head[-1:]):
        for nb in (1, 2):
            for b in itertools.product(breaks, repeat=nb):
                for nt in (1, 2):
                    for t in itertools.product(
                            tail if nt == 1 else tail[:2], repeat=nt):
                        job = concretise(h + b + t)
                        key = repr(job)
                        if key not in seen_jobs:
                            seen_jobs.add(key)
                            jobs.append(job)
                            n_lines += 1
    report.count('R09.1: line-structured streams (4-6 fragments)', n_lines)
    import concurrent.futures as cf
    import os
    workers = min(16, os.cpu_count() or 1)
    size = max(1, len(jobs) // (workers * 4))
    parts = [jobs[i:i + size] for i in range(0, len(jobs), size)]
    results = []
    with cf.ProcessPoolExecutor(max_workers=workers) as ex:
        for res in ex.map(_worker, [(index.root, p) for p in parts]):
            if isinstance(res, str):
                raise AnalysisError(res)
            results.extend(res)
    for frags, normalize, problems in results:
        n += 1
        if not problems:
            r1.ok('stream')
            continue
        cls = classify(problems[0])
        if crlf_split(frags) and ('mapping line' in problems[0] or
                                  'maps to' in problems[0] or
                                  'no mapping' in problems[0]):
            cls = 'a CR ending one fragment and an LF starting the next ' \
                'are counted as two line breaks'
        failing.setdefault((normalize, cls), []).append((frags, problems))
    for (normalize, cls), items in sorted(failing.items(),
                                          key=lambda kv: repr(kv[0])):
        frags, problems = min(items, key=lambda it: len(it[0]))
        r1.fail('normalize=%s: %s' % (normalize, cls),
                'sourcemap.write(%r, normalize=%s)  (+%d more streams)' % (
                    frags, normalize, len(items) - 1),
                '; '.join(problems[:3]), witness=repr(frags),
                where='sourcemap.py:write / normalize_mapping_line')
    report.count('fragment streams evaluated', n)
    # R09.4: two calls sharing their bookkeeping ----------------------------
    r4 = report.rule('R09.4', 'two write calls sharing book, sources, names '
                     'and mappings yield the map of the concatenated '
                     'stream (normalisation off; all splits of the '
                     'abstract streams up to %d fragments, three sources)'
                     % bound, floor=500)
    third = [f for f in alpha if f[3] == 'S2']
    alpha3 = alpha + [(t, k, nm, 'S3') for t, k, nm, _ in third] + [
        (t, k, 'orig2', s_) for t, k, nm, s_ in alpha if nm == 'orig']
    seen4 = set()
    failing4 = {}
    n4 = 0
    jobs4 = []
    for k in range(2, bound + 1):
        for stream in itertools.product(alpha3 if k < bound else alpha,
                                        repeat=k):
            job = concretise(stream)
            if repr(job) in seen4:
                continue
            seen4.add(repr(job))
            jobs4.append(job)
    size = max(1, len(jobs4) // (workers * 4))
    parts = [jobs4[i:i + size] for i in range(0, len(jobs4), size)]
    with cf.ProcessPoolExecutor(max_workers=workers) as ex:
        for res in ex.map(_worker, [(index.root, p, 'split')
                                    for p in parts]):
            if isinstance(res, str):
                raise AnalysisError(res)
            for job, split, problems in res:
                n4 += 1
                if not problems:
                    r4.ok('split stream')
                    continue
                failing4.setdefault(classify(problems[0]), []).append(
                    (job, split, problems))
    for cls, items in sorted(failing4.items()):
        job, split, problems = min(items, key=lambda it: len(it[0]))
        r4.fail('two calls: %s' % cls,
                'sourcemap.write(%r, ...) then sourcemap.write(%r, ..., '
                'mappings=mappings) with shared book / sources / names  '
                '(+%d more splits)' % (job[:split], job[split:],
                                       len(items) - 1),
                '; '.join(problems[:3]), witness=repr((job[:split],
                                                       job[split:])),
                where='sourcemap.py:write / Names / Bookkeeper')
    report.count('two-call streams evaluated', n4)
    # R09.2 ---------------------------------------------------------------
    r2 = report.rule('R09.2', 'encode_sourcemap serialises exactly the '
                     'mappings, sources and names it is given', floor=3)
    vlq = index.need('calmjs.parse.vlq')
    dm = need_function(vlq, 'decode_mappings')
    for mappings in ([[(0, 0, 0, 0)], [], [(2,), (3, 1, -1, 4, 1)]],
                     [[]], [[(0, 0, 2, 5, 0), (4, 0, 0, 4)]]):
        ev = model.evaluator()
        try:
            got, _ = ev.call(model.encode, [
                'out.js', [list(x) for x in mappings], ['a.js', 'b.js'],
                ['n']])
        except Raised as e:
            got = 'raises %s' % e.text
        ok = isinstance(got, dict) and got.get('version') == 3 and \
            got.get('file') == 'out.js' and got.get('sources') == [
                'a.js', 'b.js'] and got.get('names') == ['n'] and \
            isinstance(got.get('mappings'), str)
        back = None
        if ok:
            ev2 = Evaluator(vlq, max_steps=100000)
            try:
                back, _ = ev2.call(dm, [got['mappings']])
            except Raised as e:
                back = 'raises %s' % e.text
            ok = back == [[tuple(s) for s in line] for line in mappings]
        r2.check(ok, 'encode_sourcemap %r' % (mappings,),
                 'encode_sourcemap(mappings=%r)' % (mappings,),
                 'yields %r (decoded mappings: %r)' % (got, back),
                 where='sourcemap.py:encode_sourcemap')
    # R09.3: sources keep their indices through path normalisation ---------
    r3 = report.rule('R09.3', 'verify_write_sourcemap_args keeps one entry '
                     'per source, in order (the indices in the mappings '
                     'stay valid)', floor=3)
    from .c18 import path_evaluator, designates
    utils = index.need('calmjs.parse.utils')
    nrp = need_function(utils, 'normrelpath')
    vw = need_function(model.m, 'verify_write_sourcemap_args')
    for srcs in (['/p/src/a.js', '/p/src/b.js'],
                 ['/p/src/a.js', '/p/build/../src/a.js', '/p/src/c.js'],
                 ['/p/src/a.js', '/p/src/a.js'],
                 ['/p/a.js', '/q/a.js', '/p/./a.js', '/r/z.js']):
        ev = path_evaluator(model.m)
        ev.functions['normrelpath'] = lambda b, t: path_evaluator(
            utils).call(nrp, [b, t])[0]
        try:
            got, _ = ev.call(vw, [[], list(srcs), [], Obj(
                'Stream', name='/p/build/out.js'), Obj(
                'Stream', name='/p/build/out.js.map')])
            gsrcs = got[0][2]
        except Raised as e:
            gsrcs = 'raises %s' % e.text
        ok = isinstance(gsrcs, list) and len(gsrcs) == len(srcs) and all(
            designates('/p/build/out.js.map', g, s_)
            for g, s_ in zip(gsrcs, srcs))
        r3.check(ok, 'sources %r' % (srcs,),
                 'verify_write_sourcemap_args(sources=%r)' % (srcs,),
                 'yields the sources %r: entry i no longer designates '
                 'source i, so the source indices already in the mappings '
                 'point at the wrong file or out of range' % (gsrcs,),
                 where='sourcemap.py:verify_write_sourcemap_args')
    # the digits must be the canonical Base64 VLQ ones (rules of C10)
    from . import c10
    c10.rules(report, index)
    report.not_decided += [
        'fragment streams longer than %d fragments and positions other '
        'than the representative ones' % bound,
        'that the unparsers only produce streams of the modelled shapes']
    report.trusted_base += ['the evaluator', 'the embedded Source Map V3 '
                            'decoder (40 lines)']
