# -*- coding: utf-8 -*-
"""
C03 - the parser accepts exactly ES5 and builds the dictated tree.

quick:    R03.1 family consistency (NoIn / NoBF images, sibling actions)
          R03.2 LALR conflict audit (ply as a library on extracted rules)
          R03.4 tree shape (= R01.1 skeleton agreement)
thorough: + R03.5 Earley cross-membership against the embedded ES5.1
            grammar (see checks/c03_reference.py)
"""
from __future__ import annotations

import re

from engine.common import AnalysisError
from engine.actions import NodeVal
from .shared import models, rule_skeleton

BRACKETS = {'LPAREN': 'RPAREN', 'LBRACKET': 'RBRACKET', 'CONDOP': 'COLON',
            'LBRACE': 'RBRACE'}


def enclosed_positions(rhs):
    """indices (0-based) of rhs symbols enclosed by a bracketing terminal
    pair of the same production"""
    out = set()
    stack = []
    for i, s in enumerate(rhs):
        if stack and s == BRACKETS[stack[-1][0]]:
            stack.pop()
            continue
        if stack:
            out.add(i)
        if s in BRACKETS:
            stack.append((s, i))
    return out


def r031_noin(report, g):
    rule = report.rule('R03.1a', 'NoIn family is the image of the base '
                       'family (exposed operands _noin, enclosed plain)',
                       floor=30)
    noin = [n for n in g.nonterminals if n.endswith('_noin') or
            n.endswith('_noin_opt')]
    has_noin = {}
    for n in noin:
        base = n.replace('_noin', '')
        has_noin[base] = n
    for n in noin:
        base = n.replace('_noin', '')
        if base not in g.by_lhs:
            raise AnalysisError('%s has no base nonterminal %s' % (n, base))
        # expected image
        expected = []
        for p in g.by_lhs[base]:
            enc = enclosed_positions(p.rhs)
            if any(s == 'IN' and i not in enc for i, s in enumerate(p.rhs)):
                continue   # the `in` alternative has no NoIn image
            img = []
            for i, s in enumerate(p.rhs):
                if s in has_noin and i not in enc:
                    img.append(has_noin[s])
                else:
                    img.append(s)
            expected.append(tuple(img))
        actual = [p.rhs for p in g.by_lhs[n]]
        for p in g.by_lhs[n]:
            if p.rhs in expected:
                rule.ok(p.text)
                continue
            # explain the difference against the closest expected image
            best = None
            for e in expected:
                if len(e) == len(p.rhs):
                    diff = [i for i in range(len(e)) if e[i] != p.rhs[i]]
                    if best is None or len(diff) < len(best[1]):
                        best = (e, diff)
            if best:
                e, diff = best
                what = '; '.join(
                    'operand %d is %s, the NoIn image requires %s' % (
                        i + 1, p.rhs[i], e[i]) for i in diff)
            else:
                what = 'no base alternative has this image'
            rule.fail(p.text, p.text, what, where='parsers/es5.py:%s'
                      % p.func)
        for e in expected:
            if e not in actual:
                # a missing image whose near-miss was already reported is
                # not reported twice
                near = any(len(a) == len(e) and sum(
                    1 for x, y in zip(a, e) if x != y) <= 1 and a != e
                    for a in actual)
                if near:
                    continue
                rule.fail('%s -> %s (missing)' % (n, ' '.join(e)),
                          '%s -> %s' % (n, ' '.join(e)),
                          'the NoIn image of a base alternative is missing',
                          where='parsers/es5.py')
    return rule


def r031_nobf(report, g):
    rule = report.rule('R03.1b', 'NoBF family: only the leftmost symbol '
                       'changes; FIRST(expr_nobf) excludes { and function',
                       floor=40)
    nobf = [n for n in g.nonterminals if n.endswith('_nobf')]
    mapping = {}
    for n in nobf:
        mapping[n[:-len('_nobf')]] = n
    if 'primary_expr_no_brace' in g.by_lhs:
        mapping['primary_expr'] = 'primary_expr_no_brace'
    for n in nobf:
        base = n[:-len('_nobf')]
        if base not in g.by_lhs:
            raise AnalysisError('%s has no base nonterminal' % n)
        expected = []
        for p in g.by_lhs[base]:
            img = list(p.rhs)
            if img and img[0] in mapping:
                img[0] = mapping[img[0]]
            expected.append(tuple(img))
        actual = [p.rhs for p in g.by_lhs[n]]
        for p in g.by_lhs[n]:
            if p.rhs in expected:
                rule.ok(p.text)
                continue
            best = None
            for e in expected:
                if len(e) == len(p.rhs):
                    diff = [i for i in range(len(e)) if e[i] != p.rhs[i]]
                    if best is None or len(diff) < len(best[1]):
                        best = (e, diff)
            if best:
                e, diff = best
                what = '; '.join(
                    'operand %d is %s, the NoBF image requires %s (only '
                    'the leftmost operand is restricted)' % (
                        i + 1, p.rhs[i], e[i]) for i in diff)
            else:
                what = 'no base alternative has this image'
            rule.fail(p.text, p.text, what,
                      where='parsers/es5.py:%s' % p.func)
        for e in expected:
            if e not in actual:
                near = any(len(a) == len(e) and sum(
                    1 for x, y in zip(a, e) if x != y) <= 1 and a != e
                    for a in actual)
                if near:
                    continue
                rule.fail('%s -> %s (missing)' % (n, ' '.join(e)),
                          '%s -> %s' % (n, ' '.join(e)),
                          'the NoBF image of a base alternative is missing')
    # FIRST(expr_nobf)
    if 'expr_statement' not in g.by_lhs:
        raise AnalysisError('expr_statement vanished')
    for p in g.by_lhs['expr_statement']:
        head = p.rhs[0]
        first = g.first_of(head)
        for t in ('LBRACE', 'FUNCTION'):
            rule.check(
                t not in first, 'FIRST(%s) contains %s' % (head, t),
                'FIRST(%s) vs %s [%s]' % (head, t, p.text),
                'an expression statement may start with %s: the grammar '
                'derives it through %s' % (
                    t, first_path(g, head, t)),
                where='parsers/es5.py:%s' % p.func)
    return rule


def first_path(g, nt, t):
    """a chain of productions showing t in FIRST(nt)"""
    path = []
    seen = set()
    cur = nt
    while cur not in g.terminals and cur not in seen:
        seen.add(cur)
        for p in g.by_lhs[cur]:
            if p.rhs and t in g.first_of(p.rhs[0]):
                path.append(p.text)
                cur = p.rhs[0]
                break
        else:
            break
    return ' => '.join(path[-3:])


def canon_outcome(oc):
    val = re.sub(r':[A-Za-z_]+', '', repr(oc.value))
    nodes = [(n.cls, sorted((i, a) for i, a, _ in n.setpos),
              sorted(n.adjusts.items())) for n in oc.nodes]
    return (oc.status, val, nodes)


def shape_key(g, rhs):
    return tuple(s if g.is_terminal(s) else 'N' for s in rhs)


def r031_siblings(report, g, A):
    rule = report.rule('R03.1c', 'sibling actions (base/_noin/_nobf) build '
                       'the same tree from the same operand positions',
                       floor=60)
    groups = {}
    for fname in g.by_func:
        base = re.sub(r'_(noin|nobf)$', '', fname)
        groups.setdefault(base, []).append(fname)
    for base, fnames in sorted(groups.items()):
        if len(fnames) < 2 or base not in g.by_func:
            continue
        ref = {}
        for p in g.by_func[base]:
            ref[shape_key(g, p.rhs)] = p
        for fname in fnames:
            if fname == base:
                continue
            for p in g.by_func[fname]:
                key = shape_key(g, p.rhs)
                if key not in ref:
                    continue
                a = sorted(map(repr, map(canon_outcome, A.of(ref[key]))))
                b = sorted(map(repr, map(canon_outcome, A.of(p))))
                rule.check(
                    a == b, p.text, '%s ~ %s' % (p.text, ref[key].text),
                    'action %s builds %s but its sibling %s builds %s' % (
                        fname, b, base, a),
                    where='parsers/es5.py:%s' % fname)
    return rule


def r032_conflicts(report, g, A):
    rule = report.rule('R03.2', 'every LALR(1) conflict belongs to an '
                       'audited class', floor=3)
    G, lr = g.lalr()
    C = lr.lr0_items()
    passthrough = set()
    for p in g.productions:
        ocs = A.of(p)
        if len(p.rhs) == 1 and len(ocs) == 1 and repr(
                ocs[0].value).startswith('p[1]'):
            passthrough.add((p.lhs, p.rhs))
    seen = set()
    for st, tok, resolution in lr.sr_conflicts:
        reduces = []
        for item in C[st]:
            if item.len == item.lr_index + 1:
                if tok in item.lookaheads.get(st, []):
                    reduces.append(item)
        for item in reduces:
            text = '%s -> %s' % (item.name, ' '.join(
                s for s in item.prod if s != '.'))
            key = 'S/R on %s vs reduce %s' % (tok, text)
            if key in seen:
                continue
            seen.add(key)
            allowed = (
                tok == 'ELSE' and resolution == 'shift' and
                item.name == 'if_statement' and 'ELSE' not in item.prod)
            rule.check(
                allowed, key, key,
                'shift/reduce conflict resolved as %s: the table is not a '
                'proven recogniser of the written grammar here' % resolution,
                okdetail='else binds to the nearest if')
    for st, rule_won, rejected in lr.rr_conflicts:
        a = (rule_won.name, tuple(rule_won.prod))
        b = (rejected.name, tuple(rejected.prod))
        key = 'R/R %s -> %s vs %s -> %s' % (
            a[0], ' '.join(a[1]), b[0], ' '.join(b[1]))
        if key in seen:
            continue
        seen.add(key)
        allowed = False
        why = ''
        if a[0] == 'function_declaration' and b[0] == 'function_expr' and \
                a[1] == b[1]:
            allowed = True
            why = 'declaration wins over the identical named function expr'
        elif a[1] == b[1] and a in passthrough and b in passthrough:
            allowed = True
            why = 'both pass the same child through'
        rule.check(allowed, key, key,
                   'reduce/reduce conflict outside the audited classes',
                   okdetail=why)
    report.count('LALR states', len(C))
    report.count('S/R conflicts', len(lr.sr_conflicts))
    report.count('R/R conflicts', len(lr.rr_conflicts))
    return rule


def r033(report, g, lm):
    """contextual tokens GETPROP / SETPROP pre-empt ID on a look-ahead"""
    from engine.lexauto import (LexAutomata, ES5_LINE_TERMINATORS,
                                ES5_WHITESPACE_FIXED, ES5_ZS)
    rule = report.rule('R03.3', 'GETPROP/SETPROP look-ahead vs grammar '
                       'context', floor=6)
    LA = LexAutomata(lm)
    adj = g.adjacency()
    iddfa = LA.dfa(lm.rule('ID'))
    for tname in ('GETPROP', 'SETPROP'):
        if tname not in g.terminals:
            continue
        comp = LA.compiled[lm.rule(tname).name]
        las = [(pos, d) for pos, d, _ in comp.lookaheads]
        if len(las) != 1 or not las[0][0]:
            raise AnalysisError('%s: expected one positive look-ahead'
                                % tname)
        lad = las[0][1]
        word = lm.lexeme(tname)

        def prefix_accepted(s):
            q = lad.start
            for c in s:
                q = lad.step(q, LA.alpha.atom_of_char(c))
                if q is None:
                    return False
                if q in lad.accept:
                    return True
            return False
        # (a) every first token of a property name must be admitted
        firsts = set()
        for p in g.productions:
            if p.rhs and p.rhs[0] == tname and len(p.rhs) > 1:
                firsts |= g.first_of(p.rhs[1])
        classes = {}
        for t in sorted(firsts):
            lex = lm.lexeme(t)
            if lex is None:
                d = LA.dfa(lm.rule(t))
                w = d.shortest()
                lex = LA.alpha.word(w)
                classes.setdefault(t, lex)
            else:
                classes.setdefault('identifier-like', lex)
        for cname, lex in sorted(classes.items()):
            rule.check(
                prefix_accepted(' ' + lex),
                '%s look-ahead rejects %s property names' % (tname, cname),
                '%s <space> %s' % (word, cname),
                'a %s property name may follow `%s` in an object literal '
                'but the look-ahead of t_%s demands an identifier: '
                '`{%s %s(){}}` is lexed as the identifier `%s` and '
                'rejected' % (cname, word, tname, word, lex, word),
                where='lexers/es5.py:t_%s' % tname)
        ws = ES5_WHITESPACE_FIXED + ES5_ZS + ES5_LINE_TERMINATORS
        missing = [c for c in ws if not prefix_accepted(c + 'x')]
        rule.check(
            not missing, '%s look-ahead white space' % tname,
            '%s <ES5 white space> name' % word,
            'ES5 white space / line terminators not admitted between `%s` '
            'and the property name: %s' % (word, ' '.join(
                'U+%04X' % ord(c) for c in missing)),
            where='lexers/es5.py:t_%s' % tname)
        # (b) what may follow an *identifier* named get/set must not
        # satisfy the look-ahead
        for (a, b) in sorted(adj):
            if a != 'ID':
                continue
            lex = lm.lexeme(b)
            if lex is None or not iddfa.accepts_str(lex):
                continue
            rule.check(
                not prefix_accepted(' ' + lex),
                '%s look-ahead fires before %s' % (tname, b),
                'identifier `%s` followed by %s' % (word, b),
                'the grammar allows an identifier to be followed by `%s`, '
                'but `%s %s` satisfies the look-ahead of t_%s: the '
                'identifier `%s` is lexed as %s and `%s %s x` is '
                'rejected' % (lex, word, lex, tname, word, tname, word,
                              lex),
                where='lexers/es5.py:t_%s' % tname)
    return rule


def constructor_rule(report, M, rid):
    """node constructors store the children the parser action hands them:
    none replaces an argument by a part of it"""
    am = M.astmodel
    r = report.rule(rid, 'node constructors store the arguments of the '
                    'parser actions unchanged (no argument is replaced by '
                    'one of its own parts)', floor=30)
    built = sorted({n.cls for oc in M.actions.all_outcomes()
                    for n in oc.nodes})
    for cls in built:
        if cls not in am.classes:
            continue
        am.init_model(cls)
        bad = []
        for c in am.mro(cls):
            bad.extend((c, rw) for rw in am.rewrites.get(c, []))
        r.check(not bad, '%s constructor' % cls, '%s.__init__' % cls,
                '%s.__init__ rewrites its argument `%s` (%s): the node no '
                'longer stores the sub-tree the derivation dictates - two '
                'different derivations build the same tree' % (
                    bad[0][0] if bad else '', bad[0][1][0] if bad else '',
                    bad[0][1][1] if bad else ''),
                where='asttypes.py:%s.__init__' % (bad[0][0] if bad else
                                                   cls))
    return r


def rejection_rule(report, M, rid):
    """the only texts a parser action rejects are expression statements
    that begin with the token `function` (ES5 12.4): every raising path of
    every action is followed through its isinstance tests, and each step
    from a node to one of its attributes must be the step to the node's
    leftmost printed child"""
    from engine.actions import Slot, AttrOf
    D = M.definitions
    r = report.rule(rid, 'actions reject only expression statements that '
                    'begin with `function` (every raising path descends '
                    'through leftmost children to a FuncExpr)', floor=2)

    def first_term(cls):
        for t in D.defs.get(cls, ()):
            if t.kind in ('struct', 'layout') or (
                    t.kind == 'attr' and t.cls == 'CommentsAttr'):
                continue
            return t
        return None

    def path_of(v):
        attrs = []
        while isinstance(v, AttrOf):
            attrs.append(v.attr)
            v = v.base
        return v, attrs[::-1]
    n = 0
    for oc in M.actions.all_outcomes():
        if oc.status == 'ok':
            continue
        n += 1
        key = 'raise in %s' % oc.prod.func
        construct = '%s: raises %s when %s' % (
            oc.prod.text, (oc.raised or '')[:50], ' and '.join(
                '%s%s' % ('' if b else 'not ', c) for c, b in oc.conds))
        where = 'parsers/es5.py:%s' % oc.prod.func
        if oc.prod.lhs != 'expr_statement':
            r.fail(key, construct, 'a parser action rejects a text that '
                   'the production %s derives; ES5 has no restriction '
                   'there' % oc.prod.text, where=where)
            continue
        trues = [(v, ts) for v, ts, pol in oc.facts if pol]
        if not trues:
            r.fail(key, construct, 'the rejection does not depend on the '
                   'expression: every expression statement on this path is '
                   'refused', where=where)
            continue
        final, ftypes = trues[-1]
        root, attrs = path_of(final)
        problem = None
        if not (isinstance(root, Slot) and root.idx == 1):
            problem = 'the rejected value %r is not reached from the ' \
                'expression p[1]' % (final,)
        elif set(ftypes) != {'node:FuncExpr'}:
            problem = 'rejects when %r is a %s, not only a FuncExpr' % (
                final, '/'.join(t[5:] for t in ftypes))
        else:
            cur = root
            for a in attrs:
                classes = [ts for v, ts in trues if repr(v) == repr(cur)]
                if not classes:
                    problem = 'descends into .%s of %r without a class ' \
                        'test' % (a, cur)
                    break
                for t in classes[-1]:
                    cls = t[5:]
                    for sub in [cls] + [c for c in M.astmodel.subclasses(
                            cls) if c != cls and c in D.defs]:
                        ft = first_term(sub)
                        if ft is None or ft.kind != 'attr' or \
                                ft.attr != a:
                            problem = (
                                'descends from a %s into its attribute '
                                '`%s`, which is not the leftmost thing a '
                                '%s prints (%s): a statement that begins '
                                'with that and merely contains a function '
                                'expression further right is rejected' % (
                                    sub, a, sub, 'the text %r' % ft.value
                                    if ft is not None and ft.kind == 'text'
                                    else 'attribute %s' % getattr(
                                        ft, 'attr', '?')))
                            break
                    if problem:
                        break
                if problem:
                    break
                cur = AttrOf(cur, a)
        r.check(problem is None, key, construct, problem or '',
                where=where)
    report.count('%s: raising action paths' % rid, n)
    return r


def run(report, index, tier):
    M = models(index)
    from .c20 import guard_tokens, guard_transcriptions
    guard_tokens(report, index, M)
    guard_transcriptions(index, M, report, depth=2)
    g, A = M.grammar, M.actions
    report.explanation = (
        'CFG layer of the parser decided statically: the grammar is read '
        'from the p_* docstrings, the NoIn/NoBF families are compared with '
        'the mechanical images of the base family, every action is '
        'abstractly interpreted per alternative and its printed skeleton '
        'aligned with the production, and the LALR(1) table is rebuilt '
        '(ply as a library on the extracted tuples) to audit conflicts.')
    # "the parser accepts / builds" is a statement about a text alone only
    # if the result does not depend on what was parsed before (rules of
    # C15: per-call construction, no state kept between calls)
    from . import c15
    c15.rules(report, index)
    report.count('productions', len(g.productions))
    report.count('nonterminals', len(g.nonterminals))
    report.count('action outcomes', sum(1 for _ in A.all_outcomes()))
    r031_noin(report, g)
    r031_nobf(report, g)
    r031_siblings(report, g, A)
    r032_conflicts(report, g, A)
    r033(report, g, M.lexmodel)
    rule_skeleton(report, index, 'R03.4',
                  'tree shape: definition skeleton == production RHS')
    from .arrays import array_rule
    array_rule(report, index, M, 'R03.4e', bound=8, reference=True)
    constructor_rule(report, M, 'R03.9')
    rejection_rule(report, M, 'R03.10')
    report.trusted_base += [
        'CPython ast', 'ply.yacc LALR construction (library use on '
        'extracted productions)', 'transcription of ply.yacc.parse_grammar']
    # acceptance as a function of characters: the literal token
    # languages, automatic semicolon insertion and the reading of `/`
    # decide which texts are accepted and which tree is built; their rules
    # (C06 R06.5, C04, C05) are part of this property too
    from .litlang import literal_rule
    from . import c04, c05
    literal_rule(report, index, M, 'R06.5')
    c04.rules(report, index, tier)
    c05.rules(report, index, tier)
    report.not_decided += [
        'identifier / punctuator segmentation (C06 R06.2, R06.3)',
        'early errors (out of the property)']
    from . import c03_reference
    c03_reference.run(report, index, pairs=True, deep=(tier == 'thorough'))
