# -*- coding: utf-8 -*-
"""
Literal token languages == ECMA-262 5.1 lexical grammar (automata).

The NUMBER, STRING and REGEX rules of lexers/es5.py are compiled from their
regex source to DFAs over character-class atoms and compared - language
inclusion in both directions - with reference automata for

  NumericLiteral            7.8.3 (+ B.1.1 legacy octal)
  StringLiteral             7.8.4 (+ B.1.2 octal escapes; the
                            [lookahead not DecimalDigit] restrictions of
                            `\\0` and of the short octal escapes are not
                            modelled on either side)
  RegularExpressionLiteral  7.8.5 (flags: IdentifierPart*, taken from the
                            lexer's own identifier_part pattern)

Every difference is reported with a shortest witness; findings are keyed
by token, direction and the *shape* of the witness (letters, digits,
non-ASCII characters and line terminators collapsed to one representative
each) *at the point of divergence* (the last two characters read when one
automaton stops following the other), so that a different deviation of
the same token is a different finding.  Up to `MAXW` shapes per token and
direction are reported.
"""
from __future__ import annotations

from collections import deque

from engine.common import AnalysisError
from engine.lexauto import LexAutomata
from engine.srcindex import Unfoldable

LT = '\\n\\r\\u2028\\u2029'
NUM = (r'(?:0[xX][0-9a-fA-F]+|0[0-7]+'
       r'|(?:0|[1-9][0-9]*)\.[0-9]*(?:[eE][+-]?[0-9]+)?'
       r'|\.[0-9]+(?:[eE][+-]?[0-9]+)?'
       r'|(?:0|[1-9][0-9]*)(?:[eE][+-]?[0-9]+)?)')


def _str(q):
    return (q + r'(?:[^' + q + r'\\' + LT + r']'
            r'|\\(?:\r\n|[' + LT + r'])'
            r'|\\[^' + LT + r'0-9xu]'
            r'|\\x[0-9a-fA-F]{2}|\\u[0-9a-fA-F]{4}'
            r'|\\(?:[0-3][0-7]{0,2}|[4-7][0-7]?))*' + q)


STRING = '(?:%s|%s)' % (_str('"'), _str("'"))
_CLS = r'\[(?:[^' + LT + r'\]\\]|\\[^' + LT + r'])*\]'
REGEX_BODY = (r'/(?:[^' + LT + r'*\\/\[]|\\[^' + LT + r']|' + _CLS + r')'
              r'(?:[^' + LT + r'\\/\[]|\\[^' + LT + r']|' + _CLS + r')*/')
MAXW = 12


def shape(word):
    out = []
    for ch in word:
        o = ord(ch)
        if ch in '\n\r  ':
            out.append('<LT>')
        elif ch in '01234567':
            out.append('0')
        elif ch in '89':
            out.append('9')
        elif ch in 'abcdefABCDEF':
            out.append('a')
        elif ch.isalpha() and o < 128:
            out.append('z' if ch not in 'xuXU' else ch)
        elif o >= 128:
            out.append('<non-ASCII>')
        elif o < 32 or o == 127:
            out.append('<control>')
        else:
            out.append(ch)
    return ''.join(out)


def completion(d, q):
    """shortest atom word from state q to an accepting state of d"""
    seen = {q: None}
    dq = deque([q])
    while dq:
        x = dq.popleft()
        if x in d.accept:
            out = []
            while seen[x] is not None:
                prev, a = seen[x]
                out.append(a)
                x = prev
            return out[::-1]
        for a, t in d.trans[x].items():
            if t not in seen and t in d.live():
                seen[t] = (x, a)
                dq.append(t)
    return None


def differences(big, small, alpha, limit=MAXW):
    """shortest words of L(small) - L(big): one per shape, explored per
    atom at the point where `big` stops matching; at most limit shapes"""
    seen = {(big.start, small.start): None}
    dq = deque([(big.start, small.start)])
    found = {}

    def path(cur):
        atoms = []
        while seen[cur] is not None:
            prev, a = seen[cur]
            atoms.append(a)
            cur = prev
        return atoms[::-1]
    while dq:
        p, q = dq.popleft()
        if q in small.accept and p not in big.accept:
            w = alpha.word(path((p, q)))
            found.setdefault('...%s<end>' % shape(w[-2:]), w)
        for a, nq in sorted(small.trans[q].items()):
            if nq not in small.live():
                continue
            np_ = big.step(p, a)
            if np_ is None or np_ not in big.live():
                rest = completion(small, nq)
                if rest is not None:
                    head = alpha.word(path((p, q)) + [a])
                    w = head + alpha.word(rest)
                    found.setdefault('...%s' % shape(head[-2:]), w)
                continue
            if (np_, nq) not in seen:
                seen[(np_, nq)] = ((p, q), a)
                dq.append((np_, nq))
    out = {}
    for shp in sorted(found, key=lambda k: (len(found[k]), k))[:limit]:
        out[shp] = found[shp]
    return out


def literal_rule(report, index, M, rid):
    lm = M.lexmodel
    try:
        idpart = lm.module.fold_name('identifier_part', 'Lexer')
    except Unfoldable as e:
        raise AnalysisError('Lexer.identifier_part: %s' % e)
    if not isinstance(idpart, str):
        raise AnalysisError('Lexer.identifier_part is not a pattern')
    refs = {'NUMBER': (NUM, '7.8.3 NumericLiteral (+B.1.1)'),
            'STRING': (STRING, '7.8.4 StringLiteral (+B.1.2)'),
            'REGEX': (REGEX_BODY + idpart,
                      '7.8.5 RegularExpressionLiteral')}
    LA = LexAutomata(lm, extra_patterns=[(p, 0) for p, _ in refs.values()])
    r = report.rule(rid, 'literal token languages == ES5 lexical grammar '
                    '(automata inclusion both ways)', floor=6)
    for name, (ref, what) in sorted(refs.items()):
        rules = [x for x in lm.rules if x.type == name]
        if len(rules) != 1:
            raise AnalysisError('token rule %s: %d definitions' % (
                name, len(rules)))
        d = LA.dfa(rules[0])
        rd = LA.compile(ref).dfa
        for direction, big, small, text in (
                ('accepts', rd, d, 'the lexer accepts %r as one %s token, '
                 'which %s does not derive'),
                ('rejects', d, rd, 'ES5 derives %r as a %s (%s) but the '
                 'token rule does not match it')):
            diffs = differences(big, small, LA.alpha)
            if not diffs:
                r.ok('%s %s nothing outside ES5' % (name, direction)
                     if direction == 'accepts' else
                     '%s rejects nothing of ES5' % name)
                continue
            for shp, w in sorted(diffs.items()):
                r.fail('%s %s %s' % (name, direction, shp),
                       't_%s on %r' % (name, w), text % (w, name, what),
                       witness=w, where='lexers/es5.py:%s' % rules[0].name)
    return r
