# -*- coding: utf-8 -*-
"""
Run-length uniformity of walker.process_layouts.

The Format marks between two printed texts are buffered and handled as one
run; `{` and `}` are printed by the handlers of OpenBlock / CloseBlock, so
runs grow with the nesting depth and with the number of empty blocks in a
row.  The window and context tables of the other rules evaluate
process_layouts on the short runs a single definition boundary produces;
this rule evaluates it - from the current source, with the handlers of the
rule table under analysis - on the long runs that nesting produces, and
requires that length changes nothing:

  tokens   the non-blank text printed for  H + close*k  is that of
           H + close  followed by k-1 more `}`;  for k empty blocks in a
           row it is k times that of one;  for k nested empty blocks it is
           `{`*k `}`*k   (H: nothing, a statement terminator, an empty
           statement after a loop header).  In particular the decision to
           print or drop a `;` does not depend on how many `}` follow.
  level    (tables with an Indentator) the depth after the run is the
           depth before it plus #Indent - #Dedent of the run.

The opening / closing / separating mark sequences are read from the Block
definition.  k ranges over 1, 2, 3, 5, 9, 17 (runs of up to 120 chunks): a
threshold above that is not seen.
"""
from __future__ import annotations

from engine.common import AnalysisError
from engine.layout import process_run, RULETYPES_MOD
from engine.srcindex import Sym

KS = (1, 2, 3, 5, 9, 17)


def K(name):
    return Sym(RULETYPES_MOD, name)


def block_segments(D):
    """(opening marks, closing marks, separator marks) of the Block
    definition"""
    if 'Block' not in D.defs:
        raise AnalysisError('definition Block vanished')
    terms = [t for t in D.defs['Block']
             if not (t.kind == 'attr' and t.cls == 'CommentsAttr') and
             t.kind != 'struct']
    body = [i for i, t in enumerate(terms) if t.kind in ('join', 'attr')]
    if len(body) != 1:
        raise AnalysisError('Block definition has an unexpected shape')
    i = body[0]
    pre, post = terms[:i], terms[i + 1:]
    if not all(t.kind == 'layout' for t in pre + post):
        raise AnalysisError('Block prints something other than marks '
                            'around its children')
    sep = [t for t in (terms[i].seq or []) if t.kind == 'layout'] \
        if terms[i].kind == 'join' else []
    names = lambda ts: [t.name for t in ts]     # noqa: E731
    if 'OpenBlock' not in names(pre) or 'CloseBlock' not in names(post):
        raise AnalysisError('Block is not delimited by OpenBlock / '
                            'CloseBlock')
    return names(pre), names(post), names(sep)


def reset(handlers, level):
    objs = []
    for h in handlers.values():
        if h is not None and getattr(h, 'kind', None) == 'method' and \
                h.obj is not None and h.obj.has('_level'):
            h.obj._level = level
            objs.append(h.obj)
    return objs


def evaluate(T, handlers, marks, am, before='a', after=None, level=2,
             indent_str='  '):
    handled = {k.name for k in handlers if not isinstance(k, tuple)}
    run = [(K(m), 'Block') for m in marks if m in handled]
    objs = reset(handlers, level)
    try:
        out = process_run(T, handlers, run, before, after, am,
                          indent_str=indent_str)
        final = objs[0]._level if objs else None
    finally:
        reset(handlers, 0)
    return ''.join(out), final, len(run)


def squeeze(text):
    return ''.join(text.split())


def uniformity_rule(report, M, T, rid, tables):
    """tables: [(label, handlers)]"""
    D = M.definitions
    pre, post, sep = block_segments(D)
    rule = report.rule(rid, 'process_layouts treats long runs like short '
                       'ones: tokens printed, `;` decisions and the depth '
                       'do not depend on the number of blocks closed or '
                       'opened in one run (k up to %d)' % KS[-1], floor=40)
    longest = 0
    heads = [('no statement', []),
             ('a statement terminator', ['EndStatement']),
             ('an empty statement after a loop header',
              ['OptionalSpace', 'EndStatement']),
             ('an empty statement after `else`', ['Space', 'EndStatement'])]
    for label, handlers in tables:
        net = lambda ms: ms.count('Indent') - ms.count('Dedent')  # noqa
        base = {}
        for hname, head in heads:
            for after in (None, 'b'):
                ref, _, _ = evaluate(T, handlers, head + post, M.astmodel,
                                     after=after)
                base[(hname, after)] = squeeze(ref)
        one, _, _ = evaluate(T, handlers, pre + post, M.astmodel)
        one = squeeze(one)
        for k in KS:
            cases = []
            for hname, head in heads:
                for after in (None, 'b'):
                    cases.append((
                        '%s, then %d closing block(s), %s' % (
                            hname, k, 'end of output' if after is None
                            else 'more text'),
                        head + post * k, after,
                        base[(hname, after)] + '}' * (k - 1)))
            cases.append(('%d empty block(s) in a row' % k,
                          (pre + post + sep) * (k - 1) + pre + post, 'b',
                          one * k))
            cases.append(('%d nested empty block(s)' % k,
                          pre * k + post * k, 'b', None))
            for what, marks, after, want in cases:
                text, final, n = evaluate(T, handlers, marks, M.astmodel,
                                          after=after)
                longest = max(longest, n)
                got = squeeze(text)
                if want is None:
                    want = '{' * k + '}' * k
                    if '{' not in one:
                        want = one * 0 + got    # table does not print braces
                key = '%s: %s' % (label, what if k in (1, 2) else
                                  what.replace(str(k), 'many', 1))
                construct = 'process_layouts(%s) under %s' % (what, label)
                rule.check(got == want, key + ' (tokens)', construct,
                           'prints the tokens %r, expected %r as for the '
                           'short run: the output depends on the length of '
                           'the run of marks' % (
                               got[:60], want[:60]),
                           where='unparsers/walker.py:walk.process_layouts',
                           witness=' '.join(marks[:24]) + (
                               ' ...' if len(marks) > 24 else ''))
                if final is not None:
                    rule.check(final == 2 + net(marks), key + ' (depth)',
                               construct,
                               'leaves the depth at %+d, the marks of the '
                               'run change it by %+d' % (final - 2,
                                                         net(marks)),
                               where='unparsers/walker.py:walk.'
                               'process_layouts / handlers/indentation.py',
                               witness=' '.join(marks[:24]))
    report.count('%s: longest run evaluated (chunks)' % rid, longest)
    return rule
