# -*- coding: utf-8 -*-
"""
C14 - unparsing is pure: tree unchanged, printers reusable, shortcuts agree.

R14.1 no write site of the unparsing code has a base that may alias the
      tree or any other caller-owned object (root of the base expression is
      `self` of a per-call object, or an object created in the same
      activation)
R14.2 classes with mutable per-call state are instantiated only inside
      per-call code (the rule closures BaseUnparser.setup invokes on every
      __call__, methods of per-call objects, BaseUnparser.__call__)
R14.3 shared objects (module level values, class attributes, instances of
      rule / unparser classes that live across calls) are never written
      outside their constructor
R14.4 the convenience entry points are straight compositions of the
      explicit calls
"""
from __future__ import annotations

import ast

from engine.common import AnalysisError
from engine.effects import write_sites, iter_functions, own_nodes
from engine.srcindex import CallTerm, Sym, Unfoldable, need_function

SCOPE = [
    'calmjs.parse.unparsers.walker', 'calmjs.parse.unparsers.base',
    'calmjs.parse.unparsers.es5', 'calmjs.parse.ruletypes',
    'calmjs.parse.rules', 'calmjs.parse.handlers.core',
    'calmjs.parse.handlers.indentation',
    'calmjs.parse.handlers.obfuscation',
]
RULE_MODULES = ['calmjs.parse.rules', 'calmjs.parse.handlers.core',
                'calmjs.parse.handlers.indentation',
                'calmjs.parse.handlers.obfuscation']


# enclosing functions that are themselves run once per print call: state
# they create and their closures share lives for one call only
PER_CALL_OWNERS = set()


def class_index(mods):
    out = {}
    for m in mods:
        for name, node in m.classes.items():
            out[name] = (m, node)
    return out


def stateful_classes(mods, sites):
    """classes one of whose methods other than __init__/__new__ writes to
    `self` (or advances an iterator stored on self)"""
    out = {}
    for s in sites:
        if s.cls and s.rootkind == 'self' and s.func not in (
                '__init__', '__new__'):
            out.setdefault(s.cls, []).append(s)
    # subclasses inherit statefulness
    classes = class_index(mods)
    changed = True
    while changed:
        changed = False
        for name, (m, node) in classes.items():
            if name in out:
                continue
            for b in node.bases:
                if isinstance(b, ast.Name) and b.id in out:
                    out[name] = out[b.id]
                    changed = True
    return out


def per_call_functions(index):
    """(module name, function name) of the closures that rule factories
    return, and of module level rule functions"""
    out = set()
    for dotted in RULE_MODULES:
        m = index.need(dotted)
        for name, f in m.functions.items():
            inner = {st.name for st in f.body
                     if isinstance(st, ast.FunctionDef)}
            for st in f.body:
                if isinstance(st, ast.Return) and isinstance(
                        st.value, ast.Name):
                    if st.value.id in inner:
                        out.add((dotted, st.value.id))
                    elif st.value.id in m.functions or \
                            st.value.id in m.imports:
                        out.add((None, st.value.id))
    return out


def run(report, index, tier):
    report.explanation = (
        'Effect analysis of the unparsing code: every write site (attribute '
        '/ subscript store, mutator call, setattr) is classified by the '
        'root of its base expression; per-call state is required to be '
        'created per call; the shortcut entry points are checked to be '
        'straight compositions.')
    rules(report, index)
    r44(report, index)


def rules(report, index):
    """R14.1 - R14.3: the printers keep no state across (or shared
    between nested) invocations; also the premise under which the printer
    properties (C01, C02, C13, C20) may model one print call as a function
    of the tree and the configuration"""
    from .c15 import canary
    canary()
    mods = [index.need(d) for d in SCOPE]
    sites = []
    for m in mods:
        sites.extend(write_sites(m))
    sites = [s for s in sites if s.kind != 'next']
    r1 = report.rule('R14.1', 'no write through a value that may alias the '
                     'tree / caller data', floor=50)
    r3 = report.rule('R14.3', 'shared objects are written only in their '
                     'constructor', floor=10)
    all_sites = []
    for m in mods:
        all_sites.extend(write_sites(m))
    stateful = stateful_classes(mods, all_sites)
    report.count('write sites', len(sites))
    report.count('stateful (per-call) classes', len(stateful))
    classes = class_index(mods)
    for s in sites:
        construct = '%s in %s' % (s.text, s.where.split(' (line')[0])
        key = '%s:%s%s:%s' % (s.module.split('.')[-1],
                              (s.cls + '.') if s.cls else '', s.func, s.text)
        if s.closure and (s.module, s.closure) not in PER_CALL_OWNERS:
            r3.fail(key, construct,
                    'writes to `%s`, an object created by the enclosing '
                    'function %s and captured by %s, which outlives that '
                    'activation: the object persists between print calls'
                    % (s.root, s.closure, s.func), where=s.where)
        elif s.rootkind == 'fresh':
            r1.ok(construct, 'base created in the same activation')
        elif s.rootkind == 'self':
            r1.ok(construct, 'receiver state')
            if s.cls in stateful or s.func in ('__init__', '__new__'):
                r3.ok(construct)
            else:
                r3.fail(key, construct,
                        'class %s is not a per-call object (no other method '
                        'mutates it) but %s writes %s outside __init__: '
                        'instances are shared across print calls' % (
                            s.cls, s.func, s.text), where=s.where)
        elif s.rootkind == 'global':
            r3.fail(key, construct,
                    'writes to the module-level / class-level object `%s`, '
                    'which is shared by every print call' % s.root,
                    where=s.where)
        else:
            r1.fail(key, construct,
                    'the base of this write (`%s`) is received from the '
                    'caller: it may be a node of the tree being printed or '
                    'a shared table' % s.root, where=s.where)

    from .c15 import shared_class_mutables
    seen_cm = set()
    for cname, attr, s in shared_class_mutables(mods):
        if (cname, attr) in seen_cm:
            continue
        seen_cm.add((cname, attr))
        r3.fail('%s.%s shared mutable class attribute' % (cname, attr),
                '%s in %s.%s' % (s.text, s.cls, s.func),
                '`%s` is a mutable object created once in the class body '
                'of %s and not rebound by the constructor, but %s.%s '
                'mutates it through self: every instance, in every print '
                'call, shares it' % (attr, cname, s.cls, s.func),
                where=s.where)
    # R14.2 ---------------------------------------------------------------
    r2 = report.rule('R14.2', 'per-call state is created per call', floor=5)
    percall = per_call_functions(index)
    report.count('per-call rule closures', len(percall))
    inst_sites = 0
    for m in mods:
        # module / class level instantiation
        for st in ast.walk(m.tree):
            pass
        for clsname, fdef, chain in iter_functions(m):
            owner = clsname
            for c, f in reversed(chain):
                if owner is None and c:
                    owner = c
            for n in own_nodes(fdef):
                if not isinstance(n, ast.Call):
                    continue
                fn = n.func
                name = fn.id if isinstance(fn, ast.Name) else None
                if name is None and isinstance(fn, ast.Call) and isinstance(
                        fn.func, ast.Name) and fn.func.id == 'type':
                    continue    # type(self)(...) inside a method
                if name not in stateful:
                    continue
                inst_sites += 1
                construct = '%s(...) in %s:%s%s' % (
                    name, m.name.split('.')[-1],
                    (owner + '.') if owner else '', fdef.name)
                innermost = not any(isinstance(x, ast.FunctionDef)
                                    for x in ast.walk(fdef) if x is not fdef)
                ok = False
                why = ''
                if owner in stateful:
                    ok, why = True, 'method of a per-call object'
                elif (m.name, fdef.name) in percall and chain:
                    ok, why = True, 'rule closure invoked on every call'
                elif owner == 'BaseUnparser' and fdef.name == '__call__':
                    ok, why = True, 'BaseUnparser.__call__'
                r2.check(ok, construct, construct,
                         '%s keeps mutable state across its handler calls '
                         '(%s ...) but is instantiated in %s, which is not '
                         'run once per print call: the state would be '
                         'shared between calls of the same printer' % (
                             name, ', '.join(sorted(set(
                                 x.text for x in stateful[name]))[:3]),
                             fdef.name),
                         where='%s:%s (line %s)' % (m.name, fdef.name,
                                                    n.lineno), okdetail=why)
        # instantiation at module or class level
        for st in m.tree.body:
            nodes = [st] if not isinstance(st, ast.ClassDef) else [
                x for x in st.body if not isinstance(x, ast.FunctionDef)]
            if isinstance(st, (ast.FunctionDef, ast.ClassDef)) and \
                    not isinstance(st, ast.ClassDef):
                continue
            for top in nodes:
                for n in ast.walk(top):
                    if isinstance(n, ast.Call) and isinstance(
                            n.func, ast.Name) and n.func.id in stateful:
                        inst_sites += 1
                        r2.fail('%s at import time in %s' % (
                            n.func.id, m.name), '%s(...) at module/class '
                            'level of %s' % (n.func.id, m.name),
                            'a per-call object is created once at import '
                            'time and shared by all calls',
                            where='%s (line %s)' % (m.name, n.lineno))
    report.count('instantiation sites of stateful classes', inst_sites)
    # what a printer constructor hands to a rule factory lives as long as
    # the printer: a one-shot iterator is used up by the first print call
    from .c07 import ONE_SHOT_FACTORIES
    um = index.need('calmjs.parse.unparsers.es5')
    nargs = 0
    printer_classes = set()
    for mname in ('calmjs.parse.unparsers.base', 'calmjs.parse.unparsers.es5',
                  'calmjs.parse.unparsers.extractor'):
        pm_ = index.module(mname)
        if pm_ is not None:
            printer_classes |= {c for c in pm_.classes if 'Unparser' in c}
    if 'Unparser' not in printer_classes:
        raise AnalysisError('the Unparser classes vanished')
    for fname, fdef in sorted(um.functions.items()):
        local = {}
        for n in ast.walk(fdef):
            if isinstance(n, ast.Assign) and len(n.targets) == 1 and \
                    isinstance(n.targets[0], ast.Name):
                local.setdefault(n.targets[0].id, []).append(n.value)

        def is_oneshot(arg, depth=0):
            if isinstance(arg, ast.GeneratorExp):
                return True
            if isinstance(arg, ast.Call) and ast.unparse(
                    arg.func).split('.')[-1] in ONE_SHOT_FACTORIES:
                return True
            if isinstance(arg, ast.IfExp):
                return is_oneshot(arg.body, depth) or is_oneshot(
                    arg.orelse, depth)
            if isinstance(arg, ast.Name) and depth < 3:
                return any(is_oneshot(v, depth + 1)
                           for v in local.get(arg.id, []))
            return False
        for n in ast.walk(fdef):
            # the rule factories, and the printer classes themselves (their
            # `rules` / handler arguments are walked again by every call of
            # the printer)
            if not (isinstance(n, ast.Call) and (ast.unparse(
                    n.func).startswith('rules.') or ast.unparse(
                    n.func).split('.')[-1] in printer_classes)):
                continue
            for arg in list(n.args) + [k.value for k in n.keywords]:
                nargs += 1
                oneshot = is_oneshot(arg)
                r2.check(not oneshot, 'argument of %s in %s re-iterable: %s'
                         % (ast.unparse(n.func), fname,
                            ast.unparse(arg)[:40]),
                         '%s(... %s ...) in unparsers.es5.%s' % (
                             ast.unparse(n.func), ast.unparse(arg)[:60],
                             fname),
                         'a one-shot iterator is handed to a rule factory '
                         'when the printer is built; the first print call '
                         'uses it up, so later calls of the same printer '
                         'behave differently',
                         where='unparsers/es5.py:%s' % fname)
    report.count('arguments of rule factories in printer constructors',
                 nargs)
    # BaseUnparser.__call__ builds its machinery per invocation
    base = index.need('calmjs.parse.unparsers.base')
    call = need_function(base, '__call__', 'BaseUnparser')
    text = [ast.unparse(s) for s in call.body]
    setup_i = [i for i, t in enumerate(text) if 'self.setup()' in t]
    disp_i = [i for i, t in enumerate(text) if 'self.dispatcher_cls(' in t]
    walk_i = [i for i, t in enumerate(text) if 'self.walk(' in t]
    r2.check(bool(setup_i and disp_i and walk_i) and
             setup_i[0] < disp_i[0] < walk_i[0],
             'BaseUnparser.__call__ order', 'BaseUnparser.__call__',
             '__call__ does not call setup(), build a new dispatcher and '
             'then walk, in this order, on every invocation',
             where='unparsers/base.py:BaseUnparser.__call__')
    setup = need_function(base, 'setup', 'BaseUnparser')
    rule_calls = [n for n in ast.walk(setup) if isinstance(n, ast.For) and
                  ast.unparse(n.iter) == 'self.rules']
    ok = False
    for loop in rule_calls:
        tgt = ast.unparse(loop.target)
        if any(isinstance(n, ast.Call) and ast.unparse(n.func) == tgt
               for n in ast.walk(loop)):
            ok = True
    r2.check(ok, 'setup invokes rules', 'BaseUnparser.setup',
             'setup() does not invoke every rule factory (for rule in '
             'self.rules: rule())',
             where='unparsers/base.py:BaseUnparser.setup')



def r44(report, index):
    r4 = report.rule('R14.4', 'shortcut entry points are straight '
                     'compositions', floor=4)
    fac = index.need('calmjs.parse.factory')
    if 'SRFactory' not in fac.classes:
        raise AnalysisError('factory.SRFactory vanished')
    init = need_function(fac, '__init__', 'SRFactory')
    strfn = [n for n in init.body if isinstance(n, ast.FunctionDef) and
             n.name == '__str__']
    ok = bool(strfn) and len(strfn[0].body) == 1 and ast.unparse(
        strfn[0].body[0]) == 'return %s(%s)' % (
            init.args.args[2].arg, strfn[0].args.args[0].arg)
    r4.check(ok, 'SRFactory.__str__', 'SRFactory.__str__',
             '__str__ of the generated node classes is not `return '
             'str_(self)`', where='factory.py:SRFactory.__init__')
    pm = index.need('calmjs.parse.parsers.es5')
    ok = False
    try:
        v = pm.fold_name('asttypes')
        # AstTypesFactory = partial(SRFactory, asttypes): the folded call
        # is SRFactory(<asttypes module>, pretty_print, ReprWalker())
        ok = isinstance(v, CallTerm) and v.func.name == 'SRFactory' \
            and len(v.args) >= 2 and isinstance(v.args[1], Sym) and \
            v.args[1].name == 'pretty_print' and \
            v.args[1].module == 'calmjs.parse.unparsers.es5' and \
            isinstance(v.args[0], Sym) and \
            v.args[0].module == 'calmjs.parse.asttypes'
    except Unfoldable:
        pass
    r4.check(ok, 'asttypes factory', 'parsers/es5.py: asttypes = '
             'AstTypesFactory(pretty_print, ...)',
             'str(node) is not bound to unparsers.es5.pretty_print',
             where='parsers/es5.py')
    try:
        v = fac.fold_name('AstTypesFactory')
        ok = isinstance(v, CallTerm) and v.func.name == 'partial' and \
            [getattr(a, 'name', None) for a in v.args][:1] == ['SRFactory']
    except Unfoldable:
        ok = False
    r4.check(ok, 'AstTypesFactory partial', 'factory.AstTypesFactory',
             'AstTypesFactory is not partial(SRFactory, asttypes)')
    raw = need_function(fac, 'RawParserUnparserFactory')
    bu = [n for n in raw.body if isinstance(n, ast.FunctionDef) and
          n.name == 'build_unparse']
    ok = False
    if bu:
        fparam = bu[0].args.args[0].arg
        inner = [n for n in bu[0].body if isinstance(n, ast.FunctionDef)]
        if inner:
            un = inner[0]
            src = un.args.args[1].arg
            assigns = {ast.unparse(s.targets[0]): s.value for s in un.body
                       if isinstance(s, ast.Assign)}
            rets = [s for s in un.body if isinstance(s, ast.Return)]
            if rets and isinstance(rets[0].value, ast.Call) and \
                    ast.unparse(rets[0].value.func) == fparam and \
                    rets[0].value.args and isinstance(
                        rets[0].value.args[0], ast.Name):
                nodevar = rets[0].value.args[0].id
                star = [a for a in rets[0].value.args[1:]
                        if isinstance(a, ast.Starred)]
                dstar = [k for k in rets[0].value.keywords if k.arg is None]
                val = assigns.get(nodevar)
                ok = (bool(star) and bool(dstar) and isinstance(
                    val, ast.Call) and ast.unparse(val.func) ==
                    raw.args.args[1].arg and val.args and
                    ast.unparse(val.args[0]) == src)
    r4.check(ok, 'RawParserUnparserFactory.unparse',
             'RawParserUnparserFactory.build_unparse',
             'the helper attribute is not `f(parse_callable(source, ...), '
             '*a, **kw)`', where='factory.py:RawParserUnparserFactory')
    init_mod = index.need('calmjs.parse')
    ok = False
    try:
        v = init_mod.fold_name('es5')
        ok = isinstance(v, CallTerm) and \
            v.func.name == 'ParserUnparserFactory' and \
            tuple(v.args) == ('es5', 'pretty_print', 'minify_print')
    except Unfoldable:
        pass
    r4.check(ok, 'es5 helper', "calmjs.parse.es5 = ParserUnparserFactory("
             "'es5', 'pretty_print', 'minify_print')",
             'the es5 helper is not built from the es5 parser and the '
             'pretty_print / minify_print functions', where='__init__.py')
    # ParserUnparserFactory evaluated from its source: which callables
    # reach RawParserUnparserFactory
    puf = need_function(fac, 'ParserUnparserFactory')
    from engine.absint import Evaluator, Obj, Raised
    got = []

    def fake_import(name):
        return Obj('module', parse=('callable', name + '.parse'),
                   pretty_print=('callable', name + '.pretty_print'),
                   minify_print=('callable', name + '.minify_print'))

    def fake_raw(*a, **k):
        got.append((a, k))
        return 'the factory object'
    ev = Evaluator(fac, None, {}, {
        'import_module': fake_import, 'RawParserUnparserFactory': fake_raw,
        'getattr': lambda o, n, *d: getattr(o, n) if o.has(n) else d[0],
        'len': len})
    ev.inline_module_functions = False
    try:
        ret, _ = ev.call(puf, ['es5', 'pretty_print', 'minify_print'])
    except Raised as e:
        ret = 'raises %s' % e.text
    want = (('es5', ('callable', 'calmjs.parse.parsers.es5.parse'),
             ('callable', 'calmjs.parse.unparsers.es5.pretty_print'),
             ('callable', 'calmjs.parse.unparsers.es5.minify_print')), {})
    ok = ret == 'the factory object' and len(got) == 1 and (
        tuple(got[0][0]), got[0][1]) == want
    r4.check(ok, 'ParserUnparserFactory', 'factory.ParserUnparserFactory('
             "'es5', 'pretty_print', 'minify_print')",
             'the factory does not hand parsers.<name>.parse and '
             'unparsers.<name>.<attr> to RawParserUnparserFactory: %r '
             '(returns %r)' % (got, ret),
             where='factory.py:ParserUnparserFactory')
    report.not_decided.append(
        'equality of the produced fragment sequences as values (runtime '
        'data); the argument is: no state outlives a call (R14.2/R14.3) and '
        'nothing reachable from the tree is written (R14.1)')
    report.trusted_base += ['CPython ast', 'write-site classification '
                            '(engine/effects.py)']
