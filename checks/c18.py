# -*- coding: utf-8 -*-
"""
C18 - stream helpers: same output, valid map link, no leaked streams.

The closing discipline is a pairing property over all paths:

R18.1 io.read : the stream obtained from a factory is closed exactly once
      on every exit (normal or exceptional) and never when it was passed
      in open; syntax errors are re-raised with the stream name; the tree
      records the stream name
R18.2 io.write: every stream acquisition happens inside the try whose
      finally runs the cleanup; a closer is registered iff the factory was
      called; cleanup runs exactly once and closes each registered stream
      once; no exception is swallowed

The "valid map link" clause has a part that is a pure function of path
strings and is decided by abstract evaluation on a table:

R18.3 utils.normrelpath(base, target) designates `target` relative to the
      directory of `base` for absolute names (and returns `target`
      unchanged otherwise), and sourcemap.verify_write_sourcemap_args
      relates output, map and sources through it in the right direction:
      joining the directory of the referring file with the computed
      reference gives back the referred file
"""
from __future__ import annotations

import ast
import posixpath

from engine.common import AnalysisError
from engine.absint import Evaluator, Obj, Raised
from engine.srcindex import need_function

IO_MOD = 'calmjs.parse.io'


def calls_in(node, pred):
    return [n for n in ast.walk(node) if isinstance(n, ast.Call) and pred(n)]


def swallowing_handlers(trynode):
    """except handlers of a try that may complete without raising"""
    out = []
    for h in trynode.handlers:
        last = h.body[-1] if h.body else None
        if not isinstance(last, ast.Raise):
            out.append(h)
    return out


def jumps_in(stmts):
    out = []
    for st in stmts:
        for n in ast.walk(st):
            if isinstance(n, (ast.Return, ast.Break, ast.Continue)):
                out.append(n)
    return out


PATH_FUNCS = ('isabs', 'normpath', 'dirname', 'relpath', 'join', 'basename',
              'abspath', 'commonprefix', 'split', 'splitext')


def path_evaluator(module):
    fns = {n: getattr(posixpath, n) for n in PATH_FUNCS}
    fns['map'] = lambda f, xs: [f[1](x) if isinstance(f, tuple) else f(x)
                                for x in xs]
    fns['all'] = all
    fns['any'] = any

    def py_getattr(obj, name, *default):
        if isinstance(obj, Obj):
            if obj.has(name):
                return getattr(obj, name)
            if default:
                return default[0]
            raise AttributeError(name)
        return getattr(obj, name, *default)
    fns['getattr'] = py_getattr
    ev = Evaluator(module, functions=fns, max_steps=100000)
    ev.constants.update({'sep': '/', 'pardir': '..', 'curdir': '.',
                         'logger': Obj('Logger', warning=(
                             'pyfunc', lambda *a, **k: None))})
    ev.inline_module_functions = True
    return ev


def designates(referrer, ref, referred):
    """does `ref`, read relative to the directory of `referrer`, name
    `referred`?"""
    if not isinstance(ref, str):
        return False
    return posixpath.normpath(posixpath.join(
        posixpath.dirname(referrer), ref)) == posixpath.normpath(referred)


def r183(report, index):
    r3 = report.rule('R18.3', 'relative references between output, map and '
                     'sources designate the right file (decision table)',
                     floor=30)
    utils = index.need('calmjs.parse.utils')
    nrp = need_function(utils, 'normrelpath')
    dirs = ['/p/build', '/p/build-maps', '/p/buildx', '/p/build/sub', '/p',
            '/q/x', '/p/build.src', '/', '/p/./build/../build']
    n = 0
    for bd in dirs:
        for td in dirs:
            base = posixpath.join(bd, 'out.js')
            target = posixpath.join(td, 'out.js.map')
            ev = path_evaluator(utils)
            try:
                got, _ = ev.call(nrp, [base, target])
            except Raised as e:
                got = 'raises %s' % e.text
            n += 1
            r3.check(designates(base, got, target),
                     'normrelpath %s -> %s' % (bd, td),
                     'normrelpath(%r, %r)' % (base, target),
                     'returns %r, which read relative to the directory of '
                     '%s does not name %s' % (got, base, target),
                     where='utils.py:normrelpath')
    for base, target in (('out.js', 'out.js.map'), ('/p/out.js', 'm.map'),
                         ('rel/out.js', '/p/m.map')):
        ev = path_evaluator(utils)
        got, _ = ev.call(nrp, [base, target])
        r3.check(got == target, 'normrelpath relative %s %s' % (base, target),
                 'normrelpath(%r, %r)' % (base, target),
                 'returns %r; names that are not both absolute are '
                 'documented to be returned unchanged' % (got,),
                 where='utils.py:normrelpath')
    sm = index.need('calmjs.parse.sourcemap')
    vw = need_function(sm, 'verify_write_sourcemap_args')
    for out, mp, srcs in (
            ('/p/build/out.js', '/p/build/out.js.map', ['/p/src/a.js']),
            ('/p/build/out.js', '/p/build-maps/out.js.map',
             ['/p/build.src/a.js', '/p/build/b.js']),
            ('/p/build/sub/out.js', '/p/maps/o.map', ['/q/a.js']),
            ('/p/out.js', '/p/build/deep/er/o.map', ['/p/out.src.js'])):
        ev = path_evaluator(sm)
        # normrelpath lives in utils: evaluate it in its own module
        ev.functions['normrelpath'] = lambda b, t: path_evaluator(
            utils).call(nrp, [b, t])[0]
        try:
            got, _ = ev.call(vw, [[], list(srcs), [], Obj('Stream', name=out),
                                  Obj('Stream', name=mp)])
            (fname, _m, gsrcs, _n), url = got
        except Raised as e:
            fname, gsrcs, url = 'raises %s' % e.text, [], None
        except (TypeError, ValueError) as e:
            raise AnalysisError('verify_write_sourcemap_args returns an '
                                'unexpected shape: %s' % e)
        ok = designates(out, url, mp) and designates(mp, fname, out) and \
            len(gsrcs) == len(srcs) and all(
                designates(mp, g, s_) for g, s_ in zip(gsrcs, srcs))
        r3.check(ok, 'write args %s | %s' % (out, mp),
                 'verify_write_sourcemap_args(output=%s, map=%s, sources=%s)'
                 % (out, mp, srcs),
                 'yields sourceMappingURL %r, file %r, sources %r: at least '
                 'one of them does not designate the file it stands for '
                 'relative to the file that contains it' % (url, fname,
                                                           gsrcs),
                 where='sourcemap.py:verify_write_sourcemap_args')
    return r3


def r184(report, index):
    """the inline (data URL) form of the link decodes to the source map the
    lower-level API yields; a text that cannot be encoded fails loudly"""
    import base64
    import json
    r4 = report.rule('R18.4', 'the inline sourceMappingURL decodes, with '
                     'the declared charset, to the source map itself '
                     '(decision table)', floor=6)
    sm = index.need('calmjs.parse.sourcemap')
    utils = index.need('calmjs.parse.utils')
    ws = need_function(sm, 'write_sourcemap')
    nrp = need_function(utils, 'normrelpath')
    cases = [
        ('ascii names, utf8 stream', 'utf8', ['alpha', 'beta']),
        ('non-ASCII names, utf8 stream', 'utf8', ['h\u00e9llo', '\u4f60']),
        ('non-ASCII names, stream without encoding', None, ['\u00e9']),
        ('latin-1 names, latin-1 stream', 'latin-1', ['\u00e9t\u00e9']),
        ('names outside the stream charset', 'ascii', ['h\u00e9llo']),
        ('names outside latin-1', 'latin-1', ['\u4f60\u597d']),
    ]
    for label, enc, names in cases:
        written = []
        stream = Obj('Stream', name='/p/out.js', writelines=(
            'pyfunc', lambda xs: written.extend(xs)), write=(
            'pyfunc', lambda x: written.append(x)))
        if enc is not None:
            stream.encoding = enc
        ev = path_evaluator(sm)
        ev.functions['normrelpath'] = lambda b, t: path_evaluator(
            utils).call(nrp, [b, t])[0]
        ev.functions['json.dumps'] = json.dumps
        ev.functions['base64.b64encode'] = base64.b64encode
        ev.functions['encode_mappings'] = lambda m: ''
        outcome = None
        try:
            ev.call(ws, [[], ['/p/src.js'], list(names), stream, stream])
        except Raised as e:
            outcome = 'raises %s' % e.text
        except AnalysisError:
            raise
        except UnicodeError as e:
            outcome = 'raises %s' % type(e).__name__
        text = ''.join(x for x in written if isinstance(x, str))
        encodable = True
        try:
            json.dumps(names, ensure_ascii=False).encode(enc or 'utf8')
        except UnicodeError:
            encodable = False
        if not encodable:
            ok = outcome is not None and 'Unicode' in outcome and \
                'sourceMappingURL' not in text
            r4.check(ok, label, 'write_sourcemap inline, %s' % label,
                     'the map cannot be represented in the charset %r of '
                     'the stream; instead of the failure propagating, the '
                     'helper wrote %r (%s)' % (enc, text[:80], outcome),
                     where='sourcemap.py:write_sourcemap')
            continue
        got = None
        marker = 'sourceMappingURL=data:application/json;base64;charset='
        if outcome is None and marker in text:
            head, _, payload = text.partition(marker)[2].partition(',')
            try:
                got = json.loads(base64.b64decode(payload).decode(head))
            except Exception as e:
                got = 'undecodable (%s)' % type(e).__name__
        ok = isinstance(got, dict) and got.get('names') == names and \
            got.get('sources') == ['src.js'] and got.get('version') == 3
        r4.check(ok, label, 'write_sourcemap inline, %s' % label,
                 'the data URL decodes to %r (outcome: %s); expected the '
                 'source map with names %r' % (got, outcome, names),
                 where='sourcemap.py:write_sourcemap')
    return r4


def run(report, index, tier):
    report.explanation = (
        'Pairing analysis of io.read and io.write over the statement '
        'structure with exception edges: acquisition sites vs the try/'
        'finally that releases them, conditions of registration vs '
        'conditions of acquisition, and absence of exception swallowing.')
    m = index.need(IO_MOD)
    r1 = report.rule('R18.1', 'io.read closes a factory-made stream exactly '
                     'once on every path, never a passed-in one', floor=8)
    read = need_function(m, 'read')
    body = [s for s in read.body if not (isinstance(s, ast.Expr) and
                                         isinstance(s.value, ast.Constant))]
    stream_param = read.args.args[1].arg
    # acquisition
    acq = None
    for i, st in enumerate(body):
        if isinstance(st, ast.Assign) and isinstance(
                st.value, ast.IfExp) and ast.unparse(st.value.test) == \
                'callable(%s)' % stream_param and ast.unparse(
                st.value.body) == '%s()' % stream_param and ast.unparse(
                st.value.orelse) == stream_param:
            acq = (i, st.targets[0].id)
    if acq is None:
        raise AnalysisError(
            'io.read: the acquisition `source = stream() if callable('
            'stream) else stream` was not found')
    ai, src = acq
    tries = [(i, st) for i, st in enumerate(body) if isinstance(st, ast.Try)]
    r1.check(len(tries) == 1 and tries[0][0] == ai + 1,
             'read: try follows acquisition', 'io.read',
             'the acquisition is not immediately followed by the single '
             'try statement that protects the stream (an exception in '
             'between leaks the stream)', where='io.py:read')
    if len(tries) != 1:
        raise AnalysisError('io.read: expected exactly one try statement')
    ti, tr = tries[0]
    r1.check(ti > ai, 'read: acquisition outside try', 'io.read',
             'the stream factory is called inside the try: if it raises, '
             'the finally refers to an unbound stream',
             where='io.py:read')
    fin = tr.finalbody
    closes = [c for st in fin for c in calls_in(
        st, lambda n: ast.unparse(n.func) == '%s.close' % src)]
    guard_ok = (len(fin) == 1 and isinstance(fin[0], ast.If) and
                ast.unparse(fin[0].test) == 'callable(%s)' % stream_param
                and not fin[0].orelse and len(closes) == 1 and
                closes[0] in [n for n in ast.walk(fin[0])])
    r1.check(guard_ok, 'read: finally closes iff callable', 'io.read',
             'the finally clause is not `if callable(stream): '
             'source.close()` with exactly one close: found %r' % (
                 [ast.unparse(s) for s in fin],), where='io.py:read')
    other_closes = [c for st in body for c in calls_in(
        st, lambda n: isinstance(n.func, ast.Attribute) and
        n.func.attr == 'close') if c not in closes]
    r1.check(not other_closes, 'read: single close site', 'io.read',
             'the stream is closed at %d further site(s): a double close '
             'or a close of a passed-in stream' % len(other_closes),
             where='io.py:read')
    r1.check(not jumps_in(fin), 'read: no jump in finally', 'io.read',
             'return/break/continue inside finally swallows exceptions',
             where='io.py:read')
    # uses of the stream and of the parser are inside the try body
    risky = []
    for i, st in enumerate(body):
        if i in (ai, ti):
            continue
        for n in ast.walk(st):
            if isinstance(n, ast.Call):
                risky.append((i, ast.unparse(n)))
    r1.check(not risky, 'read: calls only inside try', 'io.read',
             'calls outside the protected region: %s' % risky,
             where='io.py:read')
    # error re-labelling
    handlers = []
    for n in ast.walk(tr):
        if isinstance(n, ast.Try):
            handlers.extend(n.handlers)
    relabel = [h for h in handlers if h.type is not None and
               'ECMASyntaxError' in ast.unparse(h.type)]
    ok = False
    for h in relabel:
        last = h.body[-1]
        if isinstance(last, ast.Raise) and last.exc is not None:
            t = ast.unparse(last.exc)
            ok = t.startswith('type(%s)(' % h.name) and 'str(%s)' % h.name \
                in t
    r1.check(ok, 'read: syntax error re-raised with name', 'io.read',
             'the ECMASyntaxError handler does not re-raise type(e)(...) '
             'carrying the original message and the stream name',
             where='io.py:read')
    for n in ast.walk(tr):
        if isinstance(n, ast.Try):
            sw = swallowing_handlers(n)
            r1.check(not sw, 'read: no swallowing handler', 'io.read',
                     'an except clause can complete without raising: the '
                     'failure would not propagate', where='io.py:read')
            for h in n.handlers:
                r1.check(h.type is not None, 'read: no bare except',
                         'io.read', 'bare except clause', where='io.py:read')
    # R18.3 sourcepath from the stream name
    t = ast.unparse(read)
    name_var = None
    for n in ast.walk(read):
        if isinstance(n, ast.Assign) and ast.unparse(n.value) == \
                "getattr(%s, 'name', None)" % src:
            name_var = n.targets[0].id
    after = body[ti + 1:]
    ok = name_var is not None and any(
        isinstance(st, ast.Assign) and ast.unparse(st.targets[0]).endswith(
            '.sourcepath') and ast.unparse(st.value) == name_var
        for st in after)
    r1.check(ok, 'read: sourcepath = stream name', 'io.read',
             'the tree does not record getattr(source, "name", None) as '
             'its sourcepath', where='io.py:read')

    # R18.2 ---------------------------------------------------------------
    r2 = report.rule('R18.2', 'io.write acquires inside try/finally, '
                     'registers closers iff it opened, cleans up once',
                     floor=8)
    write = need_function(m, 'write')
    inner = {st.name: st for st in write.body
             if isinstance(st, ast.FunctionDef)}
    closers = [st for st in write.body if isinstance(st, ast.Assign) and
               isinstance(st.value, ast.List) and not st.value.elts]
    # find the acquiring helper: the inner function that calls its
    # argument and appends `.close` to a list
    getter = cleaner = None
    for name, f in inner.items():
        t = ast.unparse(f)
        if '.close)' in t and 'append' in t:
            getter = f
        elif 'reversed(' in t or 'close()' in t:
            cleaner = f
    if getter is None or cleaner is None:
        raise AnalysisError('io.write: get_stream / cleanup helpers not '
                            'recognised')
    gp = getter.args.args[0].arg
    # get_stream shape
    ifs = [st for st in getter.body if isinstance(st, ast.If)]
    ok = False
    detail = 'get_stream is not `if callable(stream): result = stream(); ' \
        'closer.append(result.close) else: result = stream`'
    if len(ifs) == 1 and ast.unparse(ifs[0].test) == 'callable(%s)' % gp:
        tb = [ast.unparse(s) for s in ifs[0].body]
        eb = [ast.unparse(s) for s in ifs[0].orelse]
        made = [s for s in ifs[0].body if isinstance(s, ast.Assign) and
                ast.unparse(s.value) == '%s()' % gp]
        if made:
            var = made[0].targets[0].id
            reg = [s for s in tb if s.endswith(
                '.append(%s.close)' % var)]
            reg_else = [s for s in eb if '.append(' in s or '.close' in s]
            ok = len(reg) == 1 and not reg_else and any(
                s == '%s = %s' % (var, gp) for s in eb)
            # registration right after creation: nothing raising between
            idx_made = ifs[0].body.index(made[0])
            idx_reg = tb.index(reg[0]) if reg else -1
            if ok and idx_reg != idx_made + 1:
                ok = False
                detail = 'the closer is not registered immediately after ' \
                    'the stream is created'
            rets = [s for s in getter.body if isinstance(s, ast.Return)]
            if ok and not (rets and ast.unparse(rets[-1].value) == var):
                ok = False
                detail = 'get_stream does not return the stream'
    r2.check(ok, 'write: get_stream registers iff it opened',
             'io.write.get_stream', detail, where='io.py:write')
    # cleanup shape: each registered closer called once
    loops = [st for st in cleaner.body if isinstance(st, ast.For)]
    ok = len(cleaner.body) == 1 and len(loops) == 1 and \
        len(loops[0].body) == 1 and ast.unparse(loops[0].body[0]) == \
        '%s()' % ast.unparse(loops[0].target) and not loops[0].orelse
    if ok:
        it = ast.unparse(loops[0].iter)
        lst = closers[0].targets[0].id if closers else None
        ok = it in ('reversed(%s)' % lst, lst)
    r2.check(ok, 'write: cleanup closes each once', 'io.write.cleanup',
             'cleanup is not a single loop calling every registered '
             'closer exactly once', where='io.py:write')
    tries = [st for st in write.body if isinstance(st, ast.Try)]
    if len(tries) != 1:
        raise AnalysisError('io.write: expected exactly one try statement')
    tr = tries[0]
    fin_calls = [c for st in tr.finalbody for c in calls_in(
        st, lambda n: ast.unparse(n.func) == cleaner.name)]
    all_cleanups = calls_in(write, lambda n: ast.unparse(n.func) ==
                            cleaner.name)
    r2.check(len(fin_calls) == 1 and len(all_cleanups) == 1 and
             len(tr.finalbody) == 1 and isinstance(
                 tr.finalbody[0], ast.Expr),
             'write: cleanup exactly once in finally', 'io.write',
             'cleanup() is not called exactly once, unconditionally, in '
             'the finally clause (found %d call(s), %d in finally)' % (
                 len(all_cleanups), len(fin_calls)), where='io.py:write')
    acquisitions = calls_in(write, lambda n: ast.unparse(n.func) ==
                            getter.name)
    in_try = [c for st in tr.body for c in calls_in(
        st, lambda n: ast.unparse(n.func) == getter.name)]
    for c in acquisitions:
        r2.check(c in in_try, 'write: %s inside try' % ast.unparse(c),
                 ast.unparse(c),
                 'stream acquisition outside the try/finally: a failure '
                 'after it leaks the stream', where='io.py:write (line %s)'
                 % c.lineno)
    # direct factory calls that bypass get_stream
    params = [a.arg for a in write.args.args]
    bypass = [c for c in calls_in(write, lambda n: isinstance(
        n.func, ast.Name) and n.func.id in params and
        'stream' in n.func.id)
        if not any(c in ast.walk(f) for f in (getter,))]
    r2.check(not bypass, 'write: no direct factory call', 'io.write',
             'a stream factory is called without registering its closer: '
             '%s' % [ast.unparse(c) for c in bypass], where='io.py:write')
    r2.check(not jumps_in(tr.finalbody), 'write: no jump in finally',
             'io.write', 'return/break/continue in finally swallows the '
             'exception', where='io.py:write')
    for n in ast.walk(write):
        if isinstance(n, ast.Try):
            for h in n.handlers:
                r2.check(isinstance(h.body[-1], ast.Raise) and
                         h.type is not None,
                         'write: handler re-raises', 'io.write',
                         'an except clause may swallow the failure',
                         where='io.py:write')
    # streams passed in open are never closed: no .close outside helpers
    stray = [c for c in calls_in(write, lambda n: isinstance(
        n.func, ast.Attribute) and n.func.attr == 'close')]
    r2.check(not stray, 'write: no direct close', 'io.write',
             'a stream is closed directly (%s): passed-in streams must '
             'stay open and opened ones are closed by cleanup' % [
                 ast.unparse(c) for c in stray], where='io.py:write')
    # the output text is what the unparser yields: chunks flow unmodified
    sm_calls = calls_in(tr, lambda n: ast.unparse(n.func) ==
                        'sourcemap.write')
    ok = len(sm_calls) == 1 and sm_calls[0].args and isinstance(
        sm_calls[0].args[0], ast.Name)
    r2.check(ok, 'write: chunks to sourcemap.write', 'io.write',
             'the fragment stream is not handed to sourcemap.write '
             'unmodified', where='io.py:write')
    report.informational.append(
        'observation outside the stated property: cleanup() stops at the '
        'first close() that itself raises')
    r183(report, index)
    r184(report, index)
    report.not_decided.append(
        'equality of the written text with the printer output and the '
        'content of the (inline) source map (string-valued runtime data); '
        'R18.3 decides only the path arithmetic of the link')
    report.trusted_base += ['CPython ast', 'posixpath (stdlib) as the '
                            'meaning of os.path functions']
