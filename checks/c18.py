# -*- coding: utf-8 -*-
"""
C18 - stream helpers: same output, valid map link, no leaked streams.

The closing discipline is a pairing property over all paths:

R18.1 io.read : the stream obtained from a factory is closed exactly once
      on every exit (normal or exceptional) and never when it was passed
      in open; syntax errors are re-raised with the stream name; the tree
      records the stream name
R18.2 io.write: every stream acquisition happens inside the try whose
      finally runs the cleanup; a closer is registered iff the factory was
      called; cleanup runs exactly once and closes each registered stream
      once; no exception is swallowed

The "valid map link" clause has a part that is a pure function of path
strings and is decided by abstract evaluation on a table:

R18.3 utils.normrelpath(base, target) designates `target` relative to the
      directory of `base` for absolute names (and returns `target`
      unchanged otherwise), and sourcemap.verify_write_sourcemap_args
      relates output, map and sources through it in the right direction:
      joining the directory of the referring file with the computed
      reference gives back the referred file
"""
from __future__ import annotations

import ast
import posixpath

from engine.common import AnalysisError
from engine.absint import Evaluator, Obj, Raised
from engine.srcindex import need_function

IO_MOD = 'calmjs.parse.io'


def calls_in(node, pred):
    return [n for n in ast.walk(node) if isinstance(n, ast.Call) and pred(n)]


def swallowing_handlers(trynode):
    """except handlers of a try that may complete without raising"""
    out = []
    for h in trynode.handlers:
        last = h.body[-1] if h.body else None
        if not isinstance(last, ast.Raise):
            out.append(h)
    return out


def jumps_in(stmts):
    out = []
    for st in stmts:
        for n in ast.walk(st):
            if isinstance(n, (ast.Return, ast.Break, ast.Continue)):
                out.append(n)
    return out


PATH_FUNCS = ('isabs', 'normpath', 'dirname', 'relpath', 'join', 'basename',
              'abspath', 'commonprefix', 'split', 'splitext')


def path_evaluator(module):
    fns = {n: getattr(posixpath, n) for n in PATH_FUNCS}
    fns['map'] = lambda f, xs: [f[1](x) if isinstance(f, tuple) else f(x)
                                for x in xs]
    fns['all'] = all
    fns['any'] = any

    def py_getattr(obj, name, *default):
        if isinstance(obj, Obj):
            if obj.has(name):
                return getattr(obj, name)
            if default:
                return default[0]
            raise AttributeError(name)
        return getattr(obj, name, *default)
    fns['getattr'] = py_getattr
    ev = Evaluator(module, functions=fns, max_steps=100000)
    ev.constants.update({'sep': '/', 'pardir': '..', 'curdir': '.',
                         'logger': Obj('Logger', warning=(
                             'pyfunc', lambda *a, **k: None))})
    ev.inline_module_functions = True
    return ev


def designates(referrer, ref, referred):
    """does `ref`, read relative to the directory of `referrer`, name
    `referred`?"""
    if not isinstance(ref, str):
        return False
    return posixpath.normpath(posixpath.join(
        posixpath.dirname(referrer), ref)) == posixpath.normpath(referred)


def r183(report, index):
    r3 = report.rule('R18.3', 'relative references between output, map and '
                     'sources designate the right file (decision table)',
                     floor=30)
    utils = index.need('calmjs.parse.utils')
    nrp = need_function(utils, 'normrelpath')
    dirs = ['/p/build', '/p/build-maps', '/p/buildx', '/p/build/sub', '/p',
            '/q/x', '/p/build.src', '/', '/p/./build/../build']
    n = 0
    for bd in dirs:
        for td in dirs:
            base = posixpath.join(bd, 'out.js')
            target = posixpath.join(td, 'out.js.map')
            ev = path_evaluator(utils)
            try:
                got, _ = ev.call(nrp, [base, target])
            except Raised as e:
                got = 'raises %s' % e.text
            n += 1
            r3.check(designates(base, got, target),
                     'normrelpath %s -> %s' % (bd, td),
                     'normrelpath(%r, %r)' % (base, target),
                     'returns %r, which read relative to the directory of '
                     '%s does not name %s' % (got, base, target),
                     where='utils.py:normrelpath')
    for base, target in (('out.js', 'out.js.map'), ('/p/out.js', 'm.map'),
                         ('rel/out.js', '/p/m.map')):
        ev = path_evaluator(utils)
        got, _ = ev.call(nrp, [base, target])
        r3.check(got == target, 'normrelpath relative %s %s' % (base, target),
                 'normrelpath(%r, %r)' % (base, target),
                 'returns %r; names that are not both absolute are '
                 'documented to be returned unchanged' % (got,),
                 where='utils.py:normrelpath')
    sm = index.need('calmjs.parse.sourcemap')
    vw = need_function(sm, 'verify_write_sourcemap_args')
    for out, mp, srcs in (
            ('/p/build/out.js', '/p/build/out.js.map', ['/p/src/a.js']),
            ('/p/build/out.js', '/p/build-maps/out.js.map',
             ['/p/build.src/a.js', '/p/build/b.js']),
            ('/p/build/sub/out.js', '/p/maps/o.map', ['/q/a.js']),
            ('/p/out.js', '/p/build/deep/er/o.map', ['/p/out.src.js'])):
        ev = path_evaluator(sm)
        # normrelpath lives in utils: evaluate it in its own module
        ev.functions['normrelpath'] = lambda b, t: path_evaluator(
            utils).call(nrp, [b, t])[0]
        try:
            got, _ = ev.call(vw, [[], list(srcs), [], Obj('Stream', name=out),
                                  Obj('Stream', name=mp)])
            (fname, _m, gsrcs, _n), url = got
        except Raised as e:
            fname, gsrcs, url = 'raises %s' % e.text, [], None
        except (TypeError, ValueError) as e:
            raise AnalysisError('verify_write_sourcemap_args returns an '
                                'unexpected shape: %s' % e)
        ok = designates(out, url, mp) and designates(mp, fname, out) and \
            len(gsrcs) == len(srcs) and all(
                designates(mp, g, s_) for g, s_ in zip(gsrcs, srcs))
        r3.check(ok, 'write args %s | %s' % (out, mp),
                 'verify_write_sourcemap_args(output=%s, map=%s, sources=%s)'
                 % (out, mp, srcs),
                 'yields sourceMappingURL %r, file %r, sources %r: at least '
                 'one of them does not designate the file it stands for '
                 'relative to the file that contains it' % (url, fname,
                                                           gsrcs),
                 where='sourcemap.py:verify_write_sourcemap_args')
    return r3


def r184(report, index):
    """the inline (data URL) form of the link decodes to the source map the
    lower-level API yields; a text that cannot be encoded fails loudly"""
    import base64
    import json
    r4 = report.rule('R18.4', 'the inline sourceMappingURL decodes, with '
                     'the declared charset, to the source map itself '
                     '(decision table)', floor=6)
    sm = index.need('calmjs.parse.sourcemap')
    utils = index.need('calmjs.parse.utils')
    ws = need_function(sm, 'write_sourcemap')
    nrp = need_function(utils, 'normrelpath')
    cases = [
        ('ascii names, utf8 stream', 'utf8', ['alpha', 'beta']),
        ('non-ASCII names, utf8 stream', 'utf8', ['h\u00e9llo', '\u4f60']),
        ('non-ASCII names, stream without encoding', None, ['\u00e9']),
        ('latin-1 names, latin-1 stream', 'latin-1', ['\u00e9t\u00e9']),
        ('names outside the stream charset', 'ascii', ['h\u00e9llo']),
        ('names outside latin-1', 'latin-1', ['\u4f60\u597d']),
        # every alignment of bytes whose base64 digits are `+` and `/`
        # (the two digits the URL-safe alphabet replaces)
        ('names whose base64 uses + and /', 'utf8', [
            '>>>', 'a>>>', 'ab>>>', '???', 'a???', 'ab???',
            '\u00ff\u00fe\u00fb']),
    ]
    for label, enc, names in cases:
        written = []
        stream = Obj('Stream', name='/p/out.js', writelines=(
            'pyfunc', lambda xs: written.extend(xs)), write=(
            'pyfunc', lambda x: written.append(x)))
        if enc is not None:
            stream.encoding = enc
        ev = path_evaluator(sm)
        ev.functions['normrelpath'] = lambda b, t: path_evaluator(
            utils).call(nrp, [b, t])[0]
        ev.functions['json.dumps'] = json.dumps
        for fname in dir(base64):
            if not fname.startswith('_') and callable(getattr(base64,
                                                              fname)):
                ev.functions['base64.' + fname] = getattr(base64, fname)
        ev.functions['encode_mappings'] = lambda m: ''
        outcome = None
        try:
            ev.call(ws, [[], ['/p/src.js'], list(names), stream, stream])
        except Raised as e:
            outcome = 'raises %s' % e.text
        except AnalysisError:
            raise
        except UnicodeError as e:
            outcome = 'raises %s' % type(e).__name__
        text = ''.join(x for x in written if isinstance(x, str))
        encodable = True
        try:
            json.dumps(names, ensure_ascii=False).encode(enc or 'utf8')
        except UnicodeError:
            encodable = False
        if not encodable:
            ok = outcome is not None and 'Unicode' in outcome and \
                'sourceMappingURL' not in text
            r4.check(ok, label, 'write_sourcemap inline, %s' % label,
                     'the map cannot be represented in the charset %r of '
                     'the stream; instead of the failure propagating, the '
                     'helper wrote %r (%s)' % (enc, text[:80], outcome),
                     where='sourcemap.py:write_sourcemap')
            continue
        got = None
        marker = 'sourceMappingURL=data:application/json;base64;charset='
        if outcome is None and marker in text:
            head, _, payload = text.partition(marker)[2].partition(',')
            try:
                got = json.loads(base64.b64decode(
                    payload, validate=True).decode(head))
                if label.endswith('+ and /') and not (
                        '+' in payload and '/' in payload):
                    raise AnalysisError('R18.4: the case meant to need the '
                                        'digits + and / does not')
            except AnalysisError:
                raise
            except Exception as e:
                got = 'undecodable (%s)' % type(e).__name__
        ok = isinstance(got, dict) and got.get('names') == names and \
            got.get('sources') == ['src.js'] and got.get('version') == 3
        r4.check(ok, label, 'write_sourcemap inline, %s' % label,
                 'the data URL decodes to %r (outcome: %s); expected the '
                 'source map with names %r' % (got, outcome, names),
                 where='sourcemap.py:write_sourcemap')
    return r4


class Fault(Exception):
    """an injected failure of a stand-in"""


class Interrupt(BaseException):
    """an injected failure that is not an Exception (KeyboardInterrupt,
    SystemExit, GeneratorExit are of this kind)"""


def boom(step, fault):
    if fault == step + ' fails':
        raise Fault(step)
    if fault == step + ' interrupted':
        raise Interrupt(step)


class ECMASyntaxError(Exception):
    """stand-in of the library exception (matched by name)"""


class Stream(object):
    def __init__(self, name):
        self.name = name
        self.closes = 0


def io_evaluator(m, extra=None):
    fns = {
        'callable': lambda x: isinstance(x, tuple) and x and x[0] in (
            'pyfunc', 'closure', 'method'),
        'repr_compat': repr,
        'chain': lambda *xs: [c for x in xs for c in x],
        'reversed': lambda x: list(reversed(list(x))),
    }

    def py_getattr(obj, name, *default):
        if isinstance(obj, Obj):
            if obj.has(name):
                return getattr(obj, name)
            if default:
                return default[0]
            raise AttributeError(name)
        return getattr(obj, name, *default)
    fns['getattr'] = py_getattr

    def py_type(o):
        if isinstance(o, Obj) and o.has('kind'):
            return ('pyfunc', lambda msg: Obj('exception', kind=o.kind,
                                              text=msg))
        raise AnalysisError('type(%r)' % (o,))
    fns['type'] = py_type
    fns['str'] = lambda o: o.text if isinstance(o, Obj) and o.has('text') \
        else str(o)
    fns.update(extra or {})
    own, bases = {}, {}
    for name, node in m.classes.items():
        own[name] = {st.name: st for st in node.body
                     if isinstance(st, ast.FunctionDef)}
        bases[name] = [ast.unparse(b).split('.')[-1] for b in node.bases]
    ev = Evaluator(m, functions=fns, max_steps=100000, class_methods=own,
                   class_own=own, class_bases=bases)
    ev.instantiate_classes = bool(own)
    ev.evaluate_raises = True
    return ev


def stream_obj(rec, read=None):
    def close():
        rec.closes += 1
    o = Obj('Stream', name=rec.name, close=('pyfunc', close))
    if read is not None:
        o.read = ('pyfunc', read)
    return o


def outcome_of(call):
    """('returns', value) | ('raises', kind, text)"""
    try:
        return ('returns', call())
    except Raised as e:
        if isinstance(e.value, Obj) and e.value.has('kind'):
            return ('raises', e.value.kind, e.value.text)
        return ('raises', e.text.split('(')[0], e.text)
    except AnalysisError:
        raise
    except (Exception, Interrupt) as e:  # an injected fault propagating
        return ('raises', type(e).__name__, str(e))


def library_exceptions(index):
    """python stand-ins for the exception classes of exceptions.py with
    the base classes the source gives them (so that `except ValueError`
    catches what the library's class hierarchy says it catches)"""
    import builtins
    em = index.need('calmjs.parse.exceptions')
    out = {}
    for name, node in em.classes.items():
        bases = []
        for b in node.bases:
            bn = ast.unparse(b).split('.')[-1]
            if bn in out:
                bases.append(out[bn])
            elif isinstance(getattr(builtins, bn, None), type) and \
                    issubclass(getattr(builtins, bn), BaseException):
                bases.append(getattr(builtins, bn))
        if not bases:
            bases = [Exception]
        try:
            out[name] = type(name, tuple(bases), {})
        except TypeError as e:
            raise AnalysisError('exceptions.%s: %s' % (name, e))
    for need in ('ECMASyntaxError', 'ECMARegexSyntaxError'):
        if need not in out:
            raise AnalysisError('exceptions.%s vanished' % need)
    return out


def r181(report, m):
    """io.read evaluated from its source for every stream arrangement and
    every point at which a step can fail"""
    r1 = report.rule('R18.1', 'io.read closes a factory-made stream exactly '
                     'once on every path, never a passed-in one; errors '
                     'propagate, syntax errors carry the stream name '
                     '(fault-injection table)', floor=8)
    read = need_function(m, 'read')
    faults = ('none', 'factory fails', 'read fails', 'syntax error',
              'regex syntax error',
              'parser fails', 'factory interrupted', 'read interrupted',
              'parser interrupted')
    excs = library_exceptions(m.index)
    for arrangement in ('factory', 'open stream'):
        for fault in faults:
            if fault.startswith('factory ') and arrangement != 'factory':
                continue
            rec = Stream('src.js')

            def do_read(fault=fault):
                boom('read', fault)
                return 'text'
            sobj = stream_obj(rec, do_read)

            def factory(fault=fault, sobj=sobj):
                boom('factory', fault)
                return sobj

            def parser(text, fault=fault):
                if fault == 'syntax error':
                    raise excs['ECMASyntaxError']('bad token')
                if fault == 'regex syntax error':
                    raise excs['ECMARegexSyntaxError']('bad token')
                boom('parser', fault)
                return Obj('ES5Program', sourcepath=None)
            stream = ('pyfunc', factory) if arrangement == 'factory' \
                else sobj
            ev = io_evaluator(m)
            out = outcome_of(lambda: ev.call(
                read, [('pyfunc', parser), stream])[0])
            want_closes = 1 if arrangement == 'factory' and \
                not fault.startswith('factory ') else 0
            label = '%s, %s' % (arrangement, fault)
            problems = []
            if rec.closes != want_closes:
                problems.append('the stream is closed %d time(s), expected '
                                '%d' % (rec.closes, want_closes))
            if fault == 'none':
                if out[0] != 'returns' or not isinstance(out[1], Obj) or \
                        out[1].sourcepath != 'src.js':
                    problems.append('does not return the tree with '
                                    'sourcepath = stream name (%r)' % (
                                        out,))
            elif fault in ('syntax error', 'regex syntax error'):
                if out[0] != 'raises' or out[1] not in (
                        'ECMASyntaxError', 'ECMARegexSyntaxError') or \
                        'bad token' not in str(out[2]) or \
                        'src.js' not in str(out[2]):
                    problems.append('the syntax error is not re-raised '
                                    'with the stream name (%r)' % (out,))
            else:
                if out[0] != 'raises' or out[1] != (
                        'Interrupt' if fault.endswith('interrupted')
                        else 'Fault'):
                    problems.append('the failure does not propagate (%r)'
                                    % (out,))
            r1.check(not problems, 'read: ' + label, 'io.read(%s)' % label,
                     '; '.join(problems), where='io.py:read')
    return r1


def r182(report, m):
    """io.write evaluated from its source for every arrangement of output /
    map streams and every failing step"""
    r2 = report.rule('R18.2', 'io.write closes every stream it opened '
                     'exactly once on every path, never a passed-in one; '
                     'failures propagate; the printer output and the '
                     'streams reach the source map writer unchanged '
                     '(fault-injection table)', floor=30)
    write = need_function(m, 'write')
    arrangements = []
    for out_kind in ('factory', 'open'):
        for map_kind in ('none', 'same', 'factory', 'open'):
            arrangements.append((out_kind, map_kind))
    steps = ('unparser', 'output factory', 'sourcemap.write',
             'map factory', 'write_sourcemap')
    faults = ('none', 'none, nothing mapped') + tuple(
        s_ + ' fails' for s_ in steps) + tuple(
        s_ + ' interrupted' for s_ in steps)
    def new_evaluator():
        hooks = {}
        ev = io_evaluator(m, {
            'sourcemap.write': lambda *a, **k: hooks['sourcemap.write'](
                *a, **k),
            'sourcemap.write_sourcemap': lambda *a, **k: hooks[
                'sourcemap.write_sourcemap'](*a, **k)})
        ev.is_subclass = lambda c, b_: b_ == 'Node' and c == \
            'ES5Program' or c == b_
        return ev, hooks

    def applicable(out_kind, map_kind, fault0):
        fault = fault0.replace(' interrupted', ' fails')
        if fault == 'output factory fails' and out_kind != 'factory':
            return False
        if fault == 'map factory fails' and map_kind != 'factory':
            return False
        if fault == 'write_sourcemap fails' and map_kind == 'none':
            return False
        return True

    def scenario(ev, hooks, out_kind, map_kind, fault0):
        # expectations depend on the step only, not on the kind
        fault = fault0.replace(' interrupted', ' fails')
        unmapped = fault == 'none, nothing mapped'
        if unmapped:
            fault = 'none'
        out_rec, map_rec = Stream('out.js'), Stream('out.js.map')
        out_obj, map_obj = stream_obj(out_rec), stream_obj(map_rec)
        log = []

        def out_factory(fault=fault0, o=out_obj):
            boom('output factory', fault)
            return o

        def map_factory(fault=fault0, o=map_obj):
            boom('map factory', fault)
            return o
        output = ('pyfunc', out_factory) if out_kind == 'factory' \
            else out_obj
        if map_kind == 'none':
            smap = None
        elif map_kind == 'same':
            smap = output
        elif map_kind == 'factory':
            smap = ('pyfunc', map_factory)
        else:
            smap = map_obj
        chunks = [('chunk', 1), ('chunk', 2)]

        def unparser(node, fault=fault0):
            boom('unparser', fault)
            return list(chunks)

        def sm_write(cs, stream, normalize=True, fault=fault0, log=log,
                     unmapped=unmapped):
            log.append(('write', list(cs), stream))
            boom('sourcemap.write', fault)
            if unmapped:
                # what sourcemap.write yields for a text without any
                # positioned fragment (an empty or comment-only
                # program): the map still has to be written
                return ([[]], [], [])
            return (['m'], ['s'], ['n'])

        def sm_write_map(mappings, sources, names, o, s_, fault=fault0,
                         log=log, **kw):
            log.append(('write_sourcemap', mappings, sources, names, o,
                        s_))
            boom('write_sourcemap', fault)
        node = Obj('ES5Program')
        hooks['sourcemap.write'] = sm_write
        hooks['sourcemap.write_sourcemap'] = sm_write_map
        out = outcome_of(lambda: ev.call(
            write, [('pyfunc', unparser), node, output, smap])[0])
        label = 'output %s, map %s, %s' % (out_kind, map_kind, fault0)
        problems = []
        opened_out = out_kind == 'factory' and fault not in (
            'unparser fails', 'output factory fails')
        map_reached = fault in ('none', 'write_sourcemap fails',
                                'map factory fails')
        opened_map = map_kind == 'factory' and map_reached and \
            fault != 'map factory fails'
        if out_rec.closes != (1 if opened_out else 0):
            problems.append('the output stream is closed %d time(s), '
                            'expected %d' % (out_rec.closes,
                                             1 if opened_out else 0))
        if map_rec.closes != (1 if opened_map else 0):
            problems.append('the map stream is closed %d time(s), '
                            'expected %d' % (map_rec.closes,
                                             1 if opened_map else 0))
        if fault == 'none':
            if out[0] != 'returns':
                problems.append('raises %r' % (out,))
        elif out[0] != 'raises' or out[1] != (
                'Interrupt' if fault0.endswith('interrupted')
                else 'Fault'):
            problems.append('the failure does not propagate (%r)'
                            % (out,))
        if fault not in ('unparser fails', 'output factory fails'):
            w = [x for x in log if x[0] == 'write']
            if len(w) != 1 or w[0][1] != chunks or w[0][2] is not \
                    out_obj:
                problems.append('sourcemap.write does not receive the '
                                'printer output and the output stream '
                                'once (%r)' % (w,))
        if fault in ('none', 'write_sourcemap fails') and \
                map_kind != 'none':
            w = [x for x in log if x[0] == 'write_sourcemap']
            want_map = out_obj if map_kind == 'same' else map_obj
            if len(w) != 1 or w[0][1:4] != ((['m'], ['s'], ['n'])
                                            if not unmapped else
                                            ([[]], [], [])) or \
                    w[0][4] is not out_obj or w[0][5] is not want_map:
                problems.append('write_sourcemap does not receive the '
                                'mappings and the two streams (%r)'
                                % (w,))
        return label, problems, (out_rec, map_rec, opened_out, opened_map)

    for out_kind, map_kind in arrangements:
        for fault0 in faults:
            if not applicable(out_kind, map_kind, fault0):
                continue
            ev, hooks = new_evaluator()
            label, problems, _ = scenario(ev, hooks, out_kind, map_kind,
                                          fault0)
            r2.check(not problems, 'write: ' + label,
                     'io.write(%s)' % label, '; '.join(problems),
                     where='io.py:write')
    # histories: a call that follows an earlier call (successful or failed)
    # in the same process behaves like a first call, and leaves the streams
    # of the earlier call alone
    firsts = [('factory', 'factory', f) for f in (
        'none', 'write_sourcemap fails', 'map factory fails',
        'sourcemap.write fails', 'unparser fails',
        'write_sourcemap interrupted')] + [
        ('factory', 'same', 'none'), ('open', 'factory', 'none'),
        ('factory', 'none', 'sourcemap.write fails')]
    seconds = [('factory', 'factory', 'none'), ('open', 'open', 'none'),
               ('factory', 'factory', 'write_sourcemap fails')]
    for first in firsts:
        for second in seconds:
            ev, hooks = new_evaluator()
            label1, problems1, recs1 = scenario(ev, hooks, *first)
            before = (recs1[0].closes, recs1[1].closes)
            label2, problems2, recs2 = scenario(ev, hooks, *second)
            after = (recs1[0].closes, recs1[1].closes)
            problems = list(problems2)
            if after != before:
                problems.append(
                    'the streams of the earlier call were closed again '
                    '(output %d -> %d, map %d -> %d time(s))' % (
                        before[0], after[0], before[1], after[1]))
            r2.check(not problems, 'write after write: (%s) then (%s)' % (
                label1, label2), 'io.write(%s); io.write(%s)' % (
                label1, label2), 'the second call: ' + '; '.join(problems),
                where='io.py:write')
    # nodes that are not Nodes are refused before anything is opened
    out_rec = Stream('out.js')
    opened = []
    ev = io_evaluator(m)
    ev.is_subclass = lambda c, b_: c == b_
    out = outcome_of(lambda: ev.call(write, [
        ('pyfunc', lambda n: []), 'not a node',
        ('pyfunc', lambda: opened.append(1) or stream_obj(out_rec))])[0])
    r2.check(out[0] == 'raises' and not opened, 'write: bad nodes argument',
             'io.write(<not a node>)', 'a non-node argument does not raise '
             'before the output is opened (%r)' % (out,),
             where='io.py:write')
    return r2


def _per_call_capture(m, key):
    """the write site `key` (module:func:text) is inside a function nested
    in a *public module-level function* whose every activation creates the
    captured object anew (an assignment of a fresh display or constructor
    call in the outer function body, outside any loop) and which does not
    return or store the nested function"""
    func = key.split(':')[1]
    for outer in m.functions.values():
        inner = [st for st in outer.body if isinstance(
            st, ast.FunctionDef) and st.name == func]
        if not inner:
            continue
        root = key.split(':', 2)[2].split('.')[0].split('[')[0]
        fresh = any(
            isinstance(st, ast.Assign) and isinstance(
                st.value, (ast.List, ast.Dict, ast.Set)) and any(
                isinstance(t, ast.Name) and t.id == root
                for t in st.targets) for st in outer.body)
        escapes = False
        for n in ast.walk(outer):
            if isinstance(n, ast.Return) and n.value is not None and any(
                    isinstance(x, ast.Name) and x.id == func
                    for x in ast.walk(n.value)):
                escapes = True
            if isinstance(n, (ast.Assign, ast.AugAssign)) and any(
                    isinstance(x, ast.Name) and x.id == func
                    for x in ast.walk(n.value)):
                escapes = True
            if isinstance(n, ast.Call) and any(
                    isinstance(x, ast.Name) and x.id == func
                    for a in list(n.args) + [k.value for k in n.keywords]
                    for x in ast.walk(a)):
                escapes = True
        return fresh and not escapes
    return False


def run(report, index, tier):
    report.explanation = (
        'io.read and io.write are evaluated from their source with '
        'stand-in streams, parser, printer and source map writer for every '
        'arrangement of factories / open streams and every step that can '
        'fail (fault-injection decision tables); the path arithmetic of '
        'the map link and the inline data URL are folded on tables.')
    m = index.need(IO_MOD)
    r181(report, m)
    r182(report, m)
    report.informational.append(
        'observation outside the stated property: cleanup() stops at the '
        'first close() that itself raises')
    r183(report, index)
    r184(report, index)
    # R18.5: the helpers keep nothing between calls (the premise under
    # which the per-call tables above speak for every later call too)
    from .c15 import persistent_state_writes
    r5 = report.rule('R18.5', 'io.py writes no module-level, class-level, '
                     'captured or default-argument state: a call cannot '
                     'leak streams of, or depend on, an earlier call',
                     floor=2)
    found, nsites = persistent_state_writes([m])
    report.count('R18.5: write sites of io.py', nsites)
    closures_ok = {}
    for key, construct, msg, where in found:
        # the per-call closures of write() (closer list captured by
        # get_stream / cleanup) live and die with one activation of write:
        # the captured object is created by the same call that uses it
        if 'captured by' in msg and any(
                isinstance(st, ast.FunctionDef) for st in ast.walk(
                    need_function(m, 'write'))) and _per_call_capture(
                        m, key):
            closures_ok[key] = True
            r5.ok(construct, 'captured object is created per call of the '
                  'public function')
            continue
        r5.fail(key, construct, msg, where=where)
    for _ in range(max(0, nsites - len(found))):
        r5.ok('write site', 'local / per-call')
    report.not_decided.append(
        'equality of the written text with the printer output and the '
        'content of the (inline) source map (string-valued runtime data); '
        'R18.3 decides only the path arithmetic of the link')
    report.trusted_base += ['CPython ast', 'posixpath (stdlib) as the '
                            'meaning of os.path functions']
