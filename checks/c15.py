# -*- coding: utf-8 -*-
"""
C15 - parsing is a pure function of the text: no history or thread effects.

R15.1 fresh machinery per call: parse() constructs the Parser (hence the
      Lexer and the ply objects) inside the call; no module-level parser /
      lexer instance exists
R15.2 no global writes on the parse path: no global/nonlocal statement, no
      store whose base is a module-level object, a class, or a mutable
      default argument
R15.3 no inherited instance state: every instance attribute a Lexer /
      Parser method reads is initialised by __init__ (or is a class
      attribute / method / property)
"""
from __future__ import annotations

import ast

from engine.common import AnalysisError
from engine.effects import write_sites, iter_functions, own_nodes, \
    self_attr_stores
from engine.srcindex import need_function

PARSE_PATH = [
    'calmjs.parse.parsers.es5', 'calmjs.parse.lexers.es5',
    'calmjs.parse.lexers.tokens', 'calmjs.parse.asttypes',
    'calmjs.parse.factory', 'calmjs.parse.utils',
    'calmjs.parse.exceptions', 'calmjs.parse.io', 'calmjs.parse',
]
STATEFUL_CTORS = ('Parser', 'Lexer', 'yacc', 'lex', 'LRParser')


def run(report, index, tier):
    report.explanation = (
        'Effect analysis of the parse path: parse() builds its machinery '
        'per call, nothing reachable from it writes module-level, class-'
        'level or default-argument state, and every instance attribute the '
        'stateful Lexer/Parser methods read is initialised per instance.')
    rules(report, index)


def shared_class_mutables(mods):
    """(class, attribute, write site): a mutable object created in a class
    body, not rebound by the constructor that applies to the class, and
    mutated through `self` by a method of the class, of a base or of a
    subclass"""
    classes = {}
    for m in mods:
        for cname, cnode in m.classes.items():
            classes[cname] = (m, cnode)

    def bases(c):
        out = []
        for b in classes[c][1].bases:
            n = b.id if isinstance(b, ast.Name) else (
                b.attr if isinstance(b, ast.Attribute) else None)
            if n in classes:
                out.append(n)
        return out

    def ancestors(c, seen=None):
        seen = seen if seen is not None else []
        for b in bases(c):
            if b not in seen:
                seen.append(b)
                ancestors(b, seen)
        return seen

    def init_stores(c, depth=0):
        """attributes the constructor that applies to c stores on self"""
        m, cnode = classes[c]
        init = m.class_methods(c).get('__init__')
        if init is None:
            out = set()
            for b in bases(c)[:1]:
                out |= init_stores(b, depth + 1)
            return out
        out = set(self_attr_stores(init))
        chained = False
        for n in ast.walk(init):
            if isinstance(n, ast.Attribute) and isinstance(
                    n.ctx, ast.Store) and isinstance(
                    n.value, ast.Name) and n.value.id == 'self':
                out.add(n.attr)
            if isinstance(n, ast.Call) and isinstance(
                    n.func, ast.Attribute) and n.func.attr == '__init__':
                chained = True
        if chained and depth < 8:
            for b in bases(c):
                out |= init_stores(b, depth + 1)
        return out
    sites = {}
    for m in mods:
        for s in write_sites(m):
            if s.cls and s.rootkind == 'self' and s.base is not None:
                sites.setdefault(s.cls, []).append(s)
    for cname, (m, cnode) in sorted(classes.items()):
        mutable = {}
        for st in cnode.body:
            if isinstance(st, ast.Assign) and isinstance(
                    st.value, (ast.List, ast.Dict, ast.Set, ast.ListComp,
                               ast.DictComp, ast.SetComp)):
                for t in st.targets:
                    if isinstance(t, ast.Name):
                        mutable[t.id] = st
            elif isinstance(st, ast.Assign) and isinstance(
                    st.value, ast.Call) and ast.unparse(
                    st.value.func) in ('list', 'dict', 'set',
                                       'defaultdict', 'deque'):
                for t in st.targets:
                    if isinstance(t, ast.Name):
                        mutable[t.id] = st
        if not mutable:
            continue
        related = [cname] + ancestors(cname) + [
            c for c in classes if cname in ancestors(c)]
        for c in related:
            # the instances whose class attribute is this object: cname
            # itself and subclasses not rebinding it
            holders = [cname] + [x for x in classes if cname in ancestors(x)]
            for s in sites.get(c, []):
                bt = ast.unparse(s.base)
                for attr in mutable:
                    if not (bt == 'self.%s' % attr or bt.startswith(
                            'self.%s[' % attr) or bt.startswith(
                            'self.%s.' % attr)):
                        continue
                    for holder in holders:
                        if c != holder and c not in ancestors(holder) and \
                                holder not in ancestors(c):
                            continue
                        if attr in init_stores(holder):
                            continue
                        # a nearer class body rebinding the name
                        hidden = False
                        for x in [holder] + ancestors(holder):
                            if x == cname:
                                break
                            if any(isinstance(st, ast.Assign) and any(
                                    isinstance(t, ast.Name) and t.id == attr
                                    for t in st.targets)
                                    for st in classes[x][1].body):
                                hidden = True
                                break
                        if hidden:
                            continue
                        yield cname, attr, s
                        break


def persistent_state_writes(mods):
    """(key, construct, message, where) for every write site of the modules
    that stores into state outliving the call: `global` / `nonlocal`,
    module- or class-level objects, objects captured from an enclosing
    activation, mutable default arguments, mutable class attributes mutated
    through self.  The second result counts the sites looked at."""
    out = []
    nsites = 0
    for m in mods:
        defaults = {}
        for clsname, fdef, chain in iter_functions(m):
            a = fdef.args
            names = [x.arg for x in a.args]
            ds = [None] * (len(names) - len(a.defaults)) + list(a.defaults)
            for n, d in list(zip(names, ds)) + list(zip(
                    [x.arg for x in a.kwonlyargs], a.kw_defaults)):
                if d is not None and not isinstance(d, ast.Constant):
                    defaults[(fdef.name, n)] = d
        for s in write_sites(m):
            if s.kind == 'next':
                continue
            nsites += 1
            construct = '%s in %s' % (s.text, s.where.split(' (line')[0])
            key = '%s:%s%s:%s' % (m.name.split('.')[-1],
                                  (s.cls + '.') if s.cls else '', s.func,
                                  s.text)
            if s.kind in ('global', 'nonlocal'):
                out.append((key, construct, '`%s` statement: state that '
                            'outlives the call' % s.text, s.where))
            elif s.rootkind == 'global':
                out.append((key, construct, 'writes to `%s`, which is '
                            'module-level or class-level state shared by '
                            'all calls' % s.root, s.where))
            elif s.closure:
                out.append((key, construct, 'writes to `%s`, an object '
                            'created by the enclosing function %s and '
                            'captured by %s, which outlives that activation'
                            % (s.root, s.closure, s.func), s.where))
            elif s.rootkind == 'param' and (s.func, s.root) in defaults:
                out.append((key, construct, 'mutates parameter `%s` whose '
                            'default value %s is created once and shared by '
                            'all calls' % (s.root, ast.unparse(
                                defaults[(s.func, s.root)])), s.where))
    seen_cm = set()
    for cname, attr, s in shared_class_mutables(mods):
        if (cname, attr) in seen_cm:
            continue
        seen_cm.add((cname, attr))
        out.append(('%s.%s shared mutable class attribute' % (cname, attr),
                    '%s in %s.%s' % (s.text, s.cls, s.func),
                    '`%s` is a mutable object created once in the class '
                    'body of %s and never rebound per instance, but %s '
                    'mutates it through self: all instances, hence all '
                    'calls, share it' % (attr, cname, s.func), s.where))
    return out, nsites


CANARY = """
CACHE = {}


def factory(callee):
    memo = {'last': None}

    def inner(text):
        memo['last'] = text
        CACHE[text] = 1
        return callee(text)
    return inner


class Base(object):
    table = {}

    def put(self, k):
        self.table[k] = 1


class Derived(Base):
    def __init__(self):
        self.other = []
"""


class _Snippet(object):
    """a module-like object over a source string (for the canary)"""

    def __init__(self, name, source):
        self.name = name
        self.tree = ast.parse(source)
        self.classes = {st.name: st for st in self.tree.body
                        if isinstance(st, ast.ClassDef)}

    def class_methods(self, cname):
        return {st.name: st for st in self.classes[cname].body
                if isinstance(st, ast.FunctionDef)}


def canary():
    """the rules that expect zero matches on the real tree must match this
    snippet: a write to a module-level dict, a write through a captured
    variable of a factory that returns the writer, and a mutable class
    attribute mutated through self without rebinding"""
    m = _Snippet('canary', CANARY)
    sites = write_sites(m)
    kinds = {(s.func, s.text): (s.rootkind, s.closure) for s in sites}
    if kinds.get(('inner', "CACHE[text]"), ('', ''))[0] != 'global':
        raise AnalysisError('canary: the module-level write is not seen')
    if kinds.get(('inner', "memo['last']"), ('', None))[1] != 'factory':
        raise AnalysisError('canary: the closure-state write is not seen')
    found = {(c, a) for c, a, _s in shared_class_mutables([m])}
    if ('Base', 'table') not in found:
        raise AnalysisError('canary: the shared mutable class attribute is '
                            'not seen (found %r)' % (sorted(found),))
    return len(sites)


def rules(report, index):
    """also a premise of the round-trip properties C01 / C02: printing and
    re-parsing are two parses in one process, the second must not depend
    on the first"""
    report.count('R15 canary: write sites of the positive example',
                 canary())
    mods = [index.need(d) for d in PARSE_PATH]
    pm = index.need('calmjs.parse.parsers.es5')
    lm = index.need('calmjs.parse.lexers.es5')

    r1 = report.rule('R15.1', 'parse() builds Parser/Lexer/ply objects per '
                     'call; none at module level', floor=4)
    parse = need_function(pm, 'parse')
    ctor = [n for n in ast.walk(parse) if isinstance(n, ast.Call) and
            isinstance(n.func, ast.Name) and n.func.id == 'Parser']
    r1.check(len(ctor) >= 1, 'parse() constructs Parser', 'parsers.es5.parse',
             'parse() does not construct a Parser inside the call: parser '
             'and lexer state would be shared between calls',
             where='parsers/es5.py:parse')
    if ctor:
        # the constructed parser is a local and the result comes from it
        locals_ = {t.id for st in parse.body if isinstance(st, ast.Assign)
                   for t in st.targets if isinstance(t, ast.Name) and
                   st.value in ctor}
        rets = [st for st in parse.body if isinstance(st, ast.Return)]
        ok = bool(rets) and all(
            isinstance(r.value, ast.Call) and isinstance(
                r.value.func, ast.Attribute) and (
                (isinstance(r.value.func.value, ast.Name) and
                 r.value.func.value.id in locals_) or
                r.value.func.value in ctor) for r in rets)
        r1.check(ok, 'parse() uses the fresh Parser', 'parsers.es5.parse',
                 'parse() returns something that does not come from the '
                 'Parser constructed in the same call',
                 where='parsers/es5.py:parse')
    def reachable_calls(module, clsname, start):
        """Call nodes of `start` and of the methods of the class it calls
        through self (transitively)"""
        methods = module.class_methods(clsname)
        todo, seen, calls = [start], set(), []
        while todo:
            f = todo.pop()
            if f.name in seen:
                continue
            seen.add(f.name)
            for n in own_nodes(f):
                if isinstance(n, ast.Call):
                    calls.append(n)
                    if isinstance(n.func, ast.Attribute) and isinstance(
                            n.func.value, ast.Name) and \
                            n.func.value.id == 'self' and \
                            n.func.attr in methods:
                        todo.append(methods[n.func.attr])
        return calls

    def callee(n):
        return ast.unparse(n.func).split('.')[-1]

    def passes_self(n):
        return any(isinstance(a, ast.Name) and a.id == 'self'
                   for a in list(n.args) + [k.value for k in n.keywords])
    init = need_function(pm, '__init__', 'Parser')
    pcalls = reachable_calls(pm, 'Parser', init)
    r1.check(any(callee(n) == 'Lexer' for n in pcalls),
             'Parser.__init__ builds Lexer', 'Parser.__init__',
             'no Lexer is constructed while a Parser is initialised',
             where='parsers/es5.py:Parser.__init__')
    r1.check(any(callee(n) == 'yacc' and passes_self(n) for n in pcalls),
             'Parser.__init__ builds LRParser', 'Parser.__init__',
             'the ply parser object is not built per Parser from this '
             'instance (yacc.yacc(module=self, ...))',
             where='parsers/es5.py:Parser.__init__')
    linit = need_function(lm, '__init__', 'Lexer')
    lcalls = reachable_calls(lm, 'Lexer', linit)
    r1.check(any(callee(n) == 'lex' and passes_self(n) for n in lcalls),
             'Lexer builds ply lexer per instance', 'Lexer.__init__/build',
             'the ply lexer is not built per Lexer instance from this '
             'instance (lex.lex(object=self, ...))',
             where='lexers/es5.py:Lexer.build')
    for m in mods:
        for st in m.tree.body:
            tops = [st]
            if isinstance(st, ast.ClassDef):
                tops = [x for x in st.body
                        if not isinstance(x, ast.FunctionDef)]
            elif isinstance(st, ast.FunctionDef):
                continue
            for top in tops:
                for n in ast.walk(top):
                    if isinstance(n, (ast.FunctionDef, ast.Lambda)):
                        break
                    if isinstance(n, ast.Call):
                        f = ast.unparse(n.func)
                        if f.split('.')[-1] in STATEFUL_CTORS:
                            r1.fail(
                                'module-level %s in %s' % (f, m.name),
                                '%s(...) at import time in %s' % (f, m.name),
                                'a parser / lexer object is created once '
                                'at import time and would be shared by all '
                                'parse calls and threads',
                                where='%s (line %s)' % (m.name, n.lineno))
    # R15.2 ---------------------------------------------------------------
    r2 = report.rule('R15.2', 'no write to module-level, class-level or '
                     'default-argument state on the parse path', floor=100)
    nsites = 0
    for m in mods:
        defaults = {}
        for clsname, fdef, chain in iter_functions(m):
            a = fdef.args
            names = [x.arg for x in a.args]
            ds = [None] * (len(names) - len(a.defaults)) + list(a.defaults)
            for n, d in zip(names, ds):
                if d is not None and not isinstance(d, ast.Constant):
                    defaults[(fdef.name, n)] = d
            for n, d in zip([x.arg for x in a.kwonlyargs], a.kw_defaults):
                if d is not None and not isinstance(d, ast.Constant):
                    defaults[(fdef.name, n)] = d
        for s in write_sites(m):
            if s.kind == 'next':
                continue
            nsites += 1
            construct = '%s in %s' % (s.text, s.where.split(' (line')[0])
            key = '%s:%s%s:%s' % (m.name.split('.')[-1],
                                  (s.cls + '.') if s.cls else '', s.func,
                                  s.text)
            if s.kind in ('global', 'nonlocal'):
                r2.fail(key, construct, '`%s` statement on the parse path: '
                        'state that outlives the call' % s.text,
                        where=s.where)
            elif s.rootkind == 'global':
                r2.fail(key, construct,
                        'writes to `%s`, which is module-level or class-'
                        'level state shared by all parses and threads'
                        % s.root, where=s.where)
            elif s.closure:
                r2.fail(key, construct,
                        'writes to `%s`, an object created by the enclosing '
                        'function %s and captured by %s, which outlives '
                        'that activation: the object persists between '
                        'calls of %s and is shared by all of them' % (
                            s.root, s.closure, s.func, s.func),
                        where=s.where)
            elif s.rootkind == 'param' and (s.func, s.root) in defaults:
                r2.fail(key, construct,
                        'mutates parameter `%s` whose default value %s is '
                        'created once and shared by all calls' % (
                            s.root, ast.unparse(defaults[(s.func, s.root)])),
                        where=s.where)
            else:
                r2.ok(construct, s.rootkind)
    # mutable class attributes that instances mutate are shared state
    seen_cm = set()
    for cname, attr, s in shared_class_mutables(mods):
        if (cname, attr) in seen_cm:
            continue
        seen_cm.add((cname, attr))
        r2.fail('%s.%s shared mutable class attribute' % (cname, attr),
                '%s in %s.%s' % (s.text, s.cls, s.func),
                '`%s` is a mutable object created once in the class body '
                'of %s and never rebound per instance, but %s mutates it '
                'through self: all instances (all parses, all threads) '
                'share it' % (attr, cname, s.func), where=s.where)
    # instance attributes initialised from shared (module- or class-level)
    # mutable objects, directly or through a shallow copy
    MUT = (ast.List, ast.Dict, ast.Set, ast.ListComp, ast.DictComp,
           ast.SetComp)
    SHALLOW = ('list', 'dict', 'set', 'tuple', 'copy', 'sorted',
               'deque', 'OrderedDict')
    nshared = 0
    all_sites = [s for m_ in mods for s in write_sites(m_)]
    for m in mods:
        shared = {}     # name -> (value node, has nested mutable, is mutable)
        scopes = [(None, m.tree.body)] + [
            (c, n.body) for c, n in m.classes.items()]
        for owner, body in scopes:
            for st in body:
                if not isinstance(st, ast.Assign):
                    continue
                v = st.value
                nested = any(isinstance(x, MUT) for x in ast.walk(v)
                             if x is not v)
                top = isinstance(v, MUT) or (
                    isinstance(v, ast.Call) and ast.unparse(v.func) in (
                        'list', 'dict', 'set', 'defaultdict', 'deque'))
                if not (nested or top):
                    continue
                for t in st.targets:
                    if isinstance(t, ast.Name):
                        shared[(owner, t.id)] = (v, nested, top)
        if not shared:
            continue
        sites = list(write_sites(m))
        for clsname, fdef, chain in iter_functions(m):
            if clsname is None:
                continue
            for n in own_nodes(fdef):
                if not (isinstance(n, ast.Assign) and len(n.targets) == 1
                        and isinstance(n.targets[0], ast.Attribute) and
                        isinstance(n.targets[0].value, ast.Name) and
                        n.targets[0].value.id == 'self'):
                    continue
                attr = n.targets[0].attr
                v = n.value
                how = None
                src = v
                if isinstance(v, ast.Call) and len(v.args) == 1 and \
                        not v.keywords and ast.unparse(v.func).split(
                            '.')[-1] in SHALLOW:
                    how, src = 'a shallow copy', v.args[0]
                elif isinstance(v, ast.Call) and isinstance(
                        v.func, ast.Attribute) and v.func.attr == 'copy' \
                        and not v.args:
                    how, src = 'a shallow copy', v.func.value
                elif isinstance(v, ast.Subscript) and isinstance(
                        v.slice, ast.Slice) and v.slice.lower is None and \
                        v.slice.upper is None:
                    how, src = 'a shallow copy', v.value
                elif isinstance(v, ast.List) and len(v.elts) == 1 and \
                        isinstance(v.elts[0], ast.Starred):
                    how, src = 'a shallow copy', v.elts[0].value
                elif isinstance(v, (ast.ListComp, ast.GeneratorExp)) and \
                        len(v.generators) == 1 and isinstance(
                        v.generators[0].target, ast.Name):
                    # [x for x in SRC] copies one level, [list(x) for x in
                    # SRC] / [x[:] ...] two; anything nested deeper in the
                    # shared value stays shared
                    g0 = v.generators[0]
                    tname = g0.target.id
                    e0 = v.elt
                    levels = None
                    if isinstance(e0, ast.Name) and e0.id == tname:
                        levels = 1
                    elif isinstance(e0, ast.Call) and len(e0.args) == 1 \
                            and isinstance(e0.args[0], ast.Name) and \
                            e0.args[0].id == tname and ast.unparse(
                            e0.func).split('.')[-1] in SHALLOW:
                        levels = 2
                    elif isinstance(e0, ast.Subscript) and isinstance(
                            e0.slice, ast.Slice) and isinstance(
                            e0.value, ast.Name) and e0.value.id == tname:
                        levels = 2
                    if levels is None:
                        continue
                    how, src = 'a shallow copy', g0.iter
                    copy_levels = levels
                else:
                    how = 'an alias'
                key = None
                if isinstance(src, ast.Name):
                    key = (None, src.id)
                elif isinstance(src, ast.Attribute) and isinstance(
                        src.value, ast.Name) and src.value.id in (
                            'self', 'cls', clsname):
                    key = (clsname, src.attr)
                if key is None or key not in shared:
                    continue
                val, nested, top = shared[key]
                nshared += 1
                if how == 'a shallow copy' and isinstance(
                        v, (ast.ListComp, ast.GeneratorExp)):
                    # mutables nested deeper than the copied levels
                    def deepest(node, d=1):
                        best = d if isinstance(node, MUT) else 0
                        for ch in ast.iter_child_nodes(node):
                            if isinstance(ch, (ast.List, ast.Tuple, ast.Dict,
                                               ast.Set)):
                                best = max(best, deepest(ch, d + 1))
                        return best
                    nested = deepest(val) > copy_levels
                if how == 'a shallow copy' and not nested:
                    r2.ok('self.%s = %s' % (attr, ast.unparse(v)),
                          'copy of a flat container')
                    continue
                if how == 'an alias' and not top and not nested:
                    continue
                prefix = 'self.%s' % attr
                hits = []
                for s in all_sites:
                    if s.base is None:
                        continue
                    bt = ast.unparse(s.base)
                    if s.cls != clsname or s.module != m.name:
                        # another class reaching the attribute through an
                        # instance it holds (self.lexer.<attr>.append ...)
                        tail = '.%s' % attr
                        if not (bt.endswith(tail) or (tail + '[') in bt or
                                (tail + '.') in bt):
                            continue
                        if how == 'an alias' or (tail + '[') in bt or \
                                (tail + '.') in bt:
                            hits.append(s)
                        continue
                    deep = bt.startswith(prefix + '[') or \
                        bt.startswith(prefix + '.')
                    if how == 'an alias' and (bt == prefix or deep):
                        hits.append(s)
                    elif how == 'a shallow copy' and deep:
                        if isinstance(v, (ast.ListComp, ast.GeneratorExp)) \
                                and bt[len(prefix):].count('[') + bt[len(
                                    prefix):].count('.') < copy_levels:
                            continue    # writes into a copied level
                        hits.append(s)
                r2.check(
                    not hits, '%s.%s initialised from shared %s' % (
                        clsname, attr, key[1]),
                    'self.%s = %s in %s.%s' % (attr, ast.unparse(v), clsname,
                                              fdef.name),
                    'self.%s is %s of `%s`, a mutable object created once '
                    'at import time%s; %s mutates it through self (%s): '
                    'all instances, hence all parses and threads, share '
                    'that state' % (
                        attr, how, key[1],
                        ' whose elements are themselves mutable'
                        if how == 'a shallow copy' else '',
                        ', '.join(sorted({h.func for h in hits})),
                        hits[0].text if hits else ''),
                    where='%s:%s.%s' % (m.name, clsname, fdef.name))
    report.count('instance attributes initialised from shared objects',
                 nshared)
    report.count('write sites on the parse path', nsites)
    # R15.3 ---------------------------------------------------------------
    r3 = report.rule('R15.3', 'instance attributes read by Lexer/Parser '
                     'methods are initialised per instance', floor=20)
    for m, cls in ((lm, 'Lexer'), (pm, 'Parser')):
        if cls not in m.classes:
            raise AnalysisError('%s vanished' % cls)
        node = m.classes[cls]
        methods = m.class_methods(cls)
        class_level = set(methods)
        for st in node.body:
            if isinstance(st, ast.Assign):
                for t in st.targets:
                    if isinstance(t, ast.Name):
                        class_level.add(t.id)
        init_stores = set()
        init = methods.get('__init__')
        if init is None:
            raise AnalysisError('%s.__init__ vanished' % cls)
        todo = [init]
        seen = set()
        while todo:
            f = todo.pop()
            if f.name in seen:
                continue
            seen.add(f.name)
            init_stores.update(self_attr_stores(f))
            for n in ast.walk(f):
                if isinstance(n, ast.Attribute) and isinstance(
                        n.ctx, ast.Store) and isinstance(
                        n.value, ast.Name) and n.value.id == 'self':
                    init_stores.add(n.attr)
                if isinstance(n, ast.Call) and isinstance(
                        n.func, ast.Attribute) and isinstance(
                        n.func.value, ast.Name) and \
                        n.func.value.id == 'self' and \
                        n.func.attr in methods:
                    todo.append(methods[n.func.attr])
        for name, f in sorted(methods.items()):
            for n in ast.walk(f):
                if isinstance(n, ast.Attribute) and isinstance(
                        n.ctx, ast.Load) and isinstance(
                        n.value, ast.Name) and n.value.id == 'self':
                    ok = n.attr in init_stores or n.attr in class_level
                    r3.check(
                        ok, '%s.%s reads self.%s' % (cls, name, n.attr),
                        '%s.%s reads self.%s' % (cls, name, n.attr),
                        'self.%s is read but neither __init__ (nor the '
                        'methods it calls) nor the class body defines it: '
                        'its value would depend on earlier calls' % n.attr,
                        where='%s:%s.%s' % (m.name, cls, name))
    report.assumptions.append(
        'ply builds/loads its tables per yacc()/lex() call and shares '
        'imported table modules read-only (outside the analysed code)')
    report.not_decided.append(
        'behaviour of ply itself under concurrency')
    report.trusted_base += ['CPython ast', 'write-site classification']
