# -*- coding: utf-8 -*-
"""
Token-fusion analysis shared by C01 (indent table) and C02 (minify tables).

For every window (token class A, layout run, token class B) of the print
grammar whose run can print nothing under the table, and every pair of
boundary atoms (last of A, first of B):  if the simulated run is silent,
the lexer automata must show that a.b re-lexes with a as its first token,
and the pair must respect the ES5 adjacency restriction of 7.8.3.
"""
from __future__ import annotations

import re

from engine.common import AnalysisError
from engine.layout import Tables, process_run, RULETYPES_MOD
from engine.lexauto import LexAutomata
from engine.rx import CharSet
from engine.srcindex import Sym, need_const, RegexConst
from engine.stream import PrintGrammar
from .shared import models

CORE_MOD = 'calmjs.parse.handlers.core'


def K(name):
    return Sym(RULETYPES_MOD, name)


class FusionEngine(object):

    def __init__(self, index):
        self.index = index
        self.M = models(index)
        self.lm = self.M.lexmodel
        core = index.need(CORE_MOD)
        extra = []
        self.handler_consts = {}
        for name, node in core.assigns.items():
            try:
                v = core.fold_name(name)
            except Exception:
                continue
            if isinstance(v, RegexConst):
                extra.append((v.pattern, v.flags))
            self.handler_consts[name] = v
        extra_sets = []
        for name, v in self.handler_consts.items():
            if isinstance(v, (set, frozenset)):
                for s in v:
                    if isinstance(s, str):
                        for ch in s:
                            extra_sets.append(CharSet.of(ch))
        self.LA = LexAutomata(self.lm, extra_patterns=extra,
                              extra_sets=extra_sets)
        self.alpha = self.LA.alpha
        self.T = Tables(index)
        self._tokdfa = {}
        self._fusion = {}
        self._silent = {}
        self.initial = self.LA.ordered('INITIAL')
        self.order_index = {r.type: i for i, r in enumerate(self.initial)}

    # -- token classes -> automata ---------------------------------------

    def tok_dfa(self, tc):
        """(dfa, rule type that lexes it, lexer state)"""
        if tc in self._tokdfa:
            return self._tokdfa[tc]
        if tc[0] == 'lit':
            text = tc[1]
            comp = self.LA.compile(re.escape(text))
            dfa = comp.dfa
            rule = self.first_rule_for(text)
            res = (dfa, rule, 'INITIAL')
        elif tc[0] == 'cls':
            name = tc[1]
            if name == 'REGEX':
                r = self.lm.rule('REGEX', 'regex')
                res = (self.LA.dfa(r), 'REGEX', 'regex')
            else:
                r = self.lm.rule(name)
                res = (self.LA.dfa(r), name, 'INITIAL')
        elif tc[0] == 'elision':
            comp = self.LA.compile(r',+')
            res = (comp.dfa, 'COMMA', 'INITIAL')
        elif tc[0] == 'comment':
            name = 'LINE_COMMENT' if tc[1] == 'LineComment' \
                else 'BLOCK_COMMENT'
            r = self.lm.rule(name)
            res = (self.LA.dfa(r), name, 'INITIAL')
        else:
            raise AnalysisError('unknown token class %r' % (tc,))
        self._tokdfa[tc] = res
        return res

    def first_rule_for(self, text):
        atoms = [self.alpha.atom_of_char(c) for c in text]
        for r in self.initial:
            if self.LA.dfa(r).accepts(atoms):
                return r.type
        raise AnalysisError('no lexer rule matches the printed token %r'
                            % text)

    def representatives(self):
        """one atom per class of atoms that neither the lexer automata nor
        the handler character sets distinguish"""
        if not hasattr(self, '_reps'):
            from engine.rx import category_set
            extra = [self.handler_word_atoms()]
            for ch in sorted(set(''.join(self.special_afters())) |
                             set('$+-.')):
                extra.append({self.alpha.atom_of_char(ch)})
            ident = self.LA.dfa(self.lm.rule('ID'))
            extra.append(set(ident.first_atoms()))
            classes = self.LA.atom_classes(extra)
            self._reps = {}
            for cl in classes:
                for a in cl:
                    self._reps[a] = cl[0]
        return self._reps

    def boundary_atoms(self, tc):
        dfa, _, _ = self.tok_dfa(tc)
        if tc[0] == 'lit':
            return sorted(dfa.last_atoms()), sorted(dfa.first_atoms())
        reps = self.representatives()
        return (sorted({reps[a] for a in dfa.last_atoms()}),
                sorted({reps[a] for a in dfa.first_atoms()}))

    def sample(self, tc, first=None, last=None):
        """a word of the class starting / ending with the given atom"""
        if tc[0] == 'lit':
            return tc[1]
        dfa, _, _ = self.tok_dfa(tc)
        key = ('sample', tc, first, last)
        if key in self._silent:
            return self._silent[key]
        from collections import deque
        seen = {(dfa.start, None): None}
        dq = deque([(dfa.start, None)])
        out = None
        live = dfa.live()
        while dq:
            st = dq.popleft()
            q, la = st
            if q in dfa.accept and la is not None and (
                    last is None or la == last):
                word = []
                cur = st
                while seen[cur] is not None:
                    prev, a = seen[cur]
                    word.append(a)
                    cur = prev
                out = self.alpha.word(word[::-1])
                break
            for a, t in sorted(dfa.trans[q].items()):
                if t not in live:
                    continue
                if q == dfa.start and first is not None and a != first:
                    continue
                nst = (t, a)
                if nst not in seen:
                    seen[nst] = (st, a)
                    dq.append(nst)
        self._silent[key] = out
        return out

    def words(self, tc, first=None, last=None):
        """sample words of the class with the given boundary atom fixed
        and the other boundary ranging over every (representative) atom:
        the layout handlers see whole token texts, so a decision may
        depend on either end of either token"""
        if tc[0] == 'lit':
            return [tc[1]]
        key = ('words', tc, first, last)
        if key in self._silent:
            return self._silent[key]
        la, fa = self.boundary_atoms(tc)
        out = []
        if last is not None:
            for f in fa:
                w = self.sample(tc, first=f, last=last)
                if w is not None and w not in out:
                    out.append(w)
        elif first is not None:
            for l in la:
                w = self.sample(tc, first=first, last=l)
                if w is not None and w not in out:
                    out.append(w)
        self._silent[key] = out
        return out

    # -- fusion ----------------------------------------------------------

    def fusion(self, ta, tb, x, y):
        """witness string if a (ending in atom x) followed directly by b
        (starting with atom y) does not re-lex with a as first token"""
        key = (ta, tb, x, y)
        if key in self._fusion:
            return self._fusion[key]
        dfa_a, rule_a, state_a = self.tok_dfa(ta)
        dfa_b, rule_b, state_b = self.tok_dfa(tb)
        res = None
        if state_a == 'regex':
            rules = [self.lm.rule('REGEX', 'regex')]
        else:
            idx = self.order_index.get(rule_a)
            if idx is None:
                raise AnalysisError('rule %s not in INITIAL order' % rule_a)
            rules = self.initial[:idx + 1]
        for r in rules:
            R = self.LA.dfa(r)
            # quick filter: R must be able to start like some a
            if not (R.first_atoms() & dfa_a.first_atoms()):
                continue
            w = self.LA.extension(R, dfa_a, dfa_b, x, y)
            if w is not None:
                res = (r.type, self.LA.show(w))
                break
        self._fusion[key] = res
        return res

    # -- silence ---------------------------------------------------------

    def table(self, name, **kw):
        return self.T.table(name, **kw)['layout_handlers']

    def run_output(self, handlers, run, before, after):
        def ends(t):
            if t is None:
                return None
            return t if len(t) < 5 else (t[:1], t[-1:])
        key = (id(handlers), run, ends(before), ends(after),
               after in self.special_afters() if after else None)
        if key in self._silent:
            return self._silent[key]
        seqn = [(K(m[0]), m[1]) for m in run]
        # reset per-call state of stateful handlers
        for h in handlers.values():
            if h.kind == 'method' and h.obj is not None and \
                    h.obj.has('_level'):
                h.obj._level = 0
        out = process_run(self.T, handlers, seqn, before, after,
                          self.M.astmodel)
        self._silent[key] = out
        return out

    def handler_word_atoms(self):
        """atoms matched by \\w or `$` (the classes required_space
        knows)"""
        if not hasattr(self, '_word_atoms'):
            from engine.rx import category_set
            cs = category_set('word').union(CharSet.of('$'))
            self._word_atoms = self.alpha.atoms_of(cs)
        return self._word_atoms

    def special_afters(self):
        out = set()
        for v in self.handler_consts.values():
            if isinstance(v, (set, frozenset)):
                out |= {s for s in v if isinstance(s, str)}
        return out


ID_START_REF = None


def identifier_start_or_digit(E):
    """atoms that 7.8.3 forbids right after a NumericLiteral"""
    global ID_START_REF
    iddfa = E.LA.dfa(E.lm.rule('ID'))
    out = set(iddfa.first_atoms())
    for d in '0123456789':
        out.add(E.alpha.atom_of_char(d))
    return out


def fusion_rule(report, E, rid, title, handlers, handled, comments=False,
                floor=1000):
    rule = report.rule(rid, title, floor=floor)
    M = E.M
    PG = PrintGrammar(M, handled, comments=comments)
    # marks that can print nothing: decided per window by simulation; marks
    # without a handler are not even yielded by the walker
    transparent = set()
    for name in handled:
        h = handlers.get(K(name))
        if h is None:
            continue
        # a mark is treated as a potential non-printer unless its handler
        # prints for every abstract (before, after) combination
        always = True
        for before, after in (('a', 'b'), ('+', 'b'), (')', '{'),
                              ('a', '('), (')', ';'), ('1', '.')):
            for cls in ('BinOp', 'While'):
                try:
                    out = E.T.emit(h, cls, before, after, None,
                                   M.astmodel)
                except AnalysisError:
                    out = ['?']
                if not out:
                    always = False
        if not always:
            transparent.add(name)
        for hh in handlers.values():
            if hh.kind == 'method' and hh.obj is not None and \
                    hh.obj.has('_level'):
                hh.obj._level = 0
    windows = PG.analyse(transparent)
    report.count('%s: print-grammar windows' % rid, len(windows))
    report.count('%s: marks that may print nothing' % rid,
                 ' '.join(sorted(transparent)))
    forbidden_after_number = identifier_start_or_digit(E)
    findings = {}
    checked = 0
    contextual = {lex for t, lex in E.lm.fixed.items()
                  if t in ('GETPROP', 'SETPROP') and lex}
    for (ta, run, tb) in sorted(windows, key=repr):
        if ta == 'START' or tb == 'END':
            continue
        la, _ = E.boundary_atoms(ta)
        _, fb = E.boundary_atoms(tb)
        if ta[0] == 'lit' and ta[1] in contextual:
            # `get` / `set` are the accessor keywords only when white space
            # follows (the lexer's look-ahead): whatever the next token
            # is, the run must print some
            for y in fb:
                for after in E.words(tb, first=y)[:1]:
                    out = ''.join(E.run_output(handlers, run, ta[1], after))
                    checked += 1
                    if out[:1].isspace():
                        continue
                    slot = ' '.join('%s(%s)' % (m[0], m[1]) for m in run) \
                        or '<adjacent>'
                    key = '%s|%s|%s: no white space after the accessor ' \
                        'keyword' % (desc(ta), slot, desc(tb))
                    findings.setdefault(key, []).append((
                        '%s%s%s' % (ta[1], out, after),
                        'the lexer reads `%s` as the accessor keyword only '
                        'before white space' % ta[1]))
        for x in la:
            for y in fb:
                w = E.fusion(ta, tb, x, y)
                sect = None
                if ta == ('cls', 'NUMBER') and y in forbidden_after_number:
                    sect = '7.8.3'
                if w is None and sect is None:
                    checked += 1
                    continue
                silent = None
                for before in E.words(ta, last=x):
                    for after in E.words(tb, first=y):
                        out = E.run_output(handlers, run, before, after)
                        if not out:
                            silent = (before, after)
                            break
                    if silent:
                        break
                checked += 1
                if silent is None:
                    continue
                before, after = silent
                slot = ' '.join('%s(%s)' % (m[0], m[1]) for m in run) \
                    or '<adjacent>'
                defs = sorted(set(m[1] for m in run)) or ['-']
                if w is not None:
                    cause = 'lexer rule %s consumes across the boundary' % \
                        w[0]
                    key = classify(E, ta, tb, x, y, w, slot)
                    wit = '%s%s' % (before, after)
                else:
                    cause = 'ES5 7.8.3: a NumericLiteral must not be ' \
                        'immediately followed by an IdentifierStart or ' \
                        'digit'
                    key = '%s|%s|%s (7.8.3)' % (desc(ta), slot, desc(tb))
                    wit = '%s%s' % (before, after)
                findings.setdefault(key, []).append((wit, cause))
    for key, items in sorted(findings.items()):
        wit, cause = items[0]
        rule.fail(key, key.replace('|', ' '),
                  'tokens are printed with nothing between them and fuse '
                  'on re-lexing: `%s` (%s; %d boundary-character pairs)' % (
                      wit, cause, len(items)), witness=wit)
    for _ in range(checked - len(findings)):
        pass
    rule.instances += checked
    rule.discharged += checked
    rule.samples.append({'rule': rid, 'construct':
                         '%d (window, boundary atoms) obligations' % checked,
                         'verdict': 'discharged', 'detail':
                         'run prints white space or the automata show no '
                         'rule can read across the boundary'})
    return rule, PG


def classify(E, ta, tb, x, y, w, slot):
    """finding key: by cause where one cause explains many windows"""
    word = E.handler_word_atoms()
    if w[0] in ('ID', 'GETPROP', 'SETPROP') and (
            x not in word or y not in word):
        return ('%s|%s|%s: identifier character outside \\w at the '
                'boundary (required_space is narrower than the lexer\'s '
                'IdentifierPart)' % (desc(ta), slot, desc(tb)))
    if ta == ('cls', 'REGEX'):
        return 'REGEX followed by a word: the flags swallow it'
    if tb == ('cls', 'REGEX') and w[0] in ('LINE_COMMENT',
                                             'BLOCK_COMMENT'):
        return '%s|%s|REGEX reads as a comment' % (desc(ta), slot)
    return '%s|%s|%s' % (desc(ta), slot, desc(tb))


def desc(tc):
    if tc[0] == 'lit':
        return repr(tc[1])
    if tc[0] == 'cls':
        return tc[1]
    return tc[0]
