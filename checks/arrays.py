# -*- coding: utf-8 -*-
"""
R01.1e - array literals with elisions round-trip (bounded enumeration).

Array / Elision are the one place where what is printed depends on the
*data* of the node (the run lengths of the Elision nodes and whether two
neighbours are Elisions), so the alignment of a definition skeleton with a
production (R01.1) cannot decide them.  They are decided by enumeration:

  1. the productions of array_literal, element_list, elision_opt and
     elision are taken from the extracted grammar; every derivation with at
     most N terminals (assignment_expr is a terminal X here) is generated
     and the parser *actions* of these productions are evaluated from
     their source on it, giving the item list the parser builds
     (expressions and Elision(k) nodes);
  2. that item list is printed by evaluating `ElisionJoinAttr.__call__`
     and `ElisionToken.__call__` from ruletypes.py, with the arguments the
     `Array` / `Elision` definitions of unparsers/es5.py give them;
  3. the printed sentence must itself be one of the generated sentences
     (it re-parses), and the item list built for it must be the same.

The array sub-grammar is unambiguous, which step 1 checks: no sentence is
derived twice.
"""
from __future__ import annotations

import ast

from engine.common import AnalysisError
from engine.absint import Evaluator, Obj, Raised
from engine.tokensem import TokenSemantics, make_node

NTS = ('array_literal', 'element_list', 'elision_opt', 'elision', 'empty')
EXPR = 'assignment_expr'


def derivations(g, nt, budget, memo):
    """all (sentence tuple, tree) of nt with at most `budget` terminals;
    tree = (production, [children]) with children str (terminal) or tree"""
    key = (nt, budget)
    if key in memo:
        return memo[key]
    memo[key] = []          # cut left recursion at equal budget
    out = []
    for prod in g.by_lhs.get(nt, []):
        partial = [((), [])]
        for sym in prod.rhs:
            nxt = []
            for sent, kids in partial:
                room = budget - len(sent)
                if sym == EXPR:
                    if room >= 1:
                        nxt.append((sent + ('X',), kids + ['X']))
                elif sym in NTS:
                    sub_budget = room if sym != nt or kids else room
                    for s2, t2 in derivations_inner(g, sym, room, memo,
                                                    first=(not kids and
                                                           sym == nt)):
                        nxt.append((sent + s2, kids + [t2]))
                else:
                    if room >= 1:
                        nxt.append((sent + (sym,), kids + [sym]))
            partial = nxt
        for sent, kids in partial:
            if len(sent) <= budget:
                out.append((sent, (prod, kids)))
    memo[key] = out
    return out


def derivations_inner(g, sym, room, memo, first):
    # a left-recursive occurrence must leave room for the rest of the
    # production: it is generated with a strictly smaller budget
    if first:
        if room <= 0:
            return []
        return derivations(g, sym, room - 1, memo)
    return derivations(g, sym, room, memo)


class ActionRunner(object):

    def __init__(self, index, g):
        self.g = g
        self.pm = g.parser_module
        self.methods = self.pm.class_methods('Parser')

    def node(self, cls):
        def mk(*args, **kw):
            o = Obj(cls, setpos=('pyfunc', lambda *a, **k: None),
                    findpos=('pyfunc', lambda *a, **k: (0, 0, 0)))
            if cls == 'Elision':
                o.value = args[0] if args else kw.get('value')
            elif cls == 'Array':
                o.items = args[0] if args else kw.get('items')
            else:
                raise AnalysisError('array action builds a %s node' % cls)
            return o
        return ('pyfunc', mk)

    def run(self, tree):
        prod, kids = tree
        vals = [None]
        for k in kids:
            if isinstance(k, str):
                vals.append(Obj('X') if k == 'X' else k)
            else:
                vals.append(self.run(k))
        fn = self.methods.get(prod.func)
        if fn is None:
            raise AnalysisError('parser action %s vanished' % prod.func)
        parser = Obj('Parser', asttypes=Obj(
            'asttypes', Elision=self.node('Elision'),
            Array=self.node('Array')))
        ev = Evaluator(self.pm, 'Parser', self.methods, {}, max_steps=5000)
        try:
            ev.call(fn, [vals], self_obj=parser)
        except Raised as e:
            raise AnalysisError('action %s raises %s' % (prod.func, e.text))
        return vals[0]


def items_key(items):
    out = []
    for it in items:
        if isinstance(it, Obj) and it.__dict__['_cls'] == 'Elision':
            out.append(('E', it.value))
        elif isinstance(it, Obj) and it.__dict__['_cls'] == 'X':
            out.append('X')
        else:
            out.append(('?', repr(it)))
    return tuple(out)


def print_items(T, items, array_term, elision_term):
    """sentence printed for an Array node with these items, by evaluating
    the two token classes"""
    nodes = []
    for it in items:
        if it == 'X':
            nodes.append(make_node('X'))
        else:
            nodes.append(make_node('Elision', value=it[1]))
    arr = Obj('Array', items=nodes)
    arr.__dict__[array_term.attr] = nodes
    kwargs = {'value': ('<layout>',)} if array_term.seq is not None else {}
    tok, ys, _ = T.run(array_term.cls, [array_term.attr], kwargs, arr)
    if not isinstance(ys, list):
        raise AnalysisError('ElisionJoinAttr raises %r' % (ys,))
    out = ['LBRACKET']
    for rec in ys:
        target, definition = rec[1], rec[2]
        if definition is not None:
            continue            # layout between items
        if isinstance(target, Obj) and target.__dict__['_cls'] == 'Elision':
            t2, ys2, _ = T.run(elision_term.cls, [],
                               {'attr': elision_term.attr,
                                'value': elision_term.value}, target)
            if not isinstance(ys2, list) or len(ys2) != 1 or \
                    not isinstance(ys2[0][1], str):
                raise AnalysisError('ElisionToken yields %r' % (ys2,))
            text = ys2[0][1]
            if set(text) - {','}:
                raise AnalysisError('Elision prints %r' % text)
            out.extend(['COMMA'] * len(text))
        elif isinstance(target, Obj) and target.__dict__['_cls'] == 'X':
            out.append('X')
        else:
            raise AnalysisError('Array prints %r' % (target,))
    out.append('RBRACKET')
    return tuple(out)


def dictated(sent):
    """items ES5 11.1.4 dictates for the sentence [ ... ]: an Elision(k)
    for every run of commas, where the one comma that separates (or
    follows) an element is not counted"""
    body = sent[1:-1]
    out = []
    i = 0
    seen_x = False
    while i < len(body):
        if body[i] == 'X':
            out.append('X')
            seen_x = True
            i += 1
            continue
        k = 0
        while i < len(body) and body[i] == 'COMMA':
            k += 1
            i += 1
        if seen_x and out and out[-1] == 'X':
            k -= 1          # the separator after the element
        if k > 0:
            out.append(('E', k))
    return tuple(out)


def array_rule(report, index, M, rid, bound=7, reference=False):
    g = M.grammar
    D = M.definitions
    for nt in NTS[:-1]:
        if nt not in g.by_lhs:
            raise AnalysisError('nonterminal %s vanished' % nt)
    if 'Array' not in D.defs or 'Elision' not in D.defs:
        raise AnalysisError('Array / Elision definitions vanished')
    aterms = [t for t in D.defs['Array'] if t.kind == 'elisionjoin']
    eterms = [t for t in D.defs['Elision'] if t.kind == 'elisiontoken']
    texts = [t.value for t in D.defs['Array'] if t.kind == 'text']
    if len(aterms) != 1 or len(eterms) != 1 or texts != ['[', ']']:
        raise AnalysisError('Array / Elision definitions have an '
                            'unexpected shape')
    r = report.rule(rid, 'array literals with elisions re-parse to the '
                    'same items (all derivations up to %d tokens)' % bound,
                    floor=30)
    memo = {}
    runner = ActionRunner(index, g)
    built = {}
    dup = []
    for sent, tree in derivations(g, 'array_literal', bound, memo):
        node = runner.run(tree)
        if not (isinstance(node, Obj) and node.__dict__['_cls'] == 'Array'):
            raise AnalysisError('array_literal builds %r' % (node,))
        key = items_key(node.items)
        if sent in built and built[sent] != key:
            dup.append(sent)
        built[sent] = key
    r.check(not dup, 'array sub-grammar unambiguous', 'array_literal',
            'sentences with two derivations building different items: %r'
            % dup[:3], where='parsers/es5.py:p_array_literal')
    T = TokenSemantics(index)
    for sent, key in sorted(built.items(), key=lambda kv: (len(kv[0]),
                                                           kv[0])):
        src = ' '.join(show(sent))
        if any(k[0] == '?' for k in key if isinstance(k, tuple)):
            r.fail('items %s' % src, src, 'the parser builds %r' % (key,),
                   where='parsers/es5.py:p_element_list')
            continue
        if reference:
            want = dictated(sent)
            r.check(key == want, 'array tree %s' % src, src,
                    'the parser builds the items %s; ES5 11.1.4 dictates '
                    '%s' % (show_items(key), show_items(want)),
                    where='parsers/es5.py:p_elision / p_element_list / '
                    'p_array_literal', witness='x = %s;' % ''.join(
                        show(sent)))
        printed = print_items(T, key, aterms[0], eterms[0])
        again = built.get(printed)
        r.check(again == key, 'array %s' % src, src,
                'parsed items %s are printed as `%s`, which %s' % (
                    show_items(key), ' '.join(show(printed)),
                    'is not an array literal' if again is None else
                    're-parses to the items %s' % show_items(again)),
                where='ruletypes.py:ElisionJoinAttr / '
                'parsers/es5.py:p_element_list',
                witness='x = %s;' % ''.join(show(sent)))
    report.count('%s: array derivations' % rid, len(built))
    return r


def show(sent):
    m = {'LBRACKET': '[', 'RBRACKET': ']', 'COMMA': ',', 'X': 'x'}
    return [m.get(s, s) for s in sent]


def show_items(key):
    return '[' + ', '.join('x' if k == 'X' else 'Elision(%s)' % k[1]
                           for k in key) + ']'
