# -*- coding: utf-8 -*-
"""
C20 - pretty output is indented exactly by block depth, ends with one
newline.

R20.1 balance: on every path through every definition (#Indent == #Dedent,
      no negative prefix; Optional / separator sequences are neutral);
      tuple keys of the indent table that contain Indent/Dedent map to a
      handler with the same net level effect
R20.2 lock-step with braces: at every token of every definition the level
      delta equals #`{` - #`}` emitted so far (+1 inside a case/default
      body)
R20.3 in every layout sequence, the level changes precede the last line
      break and nothing that prints a space follows it; definitions that
      end in a Dedent are always followed by a line break in their users
R20.4 Indentator handlers: decision tables (level arithmetic, newline +
      level x indent string, optional newline emits exactly one)
"""
from __future__ import annotations

import ast

from engine.common import AnalysisError
from engine.absint import Evaluator, Obj, Raised
from engine.layout import Tables, process_run, RULETYPES_MOD
from engine.srcindex import Sym
from .shared import models

OPEN = ('OpenBlock',)
CLOSE = ('CloseBlock',)
NEWLINES = ('Newline', 'OptionalNewline')
SPACES = ('Space', 'RequiredSpace', 'OptionalSpace')



def guard_transcriptions(index, M, report=None, rid=None, depth=3,
                         strict=True):
    """the flattening performed by walker.walk / Dispatcher is assumed by
    the printer model of /verif/engine.  It is no longer guarded by a
    digest: walk is evaluated from its source on a table of abstract
    scenarios and compared with the model (checks/walkerdiff.py).  With
    `rid` a deviating token sequence is a failure of that rule; any other
    deviation stops the check as a stale model."""
    T = Tables(index)
    from .walkerdiff import walker_rule
    if report is not None and rid is None:
        # a stale model stops the check, but only after the rules that
        # evaluate the source itself have had their say
        report.deferred.append(
            lambda: walker_rule(report, index, None, depth, strict))
    elif report is not None:
        walker_rule(report, index, rid, depth, strict)
    return T


def guard_tokens(report, index, M, rid=None):
    """the Token classes are no longer digest-guarded: they are evaluated
    from their source (checks/tokens.py).  With `rid` deviations are
    reported as failures of that rule (C01, C02); without, a deviation
    stops the check as a stale printer model"""
    from .tokens import token_rule
    if rid is None:
        report.deferred.append(
            lambda: token_rule(report, index, M, None, violation=False))
        return None
    return token_rule(report, index, M, rid, violation=True)


def level_effect(T, handler):
    if handler.kind != 'method':
        return 0
    obj = handler.obj
    obj._level = 5
    T.emit(handler, 'Block', 'a', 'b', None)
    d = obj._level - 5
    obj._level = 0
    return d


def seq_delta(seq, effects):
    """(net delta, min prefix) of a term sequence; raises ValueError with a
    message if an Optional / separator sequence is not neutral"""
    level = 0
    low = 0
    for t in seq:
        if t.kind == 'layout':
            level += effects.get(t.name, 0)
            low = min(low, level)
        elif t.kind in ('optional', 'join', 'elisionjoin') and t.seq:
            d, lo = seq_delta(t.seq, effects)
            if d != 0:
                raise ValueError(
                    '%s(%s ...) changes the level by %+d: the depth would '
                    'depend on the presence / number of elements' % (
                        t.cls, t.attr, d))
            low = min(low, level + lo)
    return level, low


def run(report, index, tier):
    M = models(index)
    D, A, am = M.definitions, M.actions, M.astmodel
    T = guard_transcriptions(index, M, report)
    guard_tokens(report, index, M)
    from . import c14
    c14.rules(report, index)
    table = T.table('indent', indent_str='  ')['layout_handlers']
    from .runs import uniformity_rule
    uniformity_rule(report, M, T, 'R20.6', [('indent table', table)])
    K = lambda n: Sym(RULETYPES_MOD, n)   # noqa: E731
    report.explanation = (
        'The definitions table and the indent rule table are analysed as '
        'data: level effects of the handlers are obtained by abstract '
        'evaluation of the Indentator methods, then balance, lock-step '
        'with braces and the position of line breaks are checked on every '
        'path through every definition.')
    effects = {}
    for name in ('Indent', 'Dedent', 'Newline', 'OptionalNewline',
                 'OpenBlock', 'CloseBlock', 'EndStatement', 'Space',
                 'OptionalSpace', 'RequiredSpace'):
        h = table.get(K(name))
        if h is None:
            raise AnalysisError('indent table has no handler for %s' % name)
        effects[name] = level_effect(T, h)
    r1 = report.rule('R20.1', 'Indent/Dedent balance on every path of '
                     'every definition', floor=50)
    if effects['Indent'] != 1 or effects['Dedent'] != -1:
        r1.fail('handler effects', 'Indentator.layout_handler_indent/dedent',
                'Indent changes the level by %+d and Dedent by %+d' % (
                    effects['Indent'], effects['Dedent']),
                where='handlers/indentation.py')
    for name in ('Newline', 'OptionalNewline', 'OpenBlock', 'CloseBlock',
                 'EndStatement', 'Space', 'OptionalSpace', 'RequiredSpace'):
        r1.check(effects[name] == 0, 'handler effect %s' % name,
                 'handler of %s' % name,
                 'the handler of %s changes the indentation level by %+d'
                 % (name, effects[name]), where='rules.py:indent')
    for defname, seq in sorted(D.defs.items()):
        try:
            d, lo = seq_delta(seq, effects)
        except ValueError as e:
            r1.fail(defname, defname, str(e),
                    where='unparsers/es5.py:%s' % defname)
            continue
        r1.check(d == 0 and lo >= 0, defname, defname,
                 'net level change %+d, lowest prefix %+d: the depth does '
                 'not return to its value after a %s node' % (
                     d, lo, defname), where='unparsers/es5.py:%s' % defname)
    # tuple keys
    for key, h in table.items():
        if not isinstance(key, tuple):
            continue
        names = []

        def flat(k):
            for x in k:
                if isinstance(x, tuple):
                    flat(x)
                else:
                    names.append(x.name)
        flat(key)
        if not any(n in ('Indent', 'Dedent') for n in names):
            continue
        want = sum(effects.get(n, 0) for n in names)
        got = level_effect(T, h) if h.kind != 'notimplemented' else want
        r1.check(got == want, 'tuple %s' % (names,), 'table key %s' % (
            names,), 'the normalised sequence %s changes the level by %+d '
            'but its handler %s by %+d' % (names, want, h, got),
            where='rules.py:indent')
    # R20.2 ---------------------------------------------------------------
    r2 = report.rule('R20.2', 'level delta == braces opened - closed at '
                     'every token (+1 in case/default bodies)', floor=150)
    case_like = set()
    for oc in A.all_outcomes():
        for node in oc.nodes:
            if node.cls == 'CaseBlock':
                pass
    for nt in ('case_clause', 'default_clause'):
        for k in A.kinds.get(nt, ()):
            if k[0] == 'node':
                case_like.add(k[1])

    def walk_lockstep(seq, defname, state, offset_allowed):
        for t in seq:
            if t.kind == 'layout':
                if t.name in OPEN:
                    check(state, defname, t, pre=True)
                    state['braces'] += 1
                elif t.name in CLOSE:
                    state['braces'] -= 1
                    check(state, defname, t)
                else:
                    state['level'] += effects.get(t.name, 0)
                continue
            if t.kind == 'struct':
                continue
            if t.kind == 'text' and t.value.strip() == '{':
                check(state, defname, t)
                state['braces'] += 1
                continue
            if t.kind == 'text' and t.value.strip() == '}':
                state['braces'] -= 1
                check(state, defname, t)
                continue
            if t.kind == 'attr' and t.cls == 'CommentsAttr':
                continue
            if t.kind == 'text' and t.value.strip() == ':' and \
                    defname in case_like:
                check(state, defname, t)
                state['case'] = 1
                continue
            if t.kind == 'optional':
                walk_lockstep(t.seq, defname, state, offset_allowed)
                continue
            check(state, defname, t)
            if t.kind in ('join', 'elisionjoin') and t.seq:
                sub = dict(state)
                walk_lockstep(t.seq, defname, sub, offset_allowed)

    def check(state, defname, t, pre=False):
        want = state['braces'] + state.get('case', 0)
        r2.check(
            state['level'] == want, '%s @%s' % (defname, t.ordinal or t.name),
            '%s at %r' % (defname, t),
            'indentation level delta is %+d where %d brace(s) are open%s: '
            'the line starting here is indented by the wrong depth' % (
                state['level'], state['braces'],
                ' (+1 for the case body)' if state.get('case') else ''),
            where='unparsers/es5.py:%s' % defname)

    for defname, seq in sorted(D.defs.items()):
        state = {'level': 0, 'braces': 0, 'case': 0}
        walk_lockstep(seq, defname, state, defname in case_like)

    # R20.3 ---------------------------------------------------------------
    r3 = report.rule('R20.3', 'level changes precede the last line break of '
                     'a layout sequence; no space after it', floor=40)
    trailing_dedent = set()

    def sequences(seq):
        """maximal runs of consecutive layout marks in a term sequence;
        yields (marks, position) with position in start/middle/end"""
        run = []
        started = False
        for t in seq:
            if t.kind == 'layout':
                run.append(t.name)
                continue
            if t.kind == 'struct' or (t.kind == 'attr' and
                                      t.cls == 'CommentsAttr'):
                continue
            if run:
                yield run, 'middle' if started else 'start'
            run = []
            started = True
            if t.seq:
                for x in sequences(t.seq):
                    yield x
        if run:
            yield run, 'end' if started else 'only'

    for defname, seq in sorted(D.defs.items()):
        for marks, pos in sequences(seq):
            construct = '%s: %s (%s)' % (defname, ' '.join(marks), pos)
            nl = [i for i, m in enumerate(marks) if m in NEWLINES]
            lv = [i for i, m in enumerate(marks) if m in ('Indent',
                                                          'Dedent')]
            sp = [i for i, m in enumerate(marks) if m in SPACES]
            if nl:
                ok = all(i < nl[-1] for i in lv)
                # (Indent, Newline, Dedent) is normalised to a no-op when
                # nothing is printed in between; a following mark then
                # provides the line break
                r3.check(ok or (marks[:3] == ['Indent', 'Newline', 'Dedent']
                                and len(nl) > 1 and
                                all(i < nl[-1] for i in lv)),
                         '%s %s' % (defname, ' '.join(marks)), construct,
                         'a level change follows the last line break of '
                         'the sequence: the indentation written after the '
                         'break is not the depth of the next token',
                         where='unparsers/es5.py:%s' % defname)
                r3.check(not any(i > nl[-1] for i in sp),
                         '%s %s space' % (defname, ' '.join(marks)),
                         construct, 'a space follows the line break: extra '
                         'leading white space',
                         where='unparsers/es5.py:%s' % defname)
            elif lv:
                if pos == 'end' and all(marks[i] == 'Dedent' for i in lv):
                    trailing_dedent.add(defname)
                    r3.ok(construct, 'trailing Dedent: users must break '
                          'the line')
                else:
                    r3.fail('%s %s' % (defname, ' '.join(marks)), construct,
                            'level change without a line break before the '
                            'next token',
                            where='unparsers/es5.py:%s' % defname)
    # users of definitions that end in a Dedent
    for defname, seq in sorted(D.defs.items()):
        terms = list(D.walk_terms(defname))
        for t in D.defs[defname]:
            if t.kind != 'join' or t.deferrable != 'Iter':
                continue
            # which node kinds does this definition iterate over?
            elem = set()
            for oc in A.all_outcomes():
                for node in oc.nodes:
                    if node.cls != defname:
                        continue
                    for v in node.attrs.values():
                        from engine.actions import ListVal, Slot
                        if isinstance(v, ListVal):
                            for kind, p in v.parts:
                                if isinstance(p, Slot):
                                    ks = M.printer.kinds(p)
                                    if kind == 'item':
                                        elem |= {k[1] for k in ks
                                                 if k[0] == 'node'}
                                    else:
                                        elem |= {k[1] for k in A.elem_kinds
                                                 .get(p.sym, ()) if
                                                 k[0] == 'node'}
            if not (elem & trailing_dedent):
                continue
            sepnames = [x.name for x in (t.seq or []) if x.kind == 'layout']
            after = []
            idx = D.defs[defname].index(t)
            for x in D.defs[defname][idx + 1:]:
                if x.kind == 'layout':
                    after.append(x.name)
                else:
                    break
            ok = any(n in NEWLINES for n in sepnames) and any(
                n in NEWLINES for n in after)
            r3.check(ok, '%s users of %s' % (defname, sorted(
                elem & trailing_dedent)), '%s iterates over %s' % (
                    defname, sorted(elem & trailing_dedent)),
                'elements end in a Dedent but the separator %s / the marks '
                'after the list %s do not break the line' % (
                    sepnames, after), where='unparsers/es5.py:%s' % defname)

    # R20.4 ---------------------------------------------------------------
    r4raw = report.rule('R20.4', 'Indentator handlers and the final newline '
                        '(decision tables)', floor=20)

    class Cells(object):
        """failing cells for the empty indentation string have one cause
        and are reported as one finding"""
        def __init__(self):
            self.empty_cells = []
            self.indent_str = None

        def check(self, ok, key, construct, detail, where=None):
            if ok:
                r4raw.ok(construct)
            elif self.indent_str == '':
                self.empty_cells.append((construct, detail, where))
            else:
                r4raw.fail(key, construct, detail, where=where)
    r4 = Cells()
    hn = table[K('Newline')]
    hon = table[K('OptionalNewline')]
    for indent_str in ('  ', '\t', ''):
        tab = T.table('indent', indent_str=indent_str)['layout_handlers']
        r4.indent_str = indent_str
        hn = tab[K('Newline')]
        hon = tab[K('OptionalNewline')]
        for level in (0, 1, 2, 3, 7, 8, 15, 16, 17, 31, 32, 33, 64, 100):
            for before in ('a', '// c ', '/* c */\t', '}'):
                hn.obj._level = level
                got = T.emit(hn, 'Block', before, 'b', None)
                want = ['\n'] + ([indent_str * level] if indent_str * level
                                 else [])
                r4.check(got == want, 'newline level=%d indent=%r%s' % (
                    level, indent_str, '' if before == 'a' else
                    ' before=%r' % before),
                    'layout_handler_newline(level=%d, indent_str=%r, '
                    'before=%r)' % (level, indent_str, before),
                    'emits %r, expected %r' % (got, want),
                    where='handlers/indentation.py:Indentator.'
                    'layout_handler_newline')
            for before, prev, need_nl in (
                    ('}', None, True), ('}', '\n', False),
                    (';', '  ', True), (None, None, True),
                    ('x\n', None, False)):
                hon.obj._level = level
                got = T.emit(hon, 'Block', before, None, prev)
                if before == 'x\n':
                    want = []
                else:
                    want = (['\n'] if need_nl else []) + (
                        [indent_str * level] if indent_str * level else [])
                r4.check(
                    got == want, 'optional newline level=%d indent=%r '
                    'before=%r prev=%r' % (level, indent_str, before, prev),
                    'layout_handler_newline_optional(level=%d, indent=%r, '
                    'before=%r, prev=%r)' % (level, indent_str, before,
                                             prev),
                    'emits %r, expected %r' % (got, want),
                    where='handlers/indentation.py:Indentator.'
                    'layout_handler_newline_optional')
            hn.obj._level = 0
            hon.obj._level = 0
    if r4.empty_cells:
        c, d, w = r4.empty_cells[0]
        r4raw.fail('empty indentation string is not honoured',
                   '%s (+%d more cells)' % (c, len(r4.empty_cells) - 1),
                   'with indent_str=\'\' the handlers indent by the '
                   'dispatcher default instead of by nothing (%s): the '
                   'empty string is treated like None' % d, where=w)
    r4 = r4raw
    prog = D.defs.get('ES5Program')
    if prog is None:
        raise AnalysisError('definition ES5Program vanished')
    marks = [t.name for t in prog if t.kind == 'layout']
    r4.check(marks[-1:] == ['OptionalNewline'] and prog[-1].kind == 'layout',
             'ES5Program ends with OptionalNewline', 'ES5Program',
             'the program definition does not end in OptionalNewline: the '
             'output would not end with exactly one newline',
             where='unparsers/es5.py:ES5Program')
    # R20.5 ---------------------------------------------------------------
    r5 = report.rule('R20.5', 'the level counter starts at zero for every '
                     'print call (Indentator created per call)', floor=2)
    rules_mod = index.need('calmjs.parse.rules')
    from engine.srcindex import need_function
    fn = need_function(rules_mod, 'indent')
    inner = [st for st in fn.body if isinstance(st, ast.FunctionDef)]
    returned = [st.value.id for st in fn.body if isinstance(st, ast.Return)
                and isinstance(st.value, ast.Name)]
    closure = [f for f in inner if f.name in returned]
    if not closure:
        raise AnalysisError('rules.indent does not return a nested rule '
                            'function')

    def creates(node):
        return [n for n in ast.walk(node) if isinstance(n, ast.Call) and
                isinstance(n.func, ast.Name) and n.func.id == 'Indentator']
    outer_sites = [n for st in fn.body if st not in inner
                   for n in creates(st)]
    r5.check(bool(creates(closure[0])), 'rule closure creates the '
             'Indentator', 'rules.indent.%s' % closure[0].name,
             'the rule closure that BaseUnparser.setup() calls on every '
             'print does not create the Indentator',
             where='rules.py:indent')
    r5.check(not outer_sites, 'no Indentator outside the per-call closure',
             'rules.indent', 'an Indentator is created once per printer '
             'object (in the outer factory): its level counter survives a '
             'print call that was abandoned or raised, so the next output '
             'starts at a non-zero depth', where='rules.py:indent')
    imod = index.need('calmjs.parse.handlers.indentation')
    init = need_function(imod, '__init__', 'Indentator')
    fresh = Obj('Indentator')
    ev = Evaluator(imod, 'Indentator', imod.class_methods('Indentator'), {})
    try:
        ev.call(init, ['  '], self_obj=fresh)
        lvl = fresh._level if fresh.has('_level') else 'unset'
    except Raised as e:
        lvl = 'raises %s' % e.text
    r5.check(lvl == 0, 'Indentator starts at level 0',
             'Indentator.__init__', 'a new Indentator starts with the '
             'level %r' % (lvl,), where='handlers/indentation.py:Indentator')
    report.extra['exhaustive'] = True
    report.not_decided.append('multi-line tokens (exempt in the statement)')
    report.trusted_base += [
        'abstract evaluator (walker.walk / process_layouts / the Token '
        'classes are evaluated from their source, not transcribed)']
