# -*- coding: utf-8 -*-
"""
R03.5 - cross-membership of the parser's grammar and the ES5.1 reference
grammar (ECMA-262 5.1 Annex A.3 - A.5), both as data.

The reference is written once for the base family with the spec's two
annotations; the NoIn and no-brace/function variants are generated
mechanically.  Deliberate deviations of the repository are applied as named
transformations.  Sentences with shortest derivations covering every
production (quick) and every (production, position, child production) pair
(thorough) of one grammar are tested for membership in the other with an
Earley recogniser.  A violation is only raised with a concrete token
string one grammar derives and the other does not.
"""
from __future__ import annotations

import concurrent.futures as cf
import os

from engine.common import AnalysisError
from engine.earley import CFG, Earley
from .shared import models

KEYWORDS = '''BREAK CASE CATCH CONTINUE DEBUGGER DEFAULT DELETE DO ELSE
FINALLY FOR FUNCTION IF IN INSTANCEOF NEW RETURN SWITCH THIS THROW TRY TYPEOF
VAR VOID WHILE WITH NULL TRUE FALSE CLASS CONST ENUM EXPORT EXTENDS IMPORT
SUPER'''.split()

REFERENCE = '''
Program : SourceElements_opt
SourceElements_opt : | SourceElements
SourceElements : SourceElement | SourceElements SourceElement
SourceElement : Statement | FunctionDeclaration
FunctionDeclaration : FUNCTION ID LPAREN FormalParameterList_opt RPAREN LBRACE FunctionBody RBRACE
FunctionExpression : FUNCTION LPAREN FormalParameterList_opt RPAREN LBRACE FunctionBody RBRACE | FUNCTION ID LPAREN FormalParameterList_opt RPAREN LBRACE FunctionBody RBRACE
FormalParameterList_opt : | FormalParameterList
FormalParameterList : ID | FormalParameterList COMMA ID
FunctionBody : SourceElements_opt

Statement : Block | VariableStatement | EmptyStatement | ExpressionStatement | IfStatement | IterationStatement | ContinueStatement | BreakStatement | ReturnStatement | WithStatement | LabelledStatement | SwitchStatement | ThrowStatement | TryStatement | DebuggerStatement | FunctionDeclaration
Block : LBRACE SourceElements_opt RBRACE
VariableStatement : VAR VariableDeclarationList SEMI
VariableDeclarationList : VariableDeclaration | VariableDeclarationList COMMA VariableDeclaration
VariableDeclaration : ID | ID Initialiser
Initialiser : EQ AssignmentExpression
EmptyStatement : SEMI
ExpressionStatement : Expression@nobf SEMI
IfStatement : IF LPAREN Expression RPAREN Statement ELSE Statement | IF LPAREN Expression RPAREN Statement
IterationStatement : DO Statement WHILE LPAREN Expression RPAREN SEMI | WHILE LPAREN Expression RPAREN Statement | FOR LPAREN Expression@noin_opt SEMI Expression_opt SEMI Expression_opt RPAREN Statement | FOR LPAREN VAR VariableDeclarationList@noin SEMI Expression_opt SEMI Expression_opt RPAREN Statement | FOR LPAREN LeftHandSideExpression IN Expression RPAREN Statement | FOR LPAREN VAR VariableDeclaration@noin IN Expression RPAREN Statement
Expression_opt : | Expression
Expression@noin_opt : | Expression@noin
ContinueStatement : CONTINUE SEMI | CONTINUE ID SEMI
BreakStatement : BREAK SEMI | BREAK ID SEMI
ReturnStatement : RETURN SEMI | RETURN Expression SEMI
WithStatement : WITH LPAREN Expression RPAREN Statement
SwitchStatement : SWITCH LPAREN Expression RPAREN CaseBlock
CaseBlock : LBRACE CaseClauses_opt RBRACE | LBRACE CaseClauses_opt DefaultClause CaseClauses_opt RBRACE
CaseClauses_opt : | CaseClauses
CaseClauses : CaseClause | CaseClauses CaseClause
CaseClause : CASE Expression COLON SourceElements_opt
DefaultClause : DEFAULT COLON SourceElements_opt
LabelledStatement : ID COLON Statement
ThrowStatement : THROW Expression SEMI
TryStatement : TRY Block Catch | TRY Block Finally | TRY Block Catch Finally
Catch : CATCH LPAREN ID RPAREN Block
Finally : FINALLY Block
DebuggerStatement : DEBUGGER SEMI

PrimaryExpression : THIS | ID | Literal | ArrayLiteral | ObjectLiteral | LPAREN Expression RPAREN
Literal : NULL | TRUE | FALSE | NUMBER | STRING | REGEX
ArrayLiteral : LBRACKET Elision_opt RBRACKET | LBRACKET ElementList RBRACKET | LBRACKET ElementList COMMA Elision_opt RBRACKET
ElementList : Elision_opt AssignmentExpression | ElementList COMMA Elision_opt AssignmentExpression
Elision_opt : | Elision
Elision : COMMA | Elision COMMA
ObjectLiteral : LBRACE RBRACE | LBRACE PropertyNameAndValueList RBRACE | LBRACE PropertyNameAndValueList COMMA RBRACE
PropertyNameAndValueList : PropertyAssignment | PropertyNameAndValueList COMMA PropertyAssignment
PropertyAssignment : PropertyName COLON AssignmentExpression | GETPROP PropertyName LPAREN RPAREN LBRACE FunctionBody RBRACE | SETPROP PropertyName LPAREN ID RPAREN LBRACE FunctionBody RBRACE
PropertyName : IdentifierName | STRING | NUMBER
MemberExpression : PrimaryExpression | FunctionExpression | MemberExpression LBRACKET Expression RBRACKET | MemberExpression PERIOD IdentifierName | NEW MemberExpression Arguments
NewExpression : MemberExpression | NEW NewExpression
CallExpression : MemberExpression Arguments | CallExpression Arguments | CallExpression LBRACKET Expression RBRACKET | CallExpression PERIOD IdentifierName
Arguments : LPAREN RPAREN | LPAREN ArgumentList RPAREN
ArgumentList : AssignmentExpression | ArgumentList COMMA AssignmentExpression
LeftHandSideExpression : NewExpression | CallExpression
PostfixExpression : LeftHandSideExpression | LeftHandSideExpression PLUSPLUS | LeftHandSideExpression MINUSMINUS
UnaryExpression : PostfixExpression | DELETE UnaryExpression | VOID UnaryExpression | TYPEOF UnaryExpression | PLUSPLUS UnaryExpression | MINUSMINUS UnaryExpression | PLUS UnaryExpression | MINUS UnaryExpression | BNOT UnaryExpression | NOT UnaryExpression
MultiplicativeExpression : UnaryExpression | MultiplicativeExpression MULT UnaryExpression | MultiplicativeExpression DIV UnaryExpression | MultiplicativeExpression MOD UnaryExpression
AdditiveExpression : MultiplicativeExpression | AdditiveExpression PLUS MultiplicativeExpression | AdditiveExpression MINUS MultiplicativeExpression
ShiftExpression : AdditiveExpression | ShiftExpression LSHIFT AdditiveExpression | ShiftExpression RSHIFT AdditiveExpression | ShiftExpression URSHIFT AdditiveExpression
RelationalExpression : ShiftExpression | RelationalExpression LT ShiftExpression | RelationalExpression GT ShiftExpression | RelationalExpression LE ShiftExpression | RelationalExpression GE ShiftExpression | RelationalExpression INSTANCEOF ShiftExpression | RelationalExpression IN ShiftExpression
EqualityExpression : RelationalExpression | EqualityExpression EQEQ RelationalExpression | EqualityExpression NE RelationalExpression | EqualityExpression STREQ RelationalExpression | EqualityExpression STRNEQ RelationalExpression
BitwiseANDExpression : EqualityExpression | BitwiseANDExpression BAND EqualityExpression
BitwiseXORExpression : BitwiseANDExpression | BitwiseXORExpression BXOR BitwiseANDExpression
BitwiseORExpression : BitwiseXORExpression | BitwiseORExpression BOR BitwiseXORExpression
LogicalANDExpression : BitwiseORExpression | LogicalANDExpression AND BitwiseORExpression
LogicalORExpression : LogicalANDExpression | LogicalORExpression OR LogicalANDExpression
ConditionalExpression : LogicalORExpression | LogicalORExpression CONDOP AssignmentExpression COLON AssignmentExpression
AssignmentExpression : ConditionalExpression | LeftHandSideExpression AssignmentOperator AssignmentExpression
AssignmentOperator : EQ | MULTEQUAL | DIVEQUAL | MODEQUAL | PLUSEQUAL | MINUSEQUAL | LSHIFTEQUAL | RSHIFTEQUAL | URSHIFTEQUAL | ANDEQUAL | XOREQUAL | OREQUAL
Expression : AssignmentExpression | Expression COMMA AssignmentExpression
'''

BRACKETS = {'LPAREN': 'RPAREN', 'LBRACKET': 'RBRACKET', 'CONDOP': 'COLON',
            'LBRACE': 'RBRACE'}
# nonterminals that carry the spec's [In] parameter
IN_PARAM = {'RelationalExpression', 'EqualityExpression',
            'BitwiseANDExpression', 'BitwiseXORExpression',
            'BitwiseORExpression', 'LogicalANDExpression',
            'LogicalORExpression', 'ConditionalExpression',
            'AssignmentExpression', 'Expression', 'VariableDeclarationList',
            'VariableDeclaration', 'Initialiser'}


def parse_reference():
    base = {}
    order = []
    for line in REFERENCE.strip().splitlines():
        line = line.strip()
        if not line:
            continue
        lhs, rhs = line.split(':', 1)
        lhs = lhs.strip()
        alts = [tuple(a.split()) for a in rhs.split('|')]
        base[lhs] = alts
        order.append(lhs)
    base['IdentifierName'] = [('ID',)] + [(k,) for k in KEYWORDS]
    order.append('IdentifierName')
    return base, order


def enclosed(rhs):
    out = set()
    stack = []
    for i, s in enumerate(rhs):
        if stack and s == BRACKETS[stack[-1]]:
            stack.pop()
            continue
        if stack:
            out.add(i)
        if s in BRACKETS:
            stack.append(s)
    return out


def build_reference():
    """the full production list with the @noin / @nobf variants generated
    on demand"""
    base, order = parse_reference()
    prods = {}
    todo = ['Program']
    while todo:
        nt = todo.pop()
        if nt in prods:
            continue
        name, _, variant = nt.partition('@')
        opt = False
        if variant.endswith('_opt'):
            variant = variant[:-4]
            opt = True
        if opt:
            prods[nt] = [(), ('%s@%s' % (name, variant),)]
            todo.append('%s@%s' % (name, variant))
            continue
        if name not in base:
            raise AnalysisError('reference grammar: undefined %s' % name)
        alts = []
        for rhs in base[name]:
            enc = enclosed(rhs)
            if variant == 'noin':
                if any(s == 'IN' and i not in enc
                       for i, s in enumerate(rhs)):
                    continue
                new = tuple(
                    (s + '@noin') if (s.partition('@')[0] in IN_PARAM and
                                      i not in enc and '@' not in s)
                    else s for i, s in enumerate(rhs))
                alts.append(new)
            elif variant == 'nobf':
                if not rhs:
                    alts.append(rhs)
                    continue
                head = rhs[0]
                if head in ('LBRACE', 'FUNCTION'):
                    continue
                if head in base or '@' in head:
                    if '@' in head:
                        raise AnalysisError('nested variants')
                    # leftmost nonterminal is restricted recursively
                    alts.append((head + '@nobf',) + rhs[1:])
                else:
                    alts.append(rhs)
            else:
                alts.append(rhs)
        prods[nt] = alts
        for rhs in alts:
            for s in rhs:
                if s.partition('@')[0] in base and s not in prods:
                    todo.append(s)
    # drop variants with an empty language (e.g. ObjectLiteral@nobf)
    changed = True
    while changed:
        changed = False
        for nt in list(prods):
            alts = [r for r in prods[nt]
                    if all((s not in prods) or prods[s] for s in r
                           if s.partition('@')[0] in base)]
            alts = [r for r in alts if all(
                s in prods for s in r if s.partition('@')[0] in base)]
            if len(alts) != len(prods[nt]):
                prods[nt] = alts
                changed = True
    out = []
    for nt, alts in prods.items():
        for r in alts:
            out.append((nt, r))
    return out


def repo_cfg(g):
    """the repository grammar with AUTOSEMI folded into SEMI"""
    out = []
    seen = set()
    for p in g.productions:
        rhs = tuple('SEMI' if s == 'AUTOSEMI' else s for s in p.rhs
                    if s != 'empty')
        key = (p.lhs, rhs)
        if key in seen or p.lhs == 'empty':
            continue
        seen.add(key)
        out.append(key)
    return out


def _member(args):
    prods, start, sentences = args
    e = Earley(CFG(prods, start))
    return [e.accepts(list(s)) for s in sentences]


def classify(sentence):
    """known divergence classes, keyed by cause"""
    s = list(sentence)
    return None


def run(report, index, pairs=True, deep=False):
    M = models(index)
    g = M.grammar
    ref_prods = build_reference()
    # the action of expr_statement rejects a *bare* function expression
    # (ProductionError): those derivations are not accepted by the parser
    filt = any(oc.status == 'raise' and any('FuncExpr' in c[0] and c[1]
                                             for c in oc.conds)
               for p in g.by_lhs.get('expr_statement', [])
               for oc in M.actions.of(p))
    bare = None
    if filt:
        bare = Earley(CFG(ref_prods + [
            ('ExpressionStatement', ('FunctionExpression', 'SEMI'))],
            'Program'))
    repo_prods = repo_cfg(g)
    ref = CFG(ref_prods, 'Program')
    rep = CFG(repo_prods, g.start)
    rule = report.rule('R03.5', 'cross-membership of the parser grammar and '
                       'the ES5.1 reference grammar (Earley, shortest '
                       'covering sentences)', floor=300)
    jobs = []
    for direction, src, dst, dst_prods, dst_start in (
            ('repository sentence in the reference', rep, ref, ref_prods,
             'Program'),
            ('reference sentence in the repository', ref, rep, repo_prods,
             g.start)):
        sents = list(src.coverage_sentences(pairs=pairs))
        if deep:
            have = {s for _, s in sents}
            sents += [(l, s) for l, s in src.deep_sentences()
                      if s not in have]
        jobs.append((direction, sents, dst_prods, dst_start))
    report.count('reference productions', len(ref_prods))
    report.count('repository productions (AUTOSEMI folded)',
                 len(repo_prods))
    workers = min(16, os.cpu_count() or 1)
    for direction, sents, dst_prods, dst_start in jobs:
        report.count('sentences: ' + direction, len(sents))
        chunks = [sents[i::workers * 4] for i in range(workers * 4)]
        chunks = [c for c in chunks if c]
        results = {}
        with cf.ProcessPoolExecutor(max_workers=workers) as ex:
            futs = {ex.submit(_member, (dst_prods, dst_start,
                                        [s for _, s in c])): c
                    for c in chunks}
            for fut in cf.as_completed(futs):
                c = futs[fut]
                for (label, s), ok in zip(c, fut.result()):
                    results[(label, s)] = ok
        failing = {}
        for (label, s), ok in sorted(results.items()):
            if ok:
                rule.ok('%s: %s' % (direction, label))
                continue
            toks = list(s)
            if direction.startswith('repository') and bare is not None \
                    and bare.accepts(toks):
                rule.ok('%s: %s (bare function expression statement: '
                        'rejected by the action of expr_statement)' % (
                            direction, label))
                continue
            if direction.startswith('repository') and 'FUNCTION' in toks:
                # is it only the FUNCTION-initial expression statement?
                cls = 'expression statement beginning with `function`'
            else:
                cls = None
            key = cls or ('%s: %s' % (
                'accepted by the parser grammar only'
                if direction.startswith('repository')
                else 'ES5 sentence the parser grammar does not derive',
                label.split('  [')[0]))
            failing.setdefault(key, []).append((label, s))
        for key, items in sorted(failing.items()):
            label, s = items[0]
            rule.fail(key, '%s (+%d more sentences)' % (label,
                                                       len(items) - 1),
                      '%s: the token string `%s` is derived by one grammar '
                      'and not by the other' % (
                          direction, ' '.join(s)),
                      witness=' '.join(s))
    return rule
