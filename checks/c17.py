# -*- coding: utf-8 -*-
"""
C17 - cached-table and freshly built parsers behave identically.

What the two configurations *do* differently happens inside ply (table
modules are imported instead of being computed); that is outside the
repository and is NOT decided.  The repository contributes the plumbing,
and a defect there is what would make the configurations diverge.  The
plumbing is decided by evaluating the source on the complete configuration
table:

R17.1 Parser.__init__ evaluated with stand-ins for Lexer / ply.lex.lex /
      ply.yacc.yacc for every (lex_optimize, yacc_optimize, tab names
      given or defaulted, with_comments): everything that determines the
      language - the object / module handed to ply, the start symbol, the
      tokens, the comment flag of the lexer - is the same in all
      configurations; the optimisation flags and table names reach ply
      unchanged and uncrossed (lextab -> lex, yacctab -> yacc); nothing
      else varies with the flags.
R17.2 utils.generate_tab_names: the two names differ, name the module, the
      Python major version and the ply version, and change when any of
      them changes (so tables of another ply / Python are never picked
      up); Parser's default table names are the ones generated for its
      own module.
R17.3 parsers/optimize.py regenerates for the names the parser loads:
      reoptimize() purges the modules the parser module names and then
      builds a default Parser; optimize_build() builds a Parser with the
      names generate_tab_names gives for that module.
"""
from __future__ import annotations

import ast
import itertools

from engine.common import AnalysisError
from engine.absint import Evaluator, Obj, Raised
from engine.srcindex import need_function, Sym

PAR = 'calmjs.parse.parsers.es5'
LEX = 'calmjs.parse.lexers.es5'
UTL = 'calmjs.parse.utils'
OPT = 'calmjs.parse.parsers.optimize'


def run(report, index, tier):
    report.explanation = (
        'The plumbing between the repository and ply is evaluated from its '
        'source over the complete configuration table (optimisation flags, '
        'table names, comment flag); table-name generation and the '
        'optimize helper are folded on tables.  What ply does with cached '
        'tables is outside the repository and not decided.')
    pm = index.need(PAR)
    lm = index.need(LEX)
    um = index.need(UTL)
    om = index.need(OPT)
    pmeth = pm.class_methods('Parser')
    lmeth = lm.class_methods('Lexer')
    init = pmeth.get('__init__')
    build = lmeth.get('build')
    if init is None or build is None:
        raise AnalysisError('Parser.__init__ / Lexer.build vanished')
    # R17.5: nothing built for one parser is kept for the next one.  A
    # parser made from cached tables is constructed *after* the tables (and
    # usually other parsers) exist in the process; if construction reads
    # objects an earlier construction left behind, the two kinds differ by
    # history.
    from .c15 import persistent_state_writes
    r5 = report.rule('R17.5', 'constructing a Parser / Lexer writes no '
                     'module-level, class-level, captured or default-'
                     'argument state (no lexer or table object is cached '
                     'by the repository itself)', floor=100)
    found, nsites = persistent_state_writes([pm, lm])
    for key, construct, msg, where in found:
        r5.fail(key, construct, msg + '; a parser built later (in '
                'particular one built from the cached table modules) '
                'shares it', where=where)
    for _ in range(max(0, nsites - len(found))):
        r5.ok('write site', 'local / per instance')
    r1 = report.rule('R17.1', 'everything that determines the language '
                     'reaches ply identically in every configuration; '
                     'flags and table names pass through unchanged '
                     '(configuration table)', floor=16)
    records = {}
    configs = list(itertools.product(
        (True, False), (True, False), ('default', 'given'), (False, True)))
    for lo, yo, tabs, wc in configs:
        log = {}

        def mk_lexer(with_comments=False, log=log, **kw):
            log['lexer_args'] = dict(kw, with_comments=with_comments)
            lexer = Obj('Lexer', tokens=('TOKENS',))

            def lex(**kwargs):
                log['lex'] = kwargs
                return Obj('PlyLexer')

            def lbuild(**kwargs):
                # Lexer.build evaluated from its source
                ev2 = Evaluator(lm, 'Lexer', lmeth, {}, max_steps=2000)
                ev2.functions['ply.lex.lex'] = lex
                ev2.call(build, [], kwargs, self_obj=lexer)
            lexer.build = ('pyfunc', lbuild)
            log['lexer'] = lexer
            return lexer

        def yacc(**kwargs):
            log['yacc'] = kwargs
            return Obj('LRParser')
        ev = Evaluator(pm, 'Parser', pmeth, {
            'Lexer': mk_lexer, 'ply.yacc.yacc': yacc}, max_steps=5000)
        # the module level defaults `lextab, yacctab = generate_tab_names(
        # __name__)` (R17.2) are represented by two sentinels
        ev.constants.update({'lextab': 'DEFAULT.lextab',
                             'yacctab': 'DEFAULT.yacctab',
                             'asttypes': Obj('asttypes')})
        parser = Obj('Parser')
        kwargs = {'lex_optimize': lo, 'yacc_optimize': yo,
                  'with_comments': wc}
        if tabs == 'given':
            kwargs['lextab'] = 'pkg.my_lextab'
            kwargs['yacctab'] = 'pkg.my_yacctab'
        try:
            ev.call(init, [], kwargs, self_obj=parser)
        except Raised as e:
            r1.fail('construction %s' % (kwargs,), 'Parser(%s)' % kwargs,
                    'raises %s' % e.text, where='parsers/es5.py:__init__')
            continue
        label = 'lex_optimize=%s yacc_optimize=%s tabs=%s comments=%s' % (
            lo, yo, tabs, wc)
        lex_kw = log.get('lex')
        yacc_kw = log.get('yacc')
        problems = []
        if lex_kw is None or yacc_kw is None:
            problems.append('ply.lex.lex / ply.yacc.yacc is not called '
                            '(lex: %r, yacc: %r)' % (lex_kw, yacc_kw))
        else:
            if lex_kw.get('object') is not log['lexer']:
                problems.append('ply.lex.lex is not built from the Lexer '
                                'instance (object=%r)' % (
                                    lex_kw.get('object'),))
            if yacc_kw.get('module') is not parser:
                problems.append('ply.yacc.yacc is not built from the '
                                'Parser instance')
            if lex_kw.get('optimize') is not lo:
                problems.append('lex optimize=%r, requested %r' % (
                    lex_kw.get('optimize'), lo))
            if yacc_kw.get('optimize') is not yo:
                problems.append('yacc optimize=%r, requested %r' % (
                    yacc_kw.get('optimize'), yo))
            lt, yt = lex_kw.get('lextab'), yacc_kw.get('tabmodule')
            if tabs == 'given':
                if lt != 'pkg.my_lextab' or yt != 'pkg.my_yacctab':
                    problems.append('table names reach ply as lextab=%r, '
                                    'tabmodule=%r' % (lt, yt))
            elif lt != 'DEFAULT.lextab' or yt != 'DEFAULT.yacctab':
                problems.append('the default table names reach ply as '
                                'lextab=%r, tabmodule=%r' % (lt, yt))
            if log['lexer_args'].get('with_comments') is not wc:
                problems.append('the Lexer is built with with_comments=%r, '
                                'requested %r' % (
                                    log['lexer_args'].get('with_comments'),
                                    wc))
            if not (parser.has('tokens') and
                    parser.tokens == ('TOKENS',)):
                problems.append('Parser.tokens is not the token list of '
                                'its Lexer')
            # everything else must not vary with the optimisation flags
            rest_lex = {k: v for k, v in lex_kw.items()
                        if k not in ('object', 'optimize', 'lextab')}
            rest_yacc = {k: v for k, v in yacc_kw.items()
                         if k not in ('module', 'optimize', 'tabmodule')}
            rest_lexer = {k: v for k, v in log['lexer_args'].items()
                          if k != 'with_comments'}
            key = (tabs, wc)
            prev = records.setdefault(key, (rest_lex, rest_yacc,
                                            rest_lexer, label))
            if (rest_lex, rest_yacc, rest_lexer) != prev[:3]:
                problems.append(
                    'arguments besides the optimisation flags differ from '
                    'the configuration %s: lex %r vs %r, yacc %r vs %r, '
                    'Lexer %r vs %r' % (prev[3], rest_lex, prev[0],
                                        rest_yacc, prev[1], rest_lexer,
                                        prev[2]))
            if yacc_kw.get('start') != 'program':
                problems.append('start symbol %r' % (yacc_kw.get('start'),))
            # what the instance remembers (and later hands to ply's
            # parse()) must not depend on the optimisation flags either
            pfields = {}
            for k, v in parser.__dict__['_fields'].items():
                if k in ('lex_optimize', 'yacc_optimize', 'lextab',
                         'yacctab') or isinstance(v, (Obj, tuple)):
                    continue
                pfields[k] = v
            pcall = {}
            if 'parse' in pmeth:
                parser.parser = Obj('LRParser', parse=(
                    'pyfunc', lambda *a_, **k_: pcall.update(
                        k_, _args=len(a_))))
                ev3 = Evaluator(pm, 'Parser', pmeth, {}, max_steps=2000)
                try:
                    ev3.call(pmeth['parse'], ['x = 1;'], self_obj=parser)
                except Raised as e:
                    pcall['raises'] = e.text
                pcall = {k: v for k, v in pcall.items()
                         if not isinstance(v, Obj)}
            prev2 = records.setdefault(('attrs', tabs, wc),
                                       (pfields, pcall, label))
            if (pfields, pcall) != prev2[:2]:
                problems.append(
                    'the parser instance differs from the configuration '
                    '%s beyond the flags themselves: attributes %r vs %r, '
                    'arguments of LRParser.parse %r vs %r' % (
                        prev2[2], pfields, prev2[0], pcall, prev2[1]))
        r1.check(not problems, label, 'Parser(%s)' % label,
                 '; '.join(problems), where='parsers/es5.py:Parser.__init__'
                 ' / lexers/es5.py:Lexer.build')
    # R17.2 ---------------------------------------------------------------
    r2 = report.rule('R17.2', 'generated table names identify module, '
                     'Python and ply version; the parser defaults to the '
                     'names of its own module', floor=6)
    gtn = need_function(um, 'generate_tab_names')

    def names(modname, version, py=3):
        ev = Evaluator(um, max_steps=2000)
        ev.constants['ply_dist'] = Obj('Dist', version=version) \
            if version is not None else None
        ev.constants['py_major'] = py
        try:
            ret, _ = ev.call(gtn, [modname])
            return tuple(ret)
        except Raised as e:
            return 'raises %s' % e.text
    base = names('calmjs.parse.parsers.es5', '3.11')
    ok = isinstance(base, tuple) and len(base) == 2 and all(
        isinstance(x, str) for x in base)
    r2.check(ok and base[0] != base[1] and 'lextab' in base[0] and
             'yacctab' in base[1], 'two distinct names',
             'generate_tab_names(calmjs.parse.parsers.es5)',
             'returns %r' % (base,), where='utils.py:generate_tab_names')
    if ok:
        for what, other in (
                ('ply version', names('calmjs.parse.parsers.es5', '3.10')),
                ('ply minor version', names('calmjs.parse.parsers.es5',
                                            '3.1.1')),
                ('Python major version', names('calmjs.parse.parsers.es5',
                                               '3.11', py=2)),
                ('module', names('calmjs.parse.parsers.es6', '3.11'))):
            r2.check(isinstance(other, tuple) and other[0] != base[0] and
                     other[1] != base[1], 'names depend on the %s' % what,
                     'generate_tab_names with another %s' % what,
                     'gives %r, the same as %r: tables generated for '
                     'another %s would be loaded' % (other, base, what),
                     where='utils.py:generate_tab_names')
        ev = Evaluator(um, max_steps=2000)
        ev.constants['ply_dist'] = Obj('Dist', version='3.11')
        ev.constants['py_major'] = 3
        try:
            forced, _ = ev.call(gtn, ['calmjs.parse.parsers.es5'],
                                {'_version': '3.8'})
            forced = tuple(forced)
        except Raised as e:
            forced = 'raises %s' % e.text
        r2.check(forced == base, 'installed ply version wins',
                 'generate_tab_names(..., _version="3.8") with ply 3.11 '
                 'installed', 'gives %r, the parser loads %r: the build '
                 'helper (which passes an assumed version) would generate '
                 'modules the parser never loads' % (forced, base),
                 where='utils.py:generate_tab_names')
        for nm in base:
            r2.check(nm.startswith('calmjs.parse.parsers.') and all(
                part.isidentifier() for part in nm.split('.')),
                'importable name %s' % nm.split('.')[-1][:7], nm,
                '%r is not an importable module name inside the parsers '
                'package' % nm, where='utils.py:generate_tab_names')
    # the module level names of the parser module come from its own name
    assigns = [st for st in pm.tree.body if isinstance(st, ast.Assign) and
               isinstance(st.value, ast.Call) and
               ast.unparse(st.value.func).split('.')[-1] ==
               'generate_tab_names']
    ok = len(assigns) == 1 and len(assigns[0].value.args) == 1 and \
        ast.unparse(assigns[0].value.args[0]) == '__name__' and \
        [ast.unparse(t) for t in assigns[0].targets] in (
            ['lextab, yacctab'], ['(lextab, yacctab)'])
    r2.check(ok, 'module level lextab, yacctab',
             'parsers/es5.py: lextab, yacctab = generate_tab_names(__name__)',
             'the parser module does not take its table names from '
             'generate_tab_names(__name__)', where='parsers/es5.py')
    a = init.args
    dmap = dict(zip([x.arg for x in a.args][-len(a.defaults):], a.defaults))
    r2.check(ast.unparse(dmap.get('lextab', ast.Constant(None))) == 'lextab'
             and ast.unparse(dmap.get('yacctab', ast.Constant(None))) ==
             'yacctab' and ast.unparse(dmap.get(
                 'lex_optimize', ast.Constant(None))) == 'True' and
             ast.unparse(dmap.get('yacc_optimize', ast.Constant(None))) ==
             'True', 'Parser defaults', 'Parser.__init__ defaults',
             'the defaults are not (lex_optimize=True, lextab=lextab, '
             'yacc_optimize=True, yacctab=yacctab)',
             where='parsers/es5.py:Parser.__init__')
    # R17.3 ---------------------------------------------------------------
    r3 = report.rule('R17.3', 'the optimize helper regenerates the tables '
                     'under the names the parser loads', floor=2)
    reopt = need_function(om, 'reoptimize')
    obuild = need_function(om, 'optimize_build')
    events = []
    module = Obj('Module', lextab='pkg.lextab_x', yacctab='pkg.yacctab_x',
                 __name__='pkg.es5',
                 Parser=('pyfunc', lambda *a_, **k: events.append(
                     ('Parser', a_, k))))
    ev = Evaluator(om, max_steps=5000)
    ev.functions['validate_imports'] = lambda *n: (
        events.append(('validate', n)) or (['/x/%s.py' % x for x in n], []))
    ev.functions['verify_paths'] = lambda paths: list(paths)
    ev.functions['unlink_modules'] = lambda paths: events.append(
        ('unlink', list(paths)))

    def py_getattr(obj, name, *d):
        if isinstance(obj, Obj) and obj.has(name):
            return getattr(obj, name)
        if d:
            return d[0]
        raise AttributeError(name)
    ev.functions['getattr'] = py_getattr
    try:
        ev.call(reopt, [module])
    except Raised as e:
        events.append(('raises', e.text))
    kinds = [e[0] for e in events]
    ok = kinds[-1:] == ['Parser'] and 'unlink' in kinds and \
        kinds.index('unlink') < kinds.index('Parser') and \
        events[-1][1:] == ((), {}) and any(
            e[0] == 'validate' and set(e[1]) == {'pkg.lextab_x',
                                                  'pkg.yacctab_x'}
            for e in events)
    r3.check(ok, 'reoptimize', 'optimize.reoptimize(module)',
             'does not purge the two table modules the parser module names '
             'and then build a default Parser (observed %r)' % (events,),
             where='parsers/optimize.py:reoptimize')
    # whichever of the two modules exist are purged - a stale table
    # module must not survive because the other one is missing
    for present in (('pkg.lextab_x', 'pkg.yacctab_x'), ('pkg.lextab_x',),
                    ('pkg.yacctab_x',), ()):
        evs = []
        module = Obj('Module', lextab='pkg.lextab_x',
                     yacctab='pkg.yacctab_x', __name__='pkg.es5',
                     Parser=('pyfunc', lambda *a_, **k: evs.append(
                         ('Parser', a_, k))))
        ev = Evaluator(om, max_steps=5000)
        ev.functions['validate_imports'] = lambda *n, present=present: (
            ['/x/%s.py' % x for x in n if x in present],
            [x for x in n if x not in present])
        ev.functions['verify_paths'] = lambda paths: list(paths)
        ev.functions['unlink_modules'] = lambda paths: evs.append(
            ('unlink', sorted(paths)))
        ev.functions['getattr'] = py_getattr
        try:
            ev.call(reopt, [module])
        except Raised as e:
            evs.append(('raises', e.text))
        unlinked = sorted(p_ for e in evs if e[0] == 'unlink'
                          for p_ in e[1])
        before_parser = [e[0] for e in evs]
        ok = unlinked == sorted('/x/%s.py' % x for x in present) and \
            before_parser[-1:] == ['Parser'] and 'raises' not in \
            before_parser
        r3.check(ok, 'reoptimize with %s present' % (
            ' and '.join(x.split('.')[-1] for x in present) or
            'no table module'),
            'optimize.reoptimize(module), existing table modules: %s' % (
                list(present),),
            'the existing table modules are not all removed before the '
            'parser is rebuilt (observed %r): a stale table would be '
            'loaded by the optimised parser' % (evs,),
            where='parsers/optimize.py:reoptimize / purge_tabs')
    events2 = []
    ev = Evaluator(om, max_steps=5000)
    ev.functions['generate_tab_names'] = lambda name, **kw: (
        'T.lex.' + name, 'T.yacc.' + name)
    ev.functions['_assume_ply_version'] = lambda: '3.11'
    ev.functions['validate_imports'] = lambda *n: ([], list(n))
    ev.functions['verify_paths'] = lambda paths: list(paths)
    ev.functions['unlink_modules'] = lambda paths: None
    mod2 = Obj('Module', Parser=('pyfunc', lambda *a_, **k: events2.append(
        (a_, k))))
    ev.functions['import_module'] = lambda name, *a_: mod2
    try:
        ev.call(obuild, ['pkg.es5'])
    except Raised as e:
        events2.append(('raises', e.text))
    ok = events2 == [((), {'lextab': 'T.lex.pkg.es5',
                           'yacctab': 'T.yacc.pkg.es5'})]
    r3.check(ok, 'optimize_build', 'optimize.optimize_build(pkg.es5)',
             'does not build a Parser with the generated names of that '
             'module when they are missing (observed %r)' % (events2,),
             where='parsers/optimize.py:optimize_build')
    vi = need_function(om, 'validate_imports')
    sysmods = {}

    class ImportError_(Exception):
        pass

    def import_module(name, *a_):
        if name.endswith('missing'):
            raise ImportError(name)
        m_ = Obj('Module', __file__='/x/%s.py' % name)
        sysmods[name] = m_
        return m_
    ev = Evaluator(om, max_steps=5000)
    ev.functions['import_module'] = import_module
    ev.constants['sys'] = Obj('sys', modules=sysmods)
    try:
        got, _ = ev.call(vi, ['pkg.lextab_x', 'pkg.yacctab_x',
                              'pkg.tab_missing'])
    except Raised as e:
        got = 'raises %s' % e.text
    ok = got == (['/x/pkg.lextab_x.py', '/x/pkg.yacctab_x.py'],
                 ['pkg.tab_missing']) or got == [
        ['/x/pkg.lextab_x.py', '/x/pkg.yacctab_x.py'], ['pkg.tab_missing']]
    r3.check(ok and not sysmods, 'validate_imports',
             'optimize.validate_imports(lextab, yacctab, <missing>)',
             'returns %r and leaves %s in sys.modules: a table module that '
             'stays imported is picked up again by ply instead of being '
             'regenerated' % (got, sorted(sysmods)),
             where='parsers/optimize.py:validate_imports')
    # R17.4 ---------------------------------------------------------------
    r4 = report.rule('R17.4', 'consistency conditions ply verifies only '
                     'with optimisation off hold (so both modes accept the '
                     'same lexer / grammar)', floor=60)
    from .shared import models
    M = models(index)
    lmodel, g = M.lexmodel, M.grammar
    declared = set(lmodel.tokens)
    # the lexer specification ply reads is the class's, the same for every
    # instance: a rule, `tokens` or `states` set on the instance (by
    # __init__, possibly depending on its flags) is honoured when the
    # tables are computed and ignored when they are loaded
    linit = lm.class_methods('Lexer').get('__init__')
    if linit is None:
        raise AnalysisError('Lexer.__init__ vanished')
    for wc in (False, True):
        for yc in (False, True):
            o = Obj('Lexer', build=('pyfunc', lambda **kw: None))
            evl = Evaluator(lm, 'Lexer', lm.class_methods('Lexer'), {})
            try:
                evl.call(linit, [], {'with_comments': wc,
                                     'yield_comments': yc}, self_obj=o)
                spec = sorted(k for k in o.__dict__['_fields']
                              if k.startswith('t_') or k in (
                                  'tokens', 'states', 'literals'))
            except Raised as e:
                spec = ['raises %s' % e.text]
            r4.check(not spec, 'Lexer(with_comments=%s, yield_comments=%s) '
                     'keeps the class specification' % (wc, yc),
                     'Lexer.__init__(with_comments=%s, yield_comments=%s)'
                     % (wc, yc),
                     'sets %s on the instance: the lexer built without '
                     'cached tables follows it, the one loaded from a '
                     'generated table does not' % ', '.join(spec),
                     where='lexers/es5.py:Lexer.__init__')
    for word, ttype in sorted(lmodel.keywords_dict.items()):
        r4.check(ttype in declared, 'keyword type %s' % ttype,
                 'keywords_dict[%r] = %r' % (word, ttype),
                 'the lexer can emit the token type %r which `tokens` does '
                 'not declare: the unoptimised lexer raises LexError on '
                 '%r, the lexer loaded from a generated table does not '
                 'check' % (ttype, word), where='lexers/es5.py:keywords')
    for rule in lmodel.rules:
        r4.check(rule.type in declared or rule.type in ('ignore', 'error'),
                 'rule type %s' % rule.type, 't_%s' % rule.type,
                 'token rule %s produces an undeclared type' % rule.name,
                 where='lexers/es5.py')
    for t in sorted(g.terminals_used() if hasattr(g, 'terminals_used')
                    else []):
        r4.check(t in declared, 'grammar terminal %s' % t, t,
                 'the grammar uses the undeclared terminal %s' % t)
    # types assigned to tokens inside rule functions
    for n in ast.walk(lm.tree):
        if isinstance(n, ast.Assign) and len(n.targets) == 1 and \
                isinstance(n.targets[0], ast.Attribute) and \
                n.targets[0].attr == 'type' and isinstance(
                    n.value, ast.Constant) and isinstance(
                    n.value.value, str):
            r4.check(n.value.value in declared or n.value.value in (
                'AUTOSEMI',), 'assigned type %s' % n.value.value,
                '%s = %r' % (ast.unparse(n.targets[0]), n.value.value),
                'a token is given the undeclared type %r' % n.value.value,
                where='lexers/es5.py (line %d)' % n.lineno)
    report.not_decided += [
        'that ply drives the same parse from imported tables as from '
        'tables computed in memory (inside ply, outside the repository)',
        'that regenerated table modules are equal to the shipped ones '
        '(build products, absent from the working tree)']
    report.trusted_base += ['the evaluator']
