# -*- coding: utf-8 -*-
"""
WK.1 - unparsers/walker.py (Dispatcher + walk) flattens a definition the way
the printer model assumes.

The model (engine/skeleton.py, engine/stream.py, checks/c20.py) assumes:

  * a definition is executed left to right; Token rules print through the
    token handler, a child node is printed by its own definition;
  * Format marks without a handler in the rule table are dropped,
    Structure marks call their handler immediately and print nothing;
  * the Format marks between two consecutive printed texts form one run,
    which is normalised against the tuple keys of the table and whose
    handlers receive (before = previous text, after = next text or None
    at the end, prev = last text printed by the run so far).

Instead of guarding walker.py by a digest, `walk` and `Dispatcher` are
evaluated from their source (engine/walkersem.py) on every sequence of up
to three (thorough: four) rules over a pool that exercises all of the
above, under two handler tables, and the printed chunk sequence and the
handler call logs are compared with the model's.

Verdicts: a deviation in the sequence of *token texts* (a token lost,
duplicated or out of order) is a violation of the re-parse properties
(C01/C02: the printed token sequence is not the definition's).  Any other
deviation (layout handler arguments, normalisation) makes the printer
model stale: ANALYSIS-ERROR, neither a pass nor a violation - except that
the fusion and semicolon rules do not depend on the model's
normalisation: they evaluate `process_layouts` itself.
"""
from __future__ import annotations

import itertools

from engine.common import AnalysisError
from engine.absint import Obj
from engine.srcindex import Sym
from engine.walkersem import WalkerSemantics, mark
from engine.layout import normalise


class H(object):
    kind = 'func'

    def __init__(self, name, n=1):
        self.name = name
        self.n = n

    def __repr__(self):
        return self.name


def tables():
    S, N, P = mark('Space'), mark('Newline'), mark('PushScope')
    t1 = {S: H('S'), N: H('N'), (S, N): H('SN', 2), P: H('push')}
    t2 = {S: H('S0', 0), N: H('N'), (N, N): H('NN'), ((N, N), S): H('NNS'),
          P: H('push')}
    return [('table 1', t1), ('table 2', t2)]


def scenarios(W, depth):
    S, N, I, P = (mark('Space'), mark('Newline'), mark('Indent'),
                  mark('PushScope'))
    T = lambda v: W.token('Text', value=v)      # noqa: E731
    pool = [
        ('a', lambda: T('a')),
        ('b', lambda: T('b')),
        ('Space', lambda: S),
        ('Newline', lambda: N),
        ('Indent', lambda: I),
        ('PushScope', lambda: P),
        ('Attr(child)', lambda: W.token('Attr', 'child')),
        ('JoinAttr(items)', lambda: W.token(
            'JoinAttr', 'items', value=(T(','), S))),
        ('Optional(opt)', lambda: W.token('Optional', 'opt', (S, T('o')))),
        ('Optional(none)', lambda: W.token('Optional', 'none', (T('!'),))),
    ]
    for n in range(1, depth + 1):
        for combo in itertools.product(pool, repeat=n):
            yield ' '.join(c[0] for c in combo), \
                tuple(c[1]() for c in combo)


def child_definition(W):
    S, N = mark('Space'), mark('Newline')
    return (S, W.token('Text', value='c'), N)


def make_tree():
    child = Obj('NodeC', sourcepath=None)
    root = Obj('NodeR', sourcepath=None, child=child, items=['x', 'y'],
               opt='yes', none=None)
    return root


def model_walk(W, defs, table, root, fmt_log, struct_log, engine=None):
    """the flattening the printer model assumes; returns emitted texts.
    engine: None - runs are processed by the model's transcription of
    process_layouts (normalise); otherwise a callable(run, before, after)
    -> texts that evaluates the real process_layouts, so that only the
    flattening and the buffering of walk are compared"""
    TS = W.TS
    events = []

    def empty(v):
        return v is None or v == []

    def rec(node, definition):
        cls = node.__dict__['_cls']
        for rule in definition:
            if isinstance(rule, Sym):
                if rule not in table:
                    continue
                if TS.is_a(rule.name, 'Structure'):
                    struct_log.append((table[rule].name, cls))
                else:
                    events.append(('fmt', rule, cls))
                continue
            rcls = rule.__dict__['_cls']
            if TS.is_a(rcls, 'JoinAttr'):
                items = list(getattr(node, rule.attr))
                for i, x in enumerate(items):
                    if i:
                        rec(node, rule.value if rule.value else ())
                    value(x)
            elif TS.is_a(rcls, 'Attr'):
                v = getattr(node, rule.attr)
                if not empty(v):
                    value(v)
            elif TS.is_a(rcls, 'Optional'):
                if not empty(getattr(node, rule.attr)):
                    rec(node, rule.value)
            elif TS.is_a(rcls, 'Text'):
                events.append(('text', rule.value))
            else:
                raise AnalysisError('model_walk: rule class %s' % rcls)

    def value(v):
        if isinstance(v, Obj):
            rec(v, defs[v.__dict__['_cls']])
        else:
            events.append(('text', v))

    rec(root, defs[root.__dict__['_cls']])
    out = []
    last = None
    i = 0
    n = len(events)
    if not table:
        return [e[1] for e in events if e[0] == 'text']
    while i <= n:
        run = []
        while i < n and events[i][0] == 'fmt':
            run.append((events[i][1], events[i][2]))
            i += 1
        nxt = events[i][1] if i < n else None
        prev = None
        if engine is not None:
            out.extend(engine(run, last, nxt))
        else:
            for key, h, nodecls in normalise(run, table):
                if h is None:
                    continue
                fmt_log.append((h.name, nodecls, last, nxt, prev))
                for _ in range(h.n):
                    t = '<%s>' % h.name
                    out.append(t)
                    prev = t
        if i < n:
            out.append(nxt)
            last = nxt
        i += 1
    return out


def differential(index, depth=3, strict=True):
    """returns (number of scenarios, [(label, kind, message)] for every
    deviating scenario); kind is 'tokens' or 'layout'.
    strict=False: the runs of the model are processed by the evaluated
    process_layouts too (its semantics is then not part of the
    comparison: the rules that need it evaluate it themselves)."""
    W = WalkerSemantics(index)
    deviations = []
    count = 0
    child_def = child_definition(W)
    for tname, table in tables():
        for label, definition in scenarios(W, depth):
            count += 1
            defs = {'NodeR': definition, 'NodeC': child_def}
            root = make_tree()
            fmt_real, struct_real = [], []
            handlers = {}
            for key, h in table.items():
                if isinstance(key, Sym) and W.TS.is_a(key.name, 'Structure'):
                    handlers[key] = (lambda h: lambda d, nd: struct_real.append(
                        (h.name, nd.__dict__['_cls'])))(h)
                else:
                    def mk(h):
                        def f(d, nd, b, a, p):
                            fmt_real.append((h.name, nd.__dict__['_cls'],
                                             b, a, p))
                            return ['<%s>' % h.name] * h.n
                        return f
                    handlers[key] = mk(h)
            real = W.run_walk(defs, handlers, root)
            fmt_model, struct_model = [], []
            engine = None
            if not strict:
                def engine(run, before, after, table=table):
                    def emit(h, nodecls, b, a, p):
                        fmt_model.append((h.name, nodecls, b, a, p))
                        return ['<%s>' % h.name] * h.n
                    return W.process_layouts(table, run, before, after,
                                             emit)
            model = model_walk(W, defs, table, root, fmt_model, struct_model,
                               engine)
            if real == model and fmt_real == fmt_model and \
                    struct_real == struct_model:
                continue
            where = '%s, definition (%s)' % (tname, label)
            if not isinstance(real, list):
                deviations.append((where, 'layout',
                                   'walk raises %r' % (real,)))
                continue
            rt = [t for t in real if not (isinstance(t, str) and
                                          t.startswith('<'))]
            mt = [t for t in model if not t.startswith('<')]
            if rt != mt:
                deviations.append((where, 'tokens',
                                   'walk prints the token texts %r, the '
                                   'definition denotes %r' % (rt, mt)))
            elif struct_real != struct_model:
                deviations.append((where, 'layout',
                                   'Structure handler calls %r, the model '
                                   'assumes %r' % (struct_real,
                                                   struct_model)))
            else:
                deviations.append((where, 'layout',
                                   'walk prints %r with layout calls %r, '
                                   'the model assumes %r with %r' % (
                                       real, fmt_real, model, fmt_model)))
    return count, deviations


def walker_rule(report, index, rid=None, depth=3, strict=True):
    """rid given (C01/C02): token-text deviations are failures of rule
    `rid`; every other deviation, and all deviations without rid, stop the
    check as a stale model"""
    count, devs = differential(index, depth, strict)
    stale = [d for d in devs if d[1] != 'tokens' or rid is None]
    report.count('walker.walk scenarios evaluated from source', count)
    if rid is not None:
        r = report.rule(rid, 'walker.walk / Dispatcher print exactly the '
                        'token sequence a definition denotes (abstract '
                        'evaluation of walk on %d scenarios)' % count,
                        floor=1)
        toks = [d for d in devs if d[1] == 'tokens']
        r.check(not toks, 'token sequence', 'unparsers/walker.py:walk',
                '%d scenario(s) deviate; first: %s: %s' % (
                    len(toks), toks[0][0] if toks else '',
                    toks[0][2] if toks else ''),
                where='unparsers/walker.py:walk',
                okdetail='%d scenarios agree' % count)
    if stale:
        raise AnalysisError(
            'the printer model is stale: unparsers/walker.py deviates from '
            'the flattening the analysis assumes in %d of %d scenarios; '
            'first: %s: %s' % (len(stale), count, stale[0][0],
                               stale[0][2][:400]))
    return count
