# -*- coding: utf-8 -*-
"""
C08 - emitted fragments carry the true source position of their token.

Positions flow  setpos(p, idx) -> _token_map[text] -> getpos(text, pos)
-> fragment.  All three ends are tables / tiny functions:

R08.1 own-token alignment: for every Text/Operator/`;{}` emission of every
      definition, the entry of the node's token map that the handler looks
      up (text, Token.pos) is the slot the emission is aligned with in the
      production that built the node
R08.2 value tokens (identifier/literal/operator spellings) look up their
      own text; a renamed identifier looks up the original name
R08.3 decision tables of the token and layout handlers and of getpos
      (abstract evaluation): the (line, column) placed in the fragment are
      those getpos returns for that text, fabricated tokens carry column 0
"""
from __future__ import annotations

import ast

from engine.common import AnalysisError
from engine.absint import Evaluator, Obj, Raised
from engine.actions import NodeVal, Slot
from engine.srcindex import need_function, Sym
from .shared import models, skeleton_results
from .c11 import str_valued

CORE_MOD = 'calmjs.parse.handlers.core'


def token_map(M, prod, node):
    """text -> [rhs positions] as Node.setpos records it for this node"""
    g, lm = M.grammar, M.lexmodel
    if not node.setpos:
        return None
    idx, additional, _ = node.setpos[-1]
    tm = {}
    for i, sym in enumerate(prod.rhs, 1):
        if not str_valued(M, sym):
            continue
        if g.is_terminal(sym):
            lexs = [lm.lexeme(sym)]
        else:
            lexs = sorted(set(lm.lexeme(k[1])
                              for k in M.actions.kinds[sym]))
        for lex in lexs:
            if lex is None:
                lex = ('<%s>' % sym)
            tm.setdefault(lex, []).append(i)
    for text, i in additional:
        tm.setdefault(text, []).append(i)
    return tm


def sourcepath_rule(report, index, rid):
    """walker.walk evaluated on small trees whose nodes carry source paths:
    the stack handed to the token handler ends, at every token, with the
    path of the innermost enclosing node that has one"""
    from engine.walkersem import WalkerSemantics
    W = WalkerSemantics(index)
    r = report.rule(rid, 'every token is printed under the source path of '
                    'the innermost enclosing node that carries one '
                    '(walker.walk evaluated on nested source paths)',
                    floor=8)
    T = lambda v: W.token('Text', value=v)      # noqa: E731
    defs = {
        'NodeR': (T('r1'), W.token('Attr', 'child'), T('r2'),
                  W.token('JoinAttr', 'items', value=(T(','),)), T('r3')),
        'NodeC': (T('c1'), W.token('Attr', 'child'), T('c2')),
        'NodeG': (T('g'),),
    }

    def tree(spec):
        """spec: (class, sourcepath, child spec or None, [item specs])"""
        cls, sp, child, items = spec
        o = Obj(cls, sourcepath=sp)
        o.child = tree(child) if child else None
        o.items = [tree(i) for i in items]
        return o

    def expect(spec, stack, out):
        cls, sp, child, items = spec
        st = stack + [sp] if sp else stack
        cur = st[-1]
        if cls == 'NodeG':
            out.append(('g', cur))
            return
        tag = 'r' if cls == 'NodeR' else 'c'
        out.append((tag + '1', cur))
        if child:
            expect(child, st, out)
        out.append((tag + '2', cur))
        if cls == 'NodeR':
            for i, it in enumerate(items):
                if i:
                    out.append((',', cur))
                expect(it, st, out)
            out.append(('r3', cur))
    G = lambda sp: ('NodeG', sp, None, [])               # noqa: E731
    C = lambda sp, child=None: ('NodeC', sp, child, [])  # noqa: E731
    cases = [
        ('one file', ('NodeR', 'a.js', C(None), [])),
        ('no path at all', ('NodeR', None, C(None, G(None)), [])),
        ('inlined second file', ('NodeR', 'a.js', C('b.js'), [])),
        ('second file inside a tree without path',
         ('NodeR', None, C('b.js', G(None)), [G(None)])),
        ('first file again inside the second',
         ('NodeR', 'a.js', C('b.js', G('a.js')), [])),
        ('same file nested in itself',
         ('NodeR', 'a.js', C('a.js', G('a.js')), [G('b.js'), G(None)])),
        ('programs of two files side by side',
         ('NodeR', None, None, [C('a.js', G(None)), C('b.js', G(None)),
                                C('a.js')])),
        ('three levels, three files',
         ('NodeR', 'a.js', C('b.js', G('c.js')), [G('b.js'), C('c.js')])),
    ]
    # programs concatenated into one (what io.write is given for several
    # files): each keeps its own path, through the Iter deferrable
    W.extra_isa = {'NodeP': ('Program', 'Node')}
    defs['NodeP'] = (T('p1'), W.token('JoinAttr', W.deferrable('Iter'),
                                      value=(T(';'),)), T('p2'))

    def ptree(sp, kids):
        o = Obj('NodeP', sourcepath=sp)
        o._children = [ptree(*k) if isinstance(k, tuple) else
                       Obj('NodeG', sourcepath=k) for k in kids]
        return o

    def pexpect(sp, kids, stack, out):
        st = stack + [sp] if sp else stack
        out.append(('p1', st[-1]))
        for i, k in enumerate(kids):
            if i:
                out.append((';', st[-1]))
            if isinstance(k, tuple):
                pexpect(k[0], k[1], st, out)
            else:
                out.append(('g', (st + [k] if k else st)[-1]))
        out.append(('p2', st[-1]))
    for label, (sp, kids) in (
            ('a program inside a program',
             ('a.js', [None, ('b.js', [None, None]), None])),
            ('two programs in a bundle',
             (None, [('a.js', [None]), ('b.js', [None, 'c.js'])]))):
        log = []
        got = W.run_walk(defs, {}, ptree(sp, kids), stack_log=log)
        want = []
        pexpect(sp, kids, [NotImplemented], want)
        seen = [(v, st[-1] if st else '<empty stack>') for v, st in log]
        r.check(isinstance(got, list) and seen == want,
                'source path: ' + label, 'walk over %s' % label,
                'tokens are printed under the paths %r, expected %r' % (
                    seen[:8], want[:8]),
                where='unparsers/walker.py:walk._walk / ruletypes.py:Iter')
    for label, spec in cases:
        log = []
        got = W.run_walk(defs, {}, tree(spec), stack_log=log)
        want = []
        expect(spec, [NotImplemented], want)
        seen = [(v, st[-1] if st else '<empty stack>') for v, st in log]
        r.check(isinstance(got, list) and seen == want,
                'source path: ' + label, 'walk over %s' % label,
                'tokens are printed under the paths %r, expected %r' % (
                    [x for x in seen if x not in want][:4] or seen[:6],
                    [x for x in want if x not in seen][:4] or want[:6]),
                where='unparsers/walker.py:walk._walk')
    return r


def run(report, index, tier):
    from engine.layout import register_fragment_fields
    register_fragment_fields(index)
    M = models(index)
    from .c20 import guard_tokens, guard_transcriptions
    guard_tokens(report, index, M)
    guard_transcriptions(index, M, report, depth=2)
    from . import c14
    c14.rules(report, index)
    sourcepath_rule(report, index, 'R08.5')
    from .c11 import direct_token_map_rule
    direct_token_map_rule(M.grammar, M.actions, report.rule(
        'R08.6', 'token maps written directly by an action record, for '
        'the text of slot i, the position of slot i', floor=0))
    g, A, lm = M.grammar, M.actions, M.lexmodel
    report.explanation = (
        'For every production/definition pair the token map that '
        'Node.setpos builds is computed statically from the production '
        '(string-valued slots in order, plus `additional`), and every '
        'emission of the definition is checked to look up the entry that '
        'denotes the slot it is aligned with; the handlers that copy the '
        'position into the fragment are evaluated abstractly.')
    r1 = report.rule('R08.1', 'definition tokens look up the map entry of '
                     'the slot they are aligned with', floor=150)
    r2 = report.rule('R08.2', 'value tokens look up their own text / the '
                     'original name', floor=20)
    r3 = report.rule('R08.3', 'handlers copy getpos(text, pos) line/column '
                     'into the fragment (decision table)', floor=10)
    n_items = 0
    for res in skeleton_results(index):
        if res['kind'] != 'node' or not res['ok']:
            continue
        prod = res['matched']
        oc = res['outcome']
        posmap = None
        if prod is not res['prod']:
            # the printed skeleton matches another alternative; positions
            # are recorded by the production that built the node: translate
            # the aligned positions by matching the two right-hand sides
            import difflib
            sm = difflib.SequenceMatcher(
                None, list(prod.rhs), list(res['prod'].rhs), autojunk=False)
            posmap = {}
            for a, b, n in sm.get_matching_blocks():
                for d in range(n):
                    posmap[a + d + 1] = b + d + 1
            prod = res['prod']
        maps = {}
        aligned = {}
        for item, pos in res['pairs']:
            aligned[id(item)] = pos
        # (a) tokens aligned with the production
        for item, pos in res['pairs']:
            node = item.node
            if node is None:
                continue
            if id(node) not in maps:
                maps[id(node)] = token_map(M, prod, node)
            tm = maps[id(node)]
            if posmap is not None:
                if isinstance(pos, int):
                    pos = posmap.get(pos, pos)
                else:
                    pos = (posmap.get(pos[0], pos[0]), pos[1])
            p0 = pos if isinstance(pos, int) else pos[0]
            where = 'unparsers/es5.py:%s parsers/es5.py:%s' % (
                item.defname, prod.func)
            if item.kind == 'tok':
                n_items += 1
                term = item.term
                k = term.pos if term is not None and item.src != 'layout' \
                    else 0
                if item.src == 'layout':
                    text = item.lexeme
                elif item.src == 'text':
                    text = term.value
                else:
                    text = item.lexeme
                    if text is None and item.sym:
                        text = '<%s>' % item.sym
                construct = '%s :: %s emits %r (pos=%s) [%s]' % (
                    prod.text, node.cls, text, k, item.src)
                key = '%s|%s|%r#%s@%s' % (prod.text, node.cls, text, k, pos)
                rule = r2 if item.src in ('attr', 'op', 'join') else r1
                if tm is None:
                    # cloned positions (PropIdentifier): the map is the
                    # child's own map
                    rule.ok(construct, 'map cloned from the child')
                    continue
                entries = tm.get(text, [])
                if not isinstance(k, int):
                    rule.ok(construct, 'no explicit position (pos=%r)' % k)
                    continue
                if k >= len(entries):
                    rule.ok(construct, 'no map entry: implied position')
                    continue
                want = p0
                if not isinstance(pos, int):
                    # token of an inlined wrapper nonterminal (`=` of an
                    # initializer): entry must come from `additional`
                    want = pos[0]
                rule.check(
                    entries[k] == want, key, construct,
                    'looks up entry %d of the token map for %r, which is '
                    'the token at p[%d], but the emission corresponds to '
                    'p[%s] of the production' % (k, text, entries[k], pos),
                    where=where)
            elif item.kind == 'list' and isinstance(item.src, tuple):
                # separators printed between the elements of a child list:
                # they belong to the child's productions, so the node's own
                # map must not have an entry that they would pick up
                for sep in item.src[1]:
                    if sep.kind != 'tok' or tm is None:
                        continue
                    n_items += 1
                    k = sep.term.pos if isinstance(sep.term.pos, int) else 0
                    text = sep.term.value
                    entries = tm.get(text, [])
                    construct = '%s :: %s separator %r of p[%d]:%s' % (
                        prod.text, node.cls, text, item.idx, item.sym)
                    r1.check(
                        k >= len(entries),
                        '%s|%s|sep %r' % (prod.text, node.cls, text),
                        construct,
                        'every separator %r printed between the elements '
                        'looks up entry %d of the node\'s map, which exists '
                        'and is the token at p[%d] of this production: all '
                        'separators report that position' % (
                            text, k, entries[k] if k < len(entries)
                            else -1),
                        where=where)
    report.count('emissions checked', n_items)

    # R08.3 ----------------------------------------------------------------
    core = index.need(CORE_MOD)
    am = M.astmodel
    _, getpos = am.find_method('Node', 'getpos')
    if getpos is None:
        raise AnalysisError('Node.getpos vanished')

    # getpos decision table
    def run_getpos(tm, s, idx, **fields):
        node = Obj('Node', _token_map=tm, **fields)
        ev = Evaluator(am.module, 'Node', {}, {
            'getattr': lambda o, n, d=None: getattr(o, n) if o.has(n) else d})
        ret, _ = ev.call(getpos, [s, idx], self_obj=node)
        return tuple(ret)
    tm = {'x': [(5, 2, 3), (9, 4, 1)]}
    for s, idx, want in (('x', 0, (5, 2, 3)), ('x', 1, (9, 4, 1)),
                         ('x', 2, (0, 0, 0)), ('y', 0, (0, 0, 0))):
        got = run_getpos(dict(tm), s, idx)
        r3.check(got == want, 'getpos(%r,%d)' % (s, idx),
                 'Node.getpos(%r, %d) on map %s' % (s, idx, tm),
                 'returns %r, expected %r' % (got, want),
                 where='asttypes.py:Node.getpos')

    # a node without any token map (positioned by hand, or not at all)
    # has no position for any text
    node0 = Obj('Node', lexpos=7, lineno=3, colno=2)
    ev0 = Evaluator(am.module, 'Node', {}, {
        'getattr': lambda o, n, d=None: getattr(o, n) if o.has(n) else d})
    try:
        got0 = tuple(ev0.call(getpos, [';', 0], self_obj=node0)[0])
    except Raised as e:
        got0 = 'raises %s' % e.text
    r3.check(got0 == (None, None, None), 'getpos without a token map',
             'Node.getpos(\';\', 0) on a node that has lexpos / lineno / '
             'colno but no _token_map',
             'returns %r, expected (None, None, None): the node\'s own '
             'position is not the position of an arbitrary text' % (got0,),
             where='asttypes.py:Node.getpos')
    # a leaf node asked for a text other than the one it was built from
    # (a literal rewritten by the printer, a renamed identifier) has no
    # position for it: the position of the raw value is not where the
    # printed text is
    raw = '"a\\\nb"'
    for label, value, s, want in (
            ('rewritten literal', raw, '"ab"', (0, 0, 0)),
            ('raw literal', raw, raw, (7, 3, 2)),
            ('renamed identifier', 'counter', 'a', (0, 0, 0)),
            ('identifier', 'counter', 'counter', (7, 3, 2)),
            ('value not a string', 3, '3', (0, 0, 0))):
        got = run_getpos({value: [(7, 3, 2)]} if isinstance(value, str)
                         else {}, s, 0, value=value)
        r3.check(got == want, 'getpos of a leaf: %s' % label,
                 'Node.getpos(%r, 0) on a node with value %r and the map '
                 '{value: [(7, 3, 2)]}' % (s, value),
                 'returns %r, expected %r: the fragment %r would claim a '
                 'source position at which the source reads %r' % (
                     got, want, s, value), where='asttypes.py:Node.getpos')

    def frag(*a):
        return ('frag',) + tuple(a)
    funcs = {'StreamFragment': frag}
    handlers = {
        'layout_handler_semicolon': ';',
        'layout_handler_semicolon_optional': ';',
        'layout_handler_openbrace': '{',
        'layout_handler_closebrace': '}',
    }
    for name, text in sorted(handlers.items()):
        fn = need_function(core, name)
        calls = []

        def gp(s, i, calls=calls):
            calls.append((s, i))
            return (11, 22, 33)
        node = Obj('Node', getpos=('pyfunc', gp))
        ev = Evaluator(core, None, {}, funcs)
        _, ys = ev.call(fn, [Obj('Dispatcher'), node, 'a', 'b', None])
        ok = ys == [frag(text, 22, 33, None, None)] and calls == [(text, 0)]
        r3.check(ok, name, name,
                 'yields %r after getpos%r; expected the fragment (%r, '
                 'line, column) of getpos(%r, 0)' % (ys, calls, text, text),
                 where='handlers/core.py:%s' % name)
    for name in ('token_handler_str_default', 'token_handler_unobfuscate'):
        fn = need_function(core, name)
        for cls, value, sub, pos in (
                ('Identifier', 'foo', 'a', 0), ('Identifier', 'foo', 'foo', 0),
                ('String', '"s"', '"s"', 0), ('If', None, 'if', 1),
                ('If', None, 'if', None)):
            calls = []

            def gp(s, i, calls=calls):
                calls.append((s, i))
                return (11, 22, 33)
            node = Obj(cls, getpos=('pyfunc', gp), value=value)
            token = Obj('Token', pos=pos)
            ev = Evaluator(core, None, {}, dict(funcs, int=int),
                           is_subclass=am.is_subclass)
            _, ys = ev.call(fn, [token, Obj('Dispatcher'), node, sub,
                                 ('src.js',)])
            renamed = (name == 'token_handler_unobfuscate' and
                       cls == 'Identifier' and value != sub)
            orig = value if renamed else None
            if pos is None:
                want_calls = []
                want = [frag(sub, None, None, orig, 'src.js')]
            else:
                want_calls = [(orig or sub, pos)]
                want = [frag(sub, 22, 33, orig, 'src.js')]
            r3.check(
                ys == want and calls == want_calls,
                '%s(%s,%r,%r,pos=%r)' % (name, cls, value, sub, pos),
                '%s on %s(value=%r) printing %r with Token.pos=%r' % (
                    name, cls, value, sub, pos),
                'yields %r after getpos%r; expected %r after getpos%r' % (
                    ys, calls, want, want_calls),
                where='handlers/core.py:%s' % name)
    # fabricated semicolon carries column 0
    create = need_function(lm.module, '_create_semi_token', 'Lexer')
    for orig in (Obj('LexToken', lineno=3, lexpos=17, colno=5), None):
        ev = Evaluator(lm.module, 'Lexer', {}, {
            'AutoLexToken': lambda: Obj('AutoLexToken')})
        ret, _ = ev.call(create, [orig], self_obj=Obj('Lexer'))
        r3.check(isinstance(ret, Obj) and ret.colno == 0 and
                 ret.type == 'AUTOSEMI',
                 '_create_semi_token(%s)' % ('token' if orig else 'None'),
                 '_create_semi_token(%s)' % ('token' if orig else 'None'),
                 'the inserted semicolon does not carry column 0 (the '
                 'marker for "no source position")',
                 where='lexers/es5.py:Lexer._create_semi_token')
    from .c06 import line_index_rule
    line_index_rule(report, index, 'R08.4')
    report.not_decided += [
        'source paths for nestings of programs deeper than the '
        'scenarios of R08.5 (the sourcepath stack of walker.walk is '
        'evaluated on a program, a program inside a program and two '
        'programs in a bundle)',
        'comma runs of Array elisions (data dependent ElisionJoinAttr)']
    report.trusted_base += ['action interpreter (E3)', 'skeleton alignment '
                            '(E5)', 'abstract evaluator (E6)']
