# -*- coding: utf-8 -*-
"""
C02 - minified output re-parses; no token fusion; dropped `;` are
ASI-restorable.

R02.1 writer/reader skeleton agreement (= R01.1)
R02.2 no token fusion under minify(drop_semi=False|True)
R02.3 only ASI-restorable semicolons are dropped
R02.4 line-continuation stripping is the only literal rewrite
R02.5 the dropped semicolons are restored by this parser: the insertion
      predicate follows 7.9.1 rules 1-2 (= R04.2)
"""
from __future__ import annotations

from engine.common import AnalysisError
from .shared import models, rule_skeleton
from .fusion import FusionEngine, fusion_rule, K
from .c20 import guard_transcriptions, guard_tokens


def run(report, index, tier):
    M = models(index)
    guard_transcriptions(index, M, report, 'R02.7', strict=False)
    report.explanation = (
        'Round-trip induction decided premise by premise on tables: '
        'skeleton agreement of definitions and productions, absence of '
        'token fusion for every (token class, layout run, token class) '
        'window of the print grammar under the minify tables (layout '
        'handlers evaluated abstractly, re-lexing decided on automata of '
        'the token regexes), and the semicolon-dropping contexts.')
    rule_skeleton(report, index, 'R02.1')
    guard_tokens(report, index, M, 'R02.6')
    from . import c15, c14
    c15.rules(report, index)
    c14.rules(report, index)
    from .arrays import array_rule
    array_rule(report, index, M, 'R02.1e', bound=8)
    E = FusionEngine(index)
    for drop in (False, True):
        handlers = E.table('minify', drop_semi=drop)
        handled = {k.name for k in handlers if not isinstance(k, tuple)}
        fusion_rule(report, E, 'R02.2%s' % ('d' if drop else ''),
                    'no token fusion under minify(drop_semi=%s)' % drop,
                    handlers, handled)
    r023(report, index, E, M)
    from .runs import uniformity_rule
    uniformity_rule(report, M, E.T, 'R02.8', [
        ('minify(drop_semi=%s)' % d, E.table('minify', drop_semi=d))
        for d in (False, True)])
    from .c04 import r042
    r042(report, M.lexmodel, M.grammar.parser_module, 'R02.5')
    r024(report, index, E, M)
    report.not_decided.append(
        'the regex/division re-lexing of `/` in the output (C05); '
        'walker.walk on rule sequences longer than those R02.7 evaluates')
    report.trusted_base += [
        'the abstract evaluator (walker.walk / process_layouts / the Token classes are evaluated from their source, not transcribed)',
        'regex front end of CPython (re._parser)', 'transcription of '
        'ply.lex rule ordering', 'ES5 7.8.3 / 7.9.1 facts']


def semicolon_contexts(PG, defname_terms):
    """for a definition: (marks before, marks after) the EndStatement inside
    the definition itself (None when the definition starts / ends there)"""


def r023(report, index, E, M):
    from engine.stream import PrintGrammar
    from engine.layout import process_run
    rule = report.rule('R02.3', 'only ASI-restorable semicolons are dropped '
                       '(every EndStatement site x context x table)',
                       floor=100)
    D = M.definitions
    for drop in (False, True):
        handlers = E.table('minify', drop_semi=drop)
        handled = {k.name for k in handlers if not isinstance(k, tuple)}
        PG = PrintGrammar(M, handled)
        FOL = PG.follow_contexts()
        PRE = PG.precede_contexts()
        sites = []
        for kind, r in sorted(PG.rules.items()):
            if r is None or kind not in PG.FOLLOW:
                continue
            cls = kind.split('@')[0]
            role = kind.split('@')[1] if '@' in kind else None
            if cls not in D.defs:
                continue
            terms = [t for t in D.defs[cls]
                     if not (t.kind == 'attr' and t.cls == 'CommentsAttr')
                     and t.kind != 'struct']
            for i, t in enumerate(terms):
                if t.kind == 'layout' and t.name == 'EndStatement':
                    prevs = None
                    if i > 0:
                        pt = terms[i - 1]
                        prevs = {pt.name if pt.kind == 'layout' and
                                 pt.name in handled else 'T'}
                    nexts = None
                    if i + 1 < len(terms):
                        nt = terms[i + 1]
                        nexts = {(nt.name if nt.kind == 'layout' and
                                  nt.name in handled else 'T', 'tok')}
                    sites.append((kind, cls, role, prevs, nexts))
        # the statements whose body slot can hold the empty statement, with
        # the mark their definition prints before the body
        body_parents = {}
        for pname, pterms in D.defs.items():
            pt_ = [t for t in pterms if not (
                t.kind == 'attr' and t.cls == 'CommentsAttr') and
                t.kind != 'struct']
            for i, t in enumerate(pt_):
                if t.kind != 'attr' or not isinstance(t.attr, str):
                    continue
                sh = PG.attr_shape(pname, t.attr)
                if sh[0] in ('none', 'str') or 'body' not in sh[3] or \
                        'EmptyStatement' not in sh[1]:
                    continue
                m = 'T'
                if i > 0 and pt_[i - 1].kind == 'layout' and \
                        pt_[i - 1].name in handled:
                    m = pt_[i - 1].name
                body_parents.setdefault(m, set()).add(pname)
        for kind, cls, role, prevs, nexts in sites:
            if not FOL.get(kind):
                continue    # not reachable
            if prevs is None:
                prevs = {s for s, _ in PRE[kind]}
            if nexts is None:
                nexts = set(FOL[kind])
            pairs = []
            for p in sorted(prevs):
                if role == 'body':
                    for parent in sorted(body_parents.get(p, {'?'})):
                        pairs.append((p, parent))
                else:
                    pairs.append((p, None))
            for p, parent in pairs:
                for (n, after) in sorted(nexts):
                    if n == 'T' and after != 'tok':
                        continue
                    run = []
                    if p not in ('T', '$'):
                        run.append((K(p), 'While' if p == 'OptionalSpace'
                                    else 'If'))
                    run.append((K('EndStatement'), cls))
                    if n not in ('T', '$'):
                        run.append((K(n), 'Block'))
                    before = None if p == '$' else 'a'
                    aft = 'b' if after == 'tok' else None
                    out = process_run(E.T, handlers, run, before, aft,
                                      M.astmodel)
                    emitted = ';' in out
                    construct = '%s%s%s: [%s] ; [%s] after=%s drop_semi=%s' % (
                        cls, '@' + role if role else '',
                        (' of ' + parent) if parent else '', p, n, after,
                        drop)
                    if role == 'list':
                        rule.ok(construct, 'stand-alone empty statement '
                                '(exempt)')
                        continue
                    if n == 'EndStatement':
                        rule.ok(construct, 'followed by an empty statement')
                        continue
                    if role in ('body', 'synth'):
                        need = True
                        why = 'this `;` is the %s: it is not a statement ' \
                            'terminator and ASI never restores it' % (
                                'body of a loop / if / with / label'
                                if role == 'body' else
                                'separator of a for(;;) header')
                    else:
                        need = not (n == 'CloseBlock' or
                                    (n == '$' and after == 'none'))
                        why = 'ASI restores a terminator only before `}` ' \
                            'or at the end of the input; here the next ' \
                            'printed symbol is %s' % (
                                {'OpenBlock': '`{`', 'T': 'a token'}.get(
                                    n, n))
                    key = '%s%s prev=%s next=%s after=%s' % (
                        'statement terminator' if role is None else
                        cls + '@' + role,
                        (' of %s' % parent) if parent else '', p, n, after)
                    if drop is False:
                        key += ' (drop_semi=False)'
                    rule.check(emitted or not need, key, construct,
                               'the semicolon is not printed (output %r): '
                               '%s' % (''.join(out), why),
                               where='rules.py:minify / handlers/core.py')
    return rule


def r024(report, index, E, M):
    from engine.lexauto import REF_LINE_CONTINUATION
    from engine.rx import equivalent
    from engine.srcindex import need_const, RegexConst, need_function
    import ast
    rule = report.rule('R02.4', 'line-continuation stripping is the only '
                       'literal rewrite and removes exactly `\\` + '
                       'LineTerminatorSequence', floor=3)
    tab = E.T.table('minify', drop_semi=True)['deferrable_handlers']
    names = sorted(k.name for k in tab)
    rule.check(names == ['Literal'] and
               tab[list(tab)[0]].name ==
               'deferrable_handler_literal_continuation',
               'minify deferrables', 'rules.minify: deferrable_handlers',
               'minify rewrites more than string literals: %s' % tab,
               where='rules.py:minify')
    lm = index.need('calmjs.parse.lexers.es5')
    patt = need_const(lm, 'PATT_LINE_CONTINUATION', types=RegexConst)
    got = E.LA.compile(patt.pattern, patt.flags).dfa
    ref = E.LA.compile(REF_LINE_CONTINUATION).dfa
    ok, w = equivalent(got, ref)
    rule.check(ok, 'PATT_LINE_CONTINUATION language',
               'PATT_LINE_CONTINUATION',
               'the pattern differs from `\\` LineTerminatorSequence on %r'
               % (E.alpha.word(w) if w else ''),
               where='lexers/es5.py:PATT_LINE_CONTINUATION')
    core = index.need('calmjs.parse.handlers.core')
    fn = need_function(core, 'deferrable_handler_literal_continuation')
    body = [st for st in fn.body if not (isinstance(st, ast.Expr) and
                                         isinstance(st.value, ast.Constant))]
    ok = len(body) == 1 and isinstance(body[0], ast.Return) and \
        ast.unparse(body[0].value) == \
        "PATT_LINE_CONTINUATION.sub('', node.value)"
    rule.check(ok, 'continuation handler', 'deferrable_handler_literal_'
               'continuation', 'the handler is not `PATT_LINE_CONTINUATION'
               '.sub(\'\', node.value)`',
               where='handlers/core.py')
    # Literal() is used by the String definition only
    users = [d for d in M.definitions.defs
             for t in M.definitions.walk_terms(d)
             if t.deferrable == 'Literal']
    rule.check(users == ['String'], 'Literal users', 'definitions using '
               'Literal()', 'Literal() is used by %s' % users)
    return rule
