# -*- coding: utf-8 -*-
"""
C19 - literal data in a program is extracted as the equal Python value.

The value pipeline (GroupAsMap, AssignmentList, folding) is runtime data
and is NOT decided.  One clause is an agreement between two literal
grammars and is decided:

R19.1 spelling agreement, decided by evaluating the extracting token
      lexeme of String / Number nodes to Python's ast.literal_eval.  For
      every JSON string escape the ES5 lexer accepts, the ES5 value
      (7.8.4) must equal the value Python assigns to the same spelling;
      JSON numbers are a sub-language of the NUMBER token on which both
      agree; true / false / null map to True / False / None
"""
from __future__ import annotations

import ast

from engine.common import AnalysisError
from engine.absint import Obj, Raised
from engine.lexauto import LexAutomata
from engine.rx import includes
from engine.srcindex import CallTerm, Unfoldable, need_function
from .shared import models

EXT = 'calmjs.parse.unparsers.extractor'

# ES5 7.8.4: value of \c for the JSON escape letters
ES5_ESCAPE = {'"': '"', '\\': '\\', '/': '/', 'b': '\b', 'f': '\f',
              'n': '\n', 'r': '\r', 't': '\t'}
# Python (non-raw str literal): recognised single-character escapes;
# anything else keeps the backslash
PY_ESCAPE = {'\\': '\\', "'": "'", '"': '"', 'a': '\a', 'b': '\b',
             'f': '\f', 'n': '\n', 'r': '\r', 't': '\t', 'v': '\v'}
JSON_NUMBER = r'(?:0|[1-9][0-9]*)(?:\.[0-9]+)?(?:[eE][+-]?[0-9]+)?'


class ExtractorTokens(object):
    """the Token classes of unparsers/extractor.py evaluated from their
    source with stand-ins for walk / dispatcher"""

    RT = 'calmjs.parse.ruletypes'

    def __init__(self, index):
        self.index = index
        self.astmodel = None
        self.ext = index.need(EXT)
        self.rt = index.need(self.RT)
        self.own, self.bases, self.home = {}, {}, {}
        for m in (self.rt, self.ext):
            for name, node in m.classes.items():
                self.own[name] = {st.name: st for st in node.body
                                  if isinstance(st, ast.FunctionDef)}
                self.bases[name] = [ast.unparse(b).split('.')[-1]
                                    for b in node.bases]
                self.home[name] = m

        class AssignmentList(list):
            pass
        self.AssignmentList = AssignmentList

    def assignment_list(self, *pairs):
        return self.AssignmentList(pairs)

    def mro(self, name):
        out, todo = [], [name]
        while todo:
            n = todo.pop(0)
            if n in out or n not in self.bases:
                continue
            out.append(n)
            todo = self.bases[n] + todo
        return out

    def methods(self, cls):
        out = {}
        for c in reversed(self.mro(cls)):
            out.update(self.own[c])
        return out

    def evaluator(self, literal_eval=None):
        import collections
        from engine.absint import Evaluator

        def py_getattr(obj, name, *default):
            if isinstance(obj, Obj):
                if obj.has(name):
                    return getattr(obj, name)
                if default:
                    return default[0]
                raise AttributeError(name)
            return getattr(obj, name, *default)

        def safe_eval(x):
            try:
                return ast.literal_eval(x)
            except Exception as exc:
                return 'literal_eval raises %s' % type(exc).__name__
        methods = {c: self.methods(c) for c in self.own}
        ev = Evaluator(
            self.ext, functions={
                'getattr': py_getattr, 'next': next, 'iter': iter,
                'literal_eval': literal_eval or safe_eval,
                'defaultdict': lambda f: collections.defaultdict(list),
                'nodetype': lambda n: n.__dict__['_cls']
                if isinstance(n, Obj) else type(n).__name__,
                'AssignmentList': self.AssignmentList,
                'FoldedFragment': lambda value, folded_type: Obj(
                    'FoldedFragment', value=value, folded_type=folded_type),
                'issubclass': self.issubclass, 'float': float,
                'floor': __import__('math').floor},
            is_subclass=lambda c, b: b in self.mro(c),
            class_methods=methods, class_own=self.own,
            class_bases=self.bases, max_steps=100000)
        ev.inline_module_functions = True
        for c, ms in self.own.items():
            for fd in ms.values():
                ev.context_of[id(fd)] = (self.home[c], c)
        return ev

    def run(self, cls, fields, node, items=None, literal_eval=None):
        """values handed to dispatcher.token by cls(**fields)(walk,
        dispatcher, node); `items` replaces GroupAs.build_items"""
        if cls not in self.own:
            raise AnalysisError('extractor.%s vanished' % cls)
        ev = self.evaluator(literal_eval)
        out = []

        def token(tok, nd, value, stack):
            out.append(value)
            return iter([Obj('ExtractedFragment', value=value, node=nd)])

        def walk(dispatcher, value, definition=None, token=None):
            return [Obj('ExtractedFragment', value=value, node=None)]
        disp = Obj('Dispatcher', token=('pyfunc', token),
                   deferrable=('pyfunc', lambda r: NotImplemented))
        tok = Obj(cls, attr=None, value=None, pos=0)
        for k, v in fields.items():
            setattr(tok, k, v)
        if items is not None:
            wrapped = [Obj('ExtractedFragment', value=i, node=Obj('Node'))
                       for i in items]
            tok.build_items = ('pyfunc', lambda w, d, n: iter(wrapped))
        call = self.methods(cls).get('__call__')
        if call is None:
            raise AnalysisError('extractor.%s has no __call__' % cls)
        try:
            ev.call(call, [('pyfunc', walk), disp, node], self_obj=tok)
        except Raised as e:
            return 'raises %s' % e.text
        except AnalysisError:
            raise
        except Exception as exc:
            return 'raises %s: %s' % (type(exc).__name__, exc)
        return out

    def issubclass(self, a, b):
        from engine.srcindex import Sym
        if isinstance(a, Sym) and isinstance(b, Sym):
            if self.astmodel is None:
                from engine.astmodel import AstModel
                self.astmodel = AstModel(self.index)
            return self.astmodel.is_subclass(a.name, b.name)
        raise AnalysisError('issubclass(%r, %r)' % (a, b))

    def fields_of(self, term):
        """(class name, constructor fields) of a folded token term; the
        Token constructor signature (attr, value, pos) is that of
        ruletypes.Token (checked by the RT rule of C01/C02)"""
        cls = term.func.name.split('.')[-1]
        names = ['attr', 'value', 'pos']
        fields = {}
        for n, v in zip(names, term.args):
            fields[n] = self.value_of(v)
        for k, v in term.kwargs.items():
            fields[k] = self.value_of(v)
        return cls, fields

    def value_of(self, v):
        if isinstance(v, CallTerm):
            cls = v.func.name.split('.')[-1]
            if cls not in self.own:
                raise AnalysisError('extractor token argument %r' % (v,))
            o = Obj(cls)
            if v.args:
                o.attr = self.value_of(v.args[0])
            return o
        if isinstance(v, tuple):
            return tuple(self.value_of(x) for x in v)
        return v

    def unary_minus(self, v):
        cls = 'GroupAsUnaryExprMinus'
        op = self.methods(cls).get('op') if cls in self.own else None
        if op is None:
            raise AnalysisError('extractor.%s.op vanished' % cls)
        ev = self.evaluator()
        ret, _ = ev.call(op, [v], self_obj=Obj(cls))
        return ret


def run(report, index, tier):
    M = models(index)
    lm = M.lexmodel
    ext = index.need(EXT)
    LA = LexAutomata(lm, extra_patterns=[(JSON_NUMBER, 0)])
    report.explanation = (
        'Agreement of two literal grammars: the ES5 lexeme accepted by the '
        'STRING / NUMBER automata of the lexer vs the value Python\'s '
        'literal_eval gives to the same spelling, escape by escape (ES5 '
        '7.8.4 table vs Python\'s string escape table, both embedded).')
    report.not_decided.append(
        'the value pipeline of the extractor (GroupAsMap, AssignmentList, '
        'operator folding): runtime data')
    r = report.rule('R19.1', 'ES5 literal spelling == Python literal_eval '
                    'value for the JSON sub-language', floor=12)
    try:
        defs = ext.fold_name('definitions')
    except Unfoldable as e:
        raise AnalysisError('cannot fold extractor.definitions: %s' % e)

    XS = ExtractorTokens(index)

    class _Keyed(object):
        """the rule with a suffix on every key (one table per variant of
        the definitions)"""

        def __init__(self, rule, sfx, base_failed):
            self.rule, self.sfx, self.base = rule, sfx, base_failed

        def _dup(self, key, a):
            # the same obligation failing with the same outcome in the
            # base table: one defect, reported once (under the base key)
            return bool(self.sfx) and self.base.get(key) == (
                a[1] if len(a) > 1 else None)

        def check(self, cond, key, *a, **k):
            if not cond and not self.sfx:
                self.base[key] = a[1] if len(a) > 1 else None
            if not cond and self._dup(key, a):
                return self.rule.ok(a[0] if a else key,
                                    'as in the base table')
            return self.rule.check(cond, key + self.sfx, *a, **k)

        def fail(self, key, *a, **k):
            if not self.sfx:
                self.base[key] = a[1] if len(a) > 1 else None
            elif self._dup(key, a):
                return self.rule.ok(a[0] if a else key,
                                    'as in the base table')
            return self.rule.fail(key + self.sfx, *a, **k)

        def ok(self, *a, **k):
            return self.rule.ok(*a, **k)

    # the definitions the extractor really uses: extractor(fold_ops=True)
    # updates a copy of the table; an entry of the literal node types it
    # replaces is decided like the original one
    variants = [('', defs)]
    from engine.srcindex import Folder
    xfn = ext.functions.get('extractor')
    if xfn is None:
        raise AnalysisError('extractor.extractor vanished')
    overrides = {}
    for n in ast.walk(xfn):
        d = None
        if isinstance(n, ast.Call) and isinstance(
                n.func, ast.Attribute) and n.func.attr == 'update' and \
                n.args and isinstance(n.args[0], ast.Dict):
            d = n.args[0]
        if d is not None:
            for k_, v_ in zip(d.keys, d.values):
                if isinstance(k_, ast.Constant):
                    overrides[k_.value] = v_
        if isinstance(n, ast.Assign) and len(n.targets) == 1 and \
                isinstance(n.targets[0], ast.Subscript) and isinstance(
                    n.targets[0].slice, ast.Constant):
            overrides[n.targets[0].slice.value] = n.value
    literal_names = ('String', 'Number', 'Boolean', 'Null', 'UnaryExpr')
    touched = sorted(k_ for k_ in overrides if k_ in literal_names)
    report.count('R19.1: definitions replaced by extractor() options',
                 len(overrides))
    if touched:
        defs2 = dict(defs)
        for k_ in touched:
            try:
                defs2[k_] = Folder(ext, None).fold(overrides[k_])
            except Unfoldable as e:
                raise AnalysisError(
                    'extractor() replaces the definition of %s by a value '
                    'that cannot be folded: %s' % (k_, e))
        variants.append((' [definitions of extractor() options]', defs2))
    base_rule = r
    base_failed = {}
    for sfx, defs in variants:
        r = _Keyed(base_rule, sfx, base_failed)

        def token_of(name):
            """(class, fields) of the single token that extracts `name`"""
            v = defs.get(name)
            if not isinstance(v, tuple) or len(v) != 1 or not isinstance(
                    v[0], CallTerm):
                raise AnalysisError('extractor definition %s is not a single '
                                    'token: %r' % (name, v))
            return XS.fields_of(v[0])

        def extract(name, nodecls, lexeme):
            cls, fields = token_of(name)
            got = XS.run(cls, fields, Obj(nodecls, value=lexeme))
            if isinstance(got, list) and len(got) == 1:
                return got[0]
            return got

        def same(a, b):
            return type(a) == type(b) and a == b
        import json as _json
        # strings ------------------------------------------------------------
        sdfa = LA.dfa(lm.rule('STRING'))
        r.check(same(extract('String', 'String', '"abc"'), 'abc') and
                same(extract('String', 'String', "'abc'"), 'abc'),
                'String extracts the text', 'extractor definition String',
                'the literal "abc" is extracted as %r' % (
                    extract('String', 'String', '"abc"'),),
                where='unparsers/extractor.py:definitions')
        for e, es5 in sorted(ES5_ESCAPE.items()):
            lexeme = '"\\%s"' % e
            if not sdfa.accepts_str(lexeme):
                r.fail('escape \\%s not lexed' % e, 'JSON string %s'
                       % lexeme, 'the ES5 lexer rejects the JSON escape '
                       '\\%s' % e, where='lexers/es5.py:t_STRING')
                continue
            got = extract('String', 'String', lexeme)
            r.check(same(got, es5) and same(es5, _json.loads(lexeme)),
                    'escape \\%s' % e, 'JSON/ES5 string %s' % lexeme,
                    'ES5 (and JSON) give the value %r but the extractor gives '
                    '%r for the same spelling' % (es5, got),
                    where='unparsers/extractor.py:%s' % token_of('String')[0],
                    witness='var a = %s' % lexeme)
        # sequences of up to three units over plain characters and the JSON
        # escapes: an escape must not change how its neighbours are read
        import itertools as _it
        units = ['a', '/', 'n', 'u', '0'] + ['\\' + e for e in sorted(
            ES5_ESCAPE)] + ['\\u0041']
        bad_seq = []
        nseq = 0
        for k in (2, 3):
            for seq in _it.product(units, repeat=k):
                lexeme = '"' + ''.join(seq) + '"'
                try:
                    want = _json.loads(lexeme)
                except ValueError:
                    continue
                if not sdfa.accepts_str(lexeme):
                    continue
                if '\\/' in lexeme:
                    continue        # known finding R19.1:escape \/
                nseq += 1
                got = extract('String', 'String', lexeme)
                if not same(got, want):
                    bad_seq.append((lexeme, got, want))
        report.count('R19.1: escape sequences of 2-3 units evaluated', nseq)
        r.check(not bad_seq, 'escape sequences', 'JSON strings of 2-3 units',
                '%d strings are extracted wrongly; first: %s gives %r, a JSON '
                'parser gives %r' % ((len(bad_seq),) + (bad_seq[0] if bad_seq
                                                        else ('', '', ''))),
                where='unparsers/extractor.py:%s' % token_of('String')[0],
                witness='var a = %s' % (bad_seq[0][0] if bad_seq else ''))
        r.check(sdfa.accepts_str('"\\u0041"'), 'unicode escape lexed',
                '"\\u0041"', 'the lexer rejects \\uXXXX')
        for key, lexeme in (('unicode escape', '"\\u0041\\u00e9"'),
                            ('surrogate pair', '"\\ud83d\\ude00"'),
                            ('lone high surrogate', '"\\ud800"'),
                            ('lone low surrogate inside text', '"a\\udc00b"'),
                            ('surrogates in reverse order',
                             '"\\ude00\\ud83d"'),
                            ('high surrogate before a letter', '"\\ud83dx"')):
            got = extract('String', 'String', lexeme)
            want = _json.loads(lexeme)
            r.check(same(got, want), key, 'JSON string %s' % lexeme,
                    'a JSON parser gives %r (%d code point(s)); the extractor '
                    'gives %r (%s code point(s))' % (
                        want, len(want), got, len(got) if isinstance(got, str)
                        else '?'),
                    where='unparsers/extractor.py:%s' % token_of('String')[0],
                    witness='var a = %s' % lexeme)
        # numbers --------------------------------------------------------------
        ndfa = LA.dfa(lm.rule('NUMBER'))
        jdfa = LA.compile(JSON_NUMBER).dfa
        ok, w = includes(ndfa, jdfa)
        r.check(ok, 'JSON numbers lex as NUMBER', 'L(JSON number) subset of '
                'L(NUMBER)', 'the lexer does not accept the JSON number %r as '
                'one NUMBER token' % (LA.alpha.word(w) if w else ''),
                where='lexers/es5.py:t_NUMBER')
        for form in ('0', '7', '12', '100', '1.5', '0.25', '0.0', '1e5', '1E+5',
                     '2.5e-3', '0e0', '0E5', '0e-3', '10e2', '1.0e1'):
            got = extract('Number', 'Number', form)
            want = _json.loads(form)
            r.check(ndfa.accepts_str(form) and jdfa.accepts_str(form) and
                    same(got, want), 'number form %s' % form,
                    'number %s' % form,
                    'the number %s is extracted as %r, a JSON parser gives %r'
                    % (form, got, want),
                    where='unparsers/extractor.py:%s' % token_of('Number')[0],
                    witness='var a = %s' % form)
        for text, want in (('true', True), ('false', False)):
            got = extract('Boolean', 'Boolean', text)
            r.check(got is want, 'Boolean mapping %s' % text,
                    'extractor definition Boolean on %s' % text,
                    '%s is extracted as %r' % (text, got),
                    where='unparsers/extractor.py:definitions')
        got = extract('Null', 'Null', 'null')
        r.check(got is None, 'Null mapping', 'extractor definition Null',
                'null is extracted as %r' % (got,),
                where='unparsers/extractor.py:definitions')
        # unary minus is folded separately
        u = defs.get('UnaryExpr')
        r.check(u is not None and 'GroupAsUnaryExprMinus' in repr(u),
                'negative numbers', 'extractor definition UnaryExpr',
                'negative numbers are not folded by GroupAsUnaryExprMinus')
    r = base_rule
    # R19.2: the tokens that build the value ------------------------------
    r2 = report.rule('R19.2', 'extractor tokens yield the JSON value '
                     '(decision table by abstract evaluation)', floor=8)
    AL = XS.assignment_list
    for name, items, want in (
            ('distinct keys', [AL(('a', 1)), AL(('b', 2))],
             {'a': 1, 'b': 2}),
            ('repeated key (last binding wins in JSON and ES5)',
             [AL(('a', 1)), AL(('b', 2)), AL(('a', 3))], {'a': 3, 'b': 2}),
            ('repeated key, nested value',
             [AL(('k', [1])), AL(('k', {'x': None}))], {'k': {'x': None}}),
            ('repeated key, last value null',
             [AL(('a', 1)), AL(('a', None))], {'a': None}),
            ('repeated key, last value false / 0 / empty',
             [AL(('a', 1)), AL(('a', False)), AL(('b', 2)), AL(('b', 0)),
              AL(('c', 'x')), AL(('c', ''))], {'a': False, 'b': 0, 'c': ''}),
            ('repeated key, first value null',
             [AL(('a', None)), AL(('a', 1))], {'a': 1}),
            ('three bindings of one key',
             [AL(('a', 1)), AL(('a', 2)), AL(('a', 3))], {'a': 3}),
            ('empty object', [], {})):
        got = XS.run('GroupAsMap', {'attr': ()}, Obj('Object'),
                     items=items)
        r2.check(got == [want], 'GroupAsMap %s' % name,
                 'object literal with %s' % name,
                 'the properties %r are grouped as %r, a JSON parser gives '
                 '%r' % ([list(i) for i in items], got, want),
                 where='unparsers/extractor.py:GroupAsMap')
    for name, items, want in (
            ('three elements', [1, 'x', None], [1, 'x', None]),
            ('equal elements', [2, 2, 2], [2, 2, 2]),
            ('nested', [[1], {'a': 2}], [[1], {'a': 2}]),
            ('empty', [], [])):
        got = XS.run('GroupAsList', {'attr': ()}, Obj('Array'),
                     items=items)
        r2.check(got == [want], 'GroupAsList %s' % name,
                 'array literal with %s' % name,
                 'the elements %r are grouped as %r' % (items, got),
                 where='unparsers/extractor.py:GroupAsList')
    for op, v, want in (('-', 5, -5), ('-', 2.5, -2.5), ('-', 0, 0)):
        got = XS.unary_minus(v)
        r2.check(got == want and type(got) == type(want),
                 'GroupAsUnaryExprMinus %r' % v, 'literal -%r' % v,
                 '-%r is folded to %r' % (v, got),
                 where='unparsers/extractor.py:GroupAsUnaryExprMinus')
    # the token handler hands the folded value on unchanged (type and
    # value): a negative literal reaches it folded by the unary minus
    the = XS.ext.functions.get('token_handler_extractor')
    if the is None:
        raise AnalysisError('extractor.token_handler_extractor vanished')
    drv = ast.parse(
        'def __drv__(v, node):\n'
        '    a = list(token_handler_extractor(None, None, node, '
        'FoldedFragment(v, Number)))\n'
        '    b = list(token_handler_extractor(None, None, node, v))\n'
        '    return a, b\n').body[0]
    for v in (-5, 0, 2 ** 53 - 1, -(2 ** 53), -(2 ** 53 + 1), 2 ** 53 + 1,
              -9007199254740993, 10 ** 30, -(10 ** 30), 2.5, -0.5, 1e300):
        ev = XS.evaluator()
        ev.iter_hook = lambda o: [o.value, o.folded_type]
        orig_sub = ev.is_subclass
        ev.is_subclass = lambda c, b, orig_sub=orig_sub: c == b or \
            orig_sub(c, b)
        ev.functions['ExtractedFragment'] = lambda val, nd, ty: (
            'EF', val, ty)
        ev.functions['list'] = list
        try:
            ret, _ = ev.call(drv, [v, Obj('Number')])
            vals = [x[1] for part in ret for x in part
                    if isinstance(x, tuple) and x and x[0] == 'EF']
        except Raised as e:
            vals = 'raises %s' % e.text
        ok = isinstance(vals, list) and len(vals) == 2 and all(
            x == v and type(x) is type(v) for x in vals)
        r2.check(ok, 'token handler passes %r on' % v,
                 'token_handler_extractor with the (folded) number %r' % v,
                 'yields the values %r; expected %r (a %s) both folded and '
                 'plain: the extracted number differs from the literal' % (
                     vals, v, type(v).__name__),
                 where='unparsers/extractor.py:token_handler_extractor',
                 witness='var a = %r;' % v)
    report.trusted_base += ['ES5 7.8.4 escape table', 'Python string '
                            'escape table', 'JSON number grammar (RFC '
                            '8259)', 'lexer automata']
