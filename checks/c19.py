# -*- coding: utf-8 -*-
"""
C19 - literal data in a program is extracted as the equal Python value.

The value pipeline (GroupAsMap, AssignmentList, folding) is runtime data
and is NOT decided.  One clause is an agreement between two literal
grammars and is decided:

R19.1 spelling agreement for LiteralEval: the extractor hands the raw ES5
      lexeme of String / Number nodes to Python's ast.literal_eval.  For
      every JSON string escape the ES5 lexer accepts, the ES5 value
      (7.8.4) must equal the value Python assigns to the same spelling;
      JSON numbers are a sub-language of the NUMBER token on which both
      agree; true / false / null map to True / False / None
"""
from __future__ import annotations

import ast

from engine.common import AnalysisError
from engine.lexauto import LexAutomata
from engine.rx import includes
from engine.srcindex import CallTerm, Unfoldable, need_function
from .shared import models

EXT = 'calmjs.parse.unparsers.extractor'

# ES5 7.8.4: value of \c for the JSON escape letters
ES5_ESCAPE = {'"': '"', '\\': '\\', '/': '/', 'b': '\b', 'f': '\f',
              'n': '\n', 'r': '\r', 't': '\t'}
# Python (non-raw str literal): recognised single-character escapes;
# anything else keeps the backslash
PY_ESCAPE = {'\\': '\\', "'": "'", '"': '"', 'a': '\a', 'b': '\b',
             'f': '\f', 'n': '\n', 'r': '\r', 't': '\t', 'v': '\v'}
JSON_NUMBER = r'(?:0|[1-9][0-9]*)(?:\.[0-9]+)?(?:[eE][+-]?[0-9]+)?'


def run(report, index, tier):
    M = models(index)
    lm = M.lexmodel
    ext = index.need(EXT)
    LA = LexAutomata(lm, extra_patterns=[(JSON_NUMBER, 0)])
    report.explanation = (
        'Agreement of two literal grammars: the ES5 lexeme accepted by the '
        'STRING / NUMBER automata of the lexer vs the value Python\'s '
        'literal_eval gives to the same spelling, escape by escape (ES5 '
        '7.8.4 table vs Python\'s string escape table, both embedded).')
    report.not_decided.append(
        'the value pipeline of the extractor (GroupAsMap, AssignmentList, '
        'operator folding): runtime data')
    r = report.rule('R19.1', 'ES5 literal spelling == Python literal_eval '
                    'value for the JSON sub-language', floor=12)
    try:
        defs = ext.fold_name('definitions')
    except Unfoldable as e:
        raise AnalysisError('cannot fold extractor.definitions: %s' % e)

    def shape(name):
        v = defs.get(name)
        if not isinstance(v, tuple) or len(v) != 1 or not isinstance(
                v[0], CallTerm):
            return None
        return v[0]
    s = shape('String')
    uses_eval = s is not None and s.func.name == 'LiteralEval'
    r.check(uses_eval and repr(s.args[0]) == 'Literal()', 'String uses '
            'LiteralEval(Literal())', 'extractor definition String',
            'String is not extracted by literal_eval of the raw lexeme: %r'
            % (s,), where='unparsers/extractor.py:definitions')
    n = shape('Number')
    r.check(n is not None and n.func.name == 'LiteralEval' and
            n.args == ('value',), 'Number uses LiteralEval',
            'extractor definition Number', 'Number is %r' % (n,),
            where='unparsers/extractor.py:definitions')
    le = None
    if 'LiteralEval' in ext.classes:
        le = ext.class_methods('LiteralEval').get('__call__')
    r.check(le is not None and 'literal_eval(chunk.value)' in
            ast.unparse(le), 'LiteralEval evaluates the chunk text',
            'extractor.LiteralEval.__call__',
            'LiteralEval does not apply ast.literal_eval to the printed '
            'lexeme', where='unparsers/extractor.py:LiteralEval')
    b = shape('Boolean')
    rb = ext.class_methods('RawBoolean').get('__call__') \
        if 'RawBoolean' in ext.classes else None
    okb = b is not None and b.func.name == 'RawBoolean' and rb is not None
    if okb:
        t = ast.unparse(rb)
        okb = "value == 'true'" in t and "value == 'false'" in t
    r.check(okb, 'Boolean mapping', 'extractor definition Boolean',
            'true/false are not mapped by exact spelling',
            where='unparsers/extractor.py')
    nl = shape('Null')
    r.check(nl is not None and nl.func.name == 'Raw' and
            nl.kwargs.get('value', 0) is None, 'Null mapping',
            'extractor definition Null', 'null is %r' % (nl,),
            where='unparsers/extractor.py')
    # strings ------------------------------------------------------------
    sdfa = LA.dfa(lm.rule('STRING'))
    if uses_eval:
        for e, es5 in sorted(ES5_ESCAPE.items()):
            lexeme = '"\\%s"' % e
            accepted = sdfa.accepts_str(lexeme)
            if not accepted:
                r.fail('escape \\%s not lexed' % e, 'JSON string %s'
                       % lexeme, 'the ES5 lexer rejects the JSON escape '
                       '\\%s' % e, where='lexers/es5.py:t_STRING')
                continue
            py = PY_ESCAPE.get(e, '\\' + e)
            r.check(py == es5, 'escape \\%s' % e, 'JSON/ES5 string %s'
                    % lexeme,
                    'ES5 (and JSON) give the value %r but Python\'s '
                    'literal_eval of the same spelling gives %r' % (
                        es5, py),
                    where='unparsers/extractor.py:LiteralEval',
                    witness='var a = %s' % lexeme)
        # \uXXXX: same code unit in both; a surrogate pair stays split
        lexeme = '"\\ud83d\\ude00"'
        r.check(sdfa.accepts_str('"\\u0041"'), 'unicode escape lexed',
                '"\\u0041"', 'the lexer rejects \\uXXXX')
        r.fail('surrogate pair', 'JSON string %s' % lexeme,
               'JSON parsers combine a \\uD83D\\uDE00 surrogate pair into '
               'one character (U+1F600); literal_eval of the ES5 lexeme '
               'yields two separate surrogate code points',
               where='unparsers/extractor.py:LiteralEval',
               witness='var a = %s' % lexeme)
    # numbers --------------------------------------------------------------
    ndfa = LA.dfa(lm.rule('NUMBER'))
    jdfa = LA.compile(JSON_NUMBER).dfa
    ok, w = includes(ndfa, jdfa)
    r.check(ok, 'JSON numbers lex as NUMBER', 'L(JSON number) subset of '
            'L(NUMBER)', 'the lexer does not accept the JSON number %r as '
            'one NUMBER token' % (LA.alpha.word(w) if w else ''),
            where='lexers/es5.py:t_NUMBER')
    for form in ('0', '12', '1.5', '0.25', '1e5', '1E+5', '2.5e-3'):
        r.check(ndfa.accepts_str(form) and jdfa.accepts_str(form),
                'number form %s' % form, 'number %s' % form,
                'number form %s is not accepted' % form)
    # unary minus is folded separately
    u = defs.get('UnaryExpr')
    r.check(u is not None and 'GroupAsUnaryExprMinus' in repr(u),
            'negative numbers', 'extractor definition UnaryExpr',
            'negative numbers are not folded by GroupAsUnaryExprMinus')
    report.trusted_base += ['ES5 7.8.4 escape table', 'Python string '
                            'escape table', 'JSON number grammar (RFC '
                            '8259)', 'lexer automata']
