# -*- coding: utf-8 -*-
"""
C16 - tree walking reaches every node exactly once.

R16.1 children() is complete: every attribute that a parser action fills
      with a node or a list of nodes occurs exactly once in the value
      returned by the class's children() (resolved through inheritance),
      as a single child or as a spliced list accordingly
R16.2 Node.__iter__ / Walker.walk / filter / extract: pre-order, each
      child once, only None skipped (decision by abstract evaluation on
      abstract trees)
"""
from __future__ import annotations

import ast
import itertools

from engine.common import AnalysisError
from engine.absint import Evaluator, Obj, Raised
from engine.actions import AttrOf, Const, ListVal, NodeVal, Slot
from engine.srcindex import need_function
from .shared import models

WALKERS_MOD = 'calmjs.parse.walkers'


def attr_kinds(M, v):
    """'node' / 'list' / 'none' / 'scalar' kinds of an attribute value"""
    if isinstance(v, NodeVal):
        return {'node'}
    if isinstance(v, ListVal):
        return {'list'}
    if isinstance(v, Const):
        return {'none'} if v.value is None else {'scalar'}
    if isinstance(v, Slot):
        out = set()
        for k in M.printer.kinds(v):
            out.add({'node': 'node', 'list': 'list', 'none': 'none',
                     'str': 'scalar'}.get(k[0], 'scalar'))
        return out
    if isinstance(v, AttrOf):
        return {'scalar'}
    return {'scalar'}


def run(report, index, tier):
    M = models(index)
    g, A, am = M.grammar, M.actions, M.astmodel
    report.explanation = (
        'The attributes each node class receives from the parser actions '
        '(typed by the action interpreter: node, list of nodes, scalar) are '
        'compared with the shape of the class\'s children(); the generic '
        'walkers are evaluated abstractly on small abstract trees.')
    r1 = report.rule('R16.1', 'children() lists every node-bearing '
                     'attribute exactly once, in the right multiplicity',
                     floor=60)
    r2 = report.rule('R16.2', 'Node.__iter__/Walker.walk/filter/extract: '
                     'pre-order, once, only None skipped', floor=10)
    filled = {}   # cls -> attr -> kinds
    for oc in A.all_outcomes():
        for node in oc.nodes:
            d = filled.setdefault(node.cls, {})
            for attr, v in node.attrs.items():
                d.setdefault(attr, set()).update(attr_kinds(M, v))
    report.count('node classes built by the parser', len(filled))
    for cls in sorted(filled):
        try:
            owner, shape = am.children_shape(cls)
        except AnalysisError as e:
            r1.fail(cls + ' children()', cls, str(e))
            continue
        _, attrmap = am.init_model(cls)
        counts = {}
        for kind, attr in shape:
            counts.setdefault(attr, []).append(kind)
        for attr, kinds in sorted(filled[cls].items()):
            bearing = kinds & {'node', 'list'}
            construct = '%s.%s (%s)' % (cls, attr, '/'.join(sorted(kinds)))
            where = 'asttypes.py:%s.children' % owner
            if not bearing:
                r1.check(attr not in counts, '%s.%s scalar' % (cls, attr),
                         construct, 'children() returns the scalar '
                         'attribute %s as a child' % attr, where=where)
                continue
            n = len(counts.get(attr, []))
            if n != 1:
                r1.fail('%s.%s' % (cls, attr), construct,
                        'the parser stores %s in %s.%s but children() of '
                        '%s lists that attribute %d times: the sub-tree is '
                        '%s' % ('/'.join(sorted(bearing)), cls, attr, owner,
                                n, 'hidden from traversal' if n == 0 else
                                'visited more than once'), where=where)
                continue
            mult = counts[attr][0]
            want = 'many' if 'list' in bearing else 'one'
            if bearing == {'node', 'list'}:
                r1.fail('%s.%s mixed' % (cls, attr), construct,
                        'attribute holds a node on some paths and a list '
                        'on others')
                continue
            r1.check(mult == want, '%s.%s multiplicity' % (cls, attr),
                     construct,
                     'children() uses the attribute as %s but the parser '
                     'stores %s' % ('a single child' if mult == 'one' else
                                    'a list to splice', '/'.join(
                                        sorted(bearing))), where=where)
        for attr in counts:
            r1.check(attr in attrmap or attr == '_children_list',
                     '%s children attr %s' % (cls, attr),
                     '%s.children() -> %s' % (cls, attr),
                     'children() reads %s which __init__ never sets' % attr)

    # R16.2 ---------------------------------------------------------------
    wm = index.need(WALKERS_MOD)
    if 'Walker' not in wm.classes:
        raise AnalysisError('walkers.Walker vanished')
    wmethods = wm.class_methods('Walker')
    _, node_iter = am.find_method('Node', '__iter__')
    if node_iter is None:
        raise AnalysisError('Node.__iter__ vanished')

    def mk(name, *kids):
        # children() hands out the node's own list, as the classes built
        # on `_children_list` (Program, Block, ...) and Array / Arguments /
        # Object do: whoever reorders or empties it changes the tree
        own = list(kids)
        return Obj('Node', name=name, children=('pyfunc', lambda: own))

    def iter_hook(obj):
        ev = Evaluator(am.module, 'Node', {}, {})
        ev.iter_hook = iter_hook
        _, ys = ev.call(node_iter, [], self_obj=obj)
        return ys

    def preorder(n):
        out = []
        for k in n.children[1]():
            if k is None:
                continue
            out.append(k.name)
            out.extend(preorder(k))
        return out

    leaf = lambda n: mk(n)   # noqa: E731

    def unary(name, kid):
        # like UnaryExpr / PostfixExpr: the operand is kept in `.value`
        o = mk(name, kid)
        o.value = kid
        o.op = '!'
        return o

    def scalar(name):
        # like Identifier / Number: a string in `.value`
        o = mk(name)
        o.value = name
        return o
    trees = [
        mk('r', unary('u', mk('f', leaf('x'), scalar('y'))), scalar('z')),
        mk('r', unary('a', unary('u', leaf('x')))),
        mk('r'),
        mk('r', leaf('a')),
        mk('r', None, leaf('a'), None),
        mk('r', mk('a', leaf('b'), leaf('c')), leaf('d')),
        mk('r', mk('a', None, mk('b', leaf('c'))), None, mk('d', leaf('e'))),
        mk('r', leaf('a'), leaf('a')),
    ]
    nshort = [0]
    for i, tree in enumerate(trees):
        want = preorder(tree)
        for meth in ('walk', 'filter'):
            if meth not in wmethods:
                raise AnalysisError('Walker.%s vanished' % meth)
            ev = Evaluator(wm, 'Walker', wmethods, {},
                           is_subclass=lambda c, b: c == b or b == 'Node')
            ev.iter_hook = iter_hook
            cond = ('pyfunc', lambda n: n.name != 'a')
            try:
                _, ys = ev.call(wmethods[meth], [tree, cond],
                                self_obj=Obj('Walker'))
                got = [y.name for y in ys]
            except Raised as e:
                got = 'raised %s' % e.text
            exp = want if meth == 'walk' else [n for n in want if n != 'a']
            r2.check(got == exp, '%s tree%d' % (meth, i),
                     'Walker.%s on abstract tree %d (%s)' % (meth, i, want),
                     'yields %s, expected the pre-order %s' % (got, exp),
                     where='walkers.py:Walker.%s' % meth)
            # walking is an observation: the same tree walked again (by
            # the same and by the other traversals) gives the same nodes
            ev = Evaluator(wm, 'Walker', wmethods, {},
                           is_subclass=lambda c, b: c == b or b == 'Node')
            ev.iter_hook = iter_hook
            try:
                _, ys = ev.call(wmethods[meth], [tree, cond],
                                self_obj=Obj('Walker'))
                again = [y.name for y in ys]
            except Raised as e:
                again = 'raised %s' % e.text
            r2.check(again == exp and preorder(tree) == want,
                     '%s tree%d again' % (meth, i),
                     'Walker.%s on abstract tree %d a second time' % (
                         meth, i),
                     'the second traversal yields %s and the tree now '
                     'reads %s; the first yielded %s: the traversal changed '
                     'the tree (children() hands out the node\'s own list)'
                     % (again, preorder(tree), exp),
                     where='walkers.py:Walker.%s' % meth)
        # the module-level shortcuts are the same traversal
        for fname, fdef in sorted(wm.functions.items()):
            if fname.startswith('_') or len(fdef.args.args) != 1:
                continue
            nshort[0] += 1
            ev = Evaluator(wm, None, {}, {},
                           is_subclass=lambda c, b: c == b or b == 'Node',
                           class_methods={'Walker': wmethods},
                           class_own={'Walker': wmethods})
            ev.instantiate_classes = True
            ev.iter_hook = iter_hook
            try:
                ret, ys = ev.call(fdef, [tree])
                got = [y.name for y in (ys if ys else (ret or []))]
            except Raised as e:
                got = 'raised %s' % e.text
            r2.check(got == want, 'shortcut %s tree%d' % (fname, i),
                     'walkers.%s on abstract tree %d (%s)' % (
                         fname, i, want),
                     'yields %s, expected the pre-order %s' % (got, want),
                     where='walkers.py:%s' % fname)
        # extract: n-th match or TypeError
        matches = [n for n in want if n != 'a']
        for skip in [-2, -1] + list(range(0, len(matches) + 1)):
            ev = Evaluator(wm, 'Walker', wmethods, {},
                           is_subclass=lambda c, b: c == b or b == 'Node')
            ev.iter_hook = iter_hook
            cond = ('pyfunc', lambda n: n.name != 'a')
            try:
                ret, _ = ev.call(wmethods['extract'], [tree, cond, skip],
                                 self_obj=Obj('Walker'))
                got = ret.name if isinstance(ret, Obj) else ret
            except Raised as e:
                got = 'raised'
            exp = matches[skip] if 0 <= skip < len(matches) else 'raised'
            r2.check(got == exp, 'extract tree%d skip%d' % (i, skip),
                     'Walker.extract(skip=%d) on abstract tree %d' % (
                         skip, i),
                     'returns %r, expected %r' % (got, exp),
                     where='walkers.py:Walker.extract')
    # one tree per node class the parser builds: an instance whose child
    # attributes hold leaves, below a root; every walker must reach the
    # instance and all its leaves whatever the class is
    nclass = 0
    for cls in sorted(am.classes):
        if not am.is_node(cls) or cls in ('Node',):
            continue
        try:
            owner, shape = am.children_shape(cls)
        except AnalysisError:
            continue
        if not shape or any(a == '_children_list' for _, a in shape):
            continue
        _, chfn = am.find_method(cls, 'children')
        inst = Obj(cls, name=cls)
        leaves = []
        for i, (mult, attr) in enumerate(shape):
            if mult == 'one':
                lf = mk('%s.%s' % (cls, attr))
                setattr(inst, attr, lf)
                leaves.append(lf)
            else:
                lfs = [mk('%s.%s[%d]' % (cls, attr, j)) for j in (0, 1)]
                setattr(inst, attr, lfs)
                leaves.extend(lfs)

        def kids(inst=inst, chfn=chfn):
            ev = Evaluator(am.module, inst.__dict__['_cls'], {}, {})
            ret, _ = ev.call(chfn, [], self_obj=inst)
            return list(ret)
        inst.children = ('pyfunc', kids)
        root = mk('root', inst)
        want = [cls] + [lf.name for lf in leaves]
        nclass += 1
        for meth in ('walk', 'filter'):
            ev = Evaluator(wm, 'Walker', wmethods, {},
                           is_subclass=lambda c, b: c == b or (
                               c in am.classes and am.is_subclass(c, b)) or
                           (c == 'Node' and b == 'Node'))
            ev.iter_hook = iter_hook
            cond = ('pyfunc', lambda n: True)
            try:
                _, ys = ev.call(wmethods[meth], [root, cond],
                                self_obj=Obj('Walker'))
                got = [y.name for y in ys]
            except Raised as e:
                got = 'raised %s' % e.text
            r2.check(got == want, '%s below %s' % (meth, cls),
                     'Walker.%s on a %s node with leaf children' % (
                         meth, cls),
                     'yields %s, expected the node and its children %s' % (
                         got, want), where='walkers.py:Walker.%s' % meth)
        # the same class with every list-valued attribute empty, followed
        # by a sibling: an empty node must neither be skipped nor end the
        # walk of its parent (the truth value python gives the instance -
        # __bool__ / __len__ of its class - is used as python would)
        if any(mult != 'one' for mult, _a in shape):
            inst2 = Obj(cls, name=cls + '(empty)')
            leaves2 = []
            for mult, attr in shape:
                if mult == 'one':
                    lf = mk('%s.%s' % (cls, attr))
                    setattr(inst2, attr, lf)
                    leaves2.append(lf)
                else:
                    setattr(inst2, attr, [])

            def kids2(inst2=inst2, chfn=chfn):
                ev = Evaluator(am.module, inst2.__dict__['_cls'], {}, {})
                ret, _ = ev.call(chfn, [], self_obj=inst2)
                return list(ret)
            inst2.children = ('pyfunc', kids2)
            root2 = mk('root', inst2, mk('after'))
            want2 = [inst2.name] + [lf.name for lf in leaves2] + ['after']
            truth = {}
            for nm in ('__bool__', '__len__', '__nonzero__'):
                _o, fd = am.find_method(cls, nm)
                if fd is not None:
                    truth[nm] = fd
            for meth in ('walk', 'filter'):
                ev = Evaluator(wm, 'Walker', wmethods, {},
                               is_subclass=lambda c, b: c == b or (
                                   c in am.classes and
                                   am.is_subclass(c, b)) or
                               (c == 'Node' and b == 'Node'),
                               class_methods={cls: truth} if truth else None)
                for fd in truth.values():
                    ev.context_of[id(fd)] = (am.module, cls)
                ev.iter_hook = iter_hook
                cond = ('pyfunc', lambda n: True)
                try:
                    _, ys = ev.call(wmethods[meth], [root2, cond],
                                    self_obj=Obj('Walker'))
                    got = [y.name for y in ys]
                except Raised as e:
                    got = 'raised %s' % e.text
                r2.check(got == want2, '%s below an empty %s' % (meth, cls),
                         'Walker.%s on an empty %s node followed by a '
                         'sibling' % (meth, cls),
                         'yields %s, expected %s' % (got, want2),
                         where='walkers.py:Walker.%s / asttypes.py:%s' % (
                             meth, cls))
    report.count('node classes walked', nclass)
    report.count('module-level shortcut evaluations', nshort[0])
    if not nshort[0]:
        raise AnalysisError('walkers.walk (module-level shortcut) vanished')
    report.informational.append(
        'the `comments` attribute is attached by setpos and deliberately '
        'not part of children(): observation, outside R16.1')
    report.trusted_base += ['action interpreter (E3/E4 typing)',
                            'abstract evaluator']
