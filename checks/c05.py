# -*- coding: utf-8 -*-
"""
C05 - every `/` is read as division or regex start as the grammar dictates.

R05.1 the one-token look-behind table agrees with the terminal adjacency
      of the grammar (reserved words split by role); ambiguous predecessors
      have a disambiguation site
R05.2 the header keywords whose `)` is followed by a statement
R05.3 the decision is transparent to comments / line terminators and
      follows the header stack (finite exploration of the abstract
      transition function extracted from _get_update_token/_set_tokens and
      of the decision expression extracted from _token)
R05.4 the parser's re-lex hook covers every `/`-initial operator token
"""
from __future__ import annotations

import ast

from engine.common import AnalysisError
from engine.absint import Evaluator, Obj, Raised
from engine.grammar import simple_grammar_tables
from engine.srcindex import need_function, need_const
from .shared import models
from .c04 import lexer_methods, mk_lexer_obj, tok, hand

SUFFIX = '@name'


def division_sets(g):
    prods = g.role_split(suffix=SUFFIX)
    t = simple_grammar_tables(prods, None, g.start)
    adj = t['adj']
    div_like = ('DIV', 'DIVEQUAL')
    before_div = {a for a, b in adj if b in div_like}
    before_re = {a for a, b in adj if b == 'REGEX'}
    return before_div - before_re, before_re - before_div, \
        before_div & before_re, adj


def name_role_type(lm, toktype):
    """token type Lexer.t_ID gives the lexeme of `toktype` right after a
    PERIOD (with a comment in between)"""
    methods = lexer_methods(lm)
    fn = methods.get('t_ID')
    lexeme = lm.fixed.get(toktype)
    if fn is None or not lexeme:
        return toktype
    out = set()
    for marker in (None, 'BLOCK_COMMENT'):
        lexer = mk_lexer_obj(prev=None, cur=tok('PERIOD', '.'), lm=lm)
        lexer.cur_token_real = lexer.cur_token
        lexer.valid_prev_token = lexer.cur_token
        if marker:
            lexer.prev_token = lexer.cur_token
            lexer.cur_token = tok(marker, '/*c*/')
        token = Obj('LexToken', type='ID', value=lexeme, lineno=1, lexpos=2)
        ev = Evaluator(lm.module, 'Lexer', methods, {})
        try:
            ret, _ = ev.call(fn, [token], self_obj=lexer)
        except Raised:
            return toktype
        out.add(ret.type if isinstance(ret, Obj) else toktype)
    if len(out) != 1:
        return toktype      # not layout transparent: the keyword type wins
    return out.pop()


def r051(report, g, lm, pm, relex_prev):
    rule = report.rule('R05.1', 'TOKENS_THAT_IMPLY_DIVISON vs grammar '
                       'adjacency (role-split reserved words)', floor=60)
    table = need_const(lm.module, 'TOKENS_THAT_IMPLY_DIVISON',
                       types=(frozenset, set))
    only_div, only_re, both, adj = division_sets(g)
    report.count('grammar: terminals only before division', len(only_div))
    report.count('grammar: terminals only before regex', len(only_re))
    report.count('grammar: ambiguous predecessors', len(both))
    roles = {}
    for t in only_div:
        roles.setdefault(t.replace(SUFFIX, ''), set()).add(
            ('div', t.endswith(SUFFIX)))
    for t in only_re:
        roles.setdefault(t.replace(SUFFIX, ''), set()).add(
            ('re', t.endswith(SUFFIX)))
    for t in both:
        roles.setdefault(t.replace(SUFFIX, ''), set()).add(
            ('both', t.endswith(SUFFIX)))
    name_role_conflicts = []
    for base in sorted(roles):
        in_table = base in table
        kw = {k for k, n in roles[base] if not n}
        nm = {k for k, n in roles[base] if n}
        kw = next(iter(kw)) if kw else None
        nm = next(iter(nm)) if nm else None
        # the table serves the keyword / punctuator role of the type
        if kw == 'div':
            rule.check(in_table, 'missing %s' % base, base,
                       'the grammar allows only a division after %s but it '
                       'is not in TOKENS_THAT_IMPLY_DIVISON: `x %s / 2` is '
                       'read as a regex start' % (base, base.lower()),
                       where='lexers/es5.py:TOKENS_THAT_IMPLY_DIVISON')
        elif kw == 're':
            rule.check(not in_table, 'spurious %s' % base, base,
                       'the grammar allows only a regex after %s but it is '
                       'in TOKENS_THAT_IMPLY_DIVISON' % base,
                       where='lexers/es5.py:TOKENS_THAT_IMPLY_DIVISON')
        elif kw == 'both':
            ok = in_table and (base == 'RPAREN' or base in relex_prev)
            rule.check(ok, 'ambiguous %s' % base, base,
                       'both a division and a regex may follow %s; it must '
                       'be in the table and have a disambiguation site '
                       '(header stack for RPAREN, parser re-lex hook '
                       'otherwise); in table: %s, re-lex hook: %s' % (
                           base, in_table, sorted(relex_prev)),
                       where='lexers/es5.py / parsers/es5.py:p_error')
        # the property-name role of a reserved word: the lexer sees only
        # the token type, so it is served iff the type is in the table
        if nm == 'div':
            # a reserved word is followed by a division only as the
            # property name of a member expression (`a.typeof / 2`): the
            # type the lexer gives it there is obtained by evaluating t_ID
            # after a PERIOD token
            seen_as = name_role_type(lm, base)
            if in_table or seen_as in table:
                rule.ok('%s as property name' % base,
                        'lexed as %s after `.`' % seen_as)
            else:
                name_role_conflicts.append(base)
        elif nm is not None:
            rule.fail('name role %s' % base, base,
                      'a reserved word in IdentifierName position is '
                      'followed by a regex in the grammar (%s)' % nm)
    if name_role_conflicts:
        rule.fail(
            'reserved word as property name followed by /',
            'IdentifierName positions: %s' % ' '.join(
                sorted(name_role_conflicts)),
            'after `.typeof`, `.in`, `.default` ... (a reserved word used '
            'as a property name) only a division may follow, but the lexer '
            'looks at the token type alone and starts a regex: '
            '`a.typeof / 2` (%d reserved words)' % len(name_role_conflicts),
            where='lexers/es5.py:Lexer._token')
    for t in sorted(relex_prev):
        rule.check(t in both, 're-lex after %s' % t, t,
                   'the parser error hook re-lexes `/` as a regex after %s '
                   'although the grammar never allows a regex there' % t,
                   where='parsers/es5.py:p_error')
    return only_div, only_re, both


def header_keywords(g):
    out = set()
    for p in g.productions:
        r = p.rhs
        if len(r) >= 4 and r[0] in g.keywords and r[1] == 'LPAREN':
            for i in range(2, len(r) - 1):
                if r[i] == 'RPAREN' and not g.is_terminal(r[i + 1]) and \
                        'REGEX' in g.first_of(r[i + 1]):
                    out.add(r[0])
    return out


def r052(report, g, lm):
    rule = report.rule('R05.2', 'IMPLIED_BLOCK_IDENTIFIER == keywords whose '
                       'header `)` is followed by a statement', floor=4)
    table = need_const(lm.module, 'IMPLIED_BLOCK_IDENTIFIER',
                       types=(frozenset, set))
    expected = header_keywords(g)
    for k in sorted(expected | set(table)):
        if k in expected:
            rule.check(
                k in table, 'missing %s' % k, k,
                'a statement (hence possibly a regex literal) follows the '
                '`)` of a %s header, but %s is not in '
                'IMPLIED_BLOCK_IDENTIFIER: `%s (a) /re/.test(b);` is read '
                'as a division' % (k.lower(), k, k.lower()),
                where='lexers/es5.py:IMPLIED_BLOCK_IDENTIFIER')
        else:
            rule.check(
                False, 'spurious %s' % k, k,
                '%s is in IMPLIED_BLOCK_IDENTIFIER but no production has '
                '`%s ( ... ) statement`' % (k, k))
    return expected


def token_path(lm, methods, lexer, lexdata='/ x'):
    """Evaluate Lexer._token from its source in the given lexer state with
    `lexdata` as the remaining input and report which way the next token
    is read: 'div' (read by the underlying lexer in its INITIAL state) or
    're' (read after lexer.begin('regex')).  Only the raw reader
    get_lexer_token and the ply lexer object are stand-ins; everything
    else (_token with its peek loop, comment bypass and decision,
    _get_update_token, _set_tokens, _read_regex, helpers) is the
    source."""
    calls = []
    state = ['INITIAL']

    def begin(name):
        state[0] = name

    def get_lexer_token():
        calls.append('re' if state[0] == 'regex' else 'div')
        if state[0] == 'regex':
            return tok('REGEX', '/x/')
        return tok('DIV', '/')
    # the ply stand-in keeps the line counter the feed left behind
    prev_ply = lexer.lexer if lexer.has('lexer') else None
    lexer.lexer = Obj('PlyLexer', lexdata=lexdata, lexpos=0,
                      lineno=prev_ply.lineno if isinstance(prev_ply, Obj)
                      and prev_ply.has('lineno') else 1,
                      begin=('pyfunc', begin))
    lexer.get_lexer_token = ('pyfunc', lambda: hand(lexer,
                                                    get_lexer_token()))
    ev = Evaluator(lm.module, 'Lexer', methods, {
        'AutoLexToken': lambda: Obj('AutoLexToken')})
    token_fn = methods.get('_token')
    if token_fn is None:
        raise AnalysisError('Lexer._token vanished')
    ev.call(token_fn, [], self_obj=lexer)
    if not calls:
        raise AnalysisError('Lexer._token read no token for %r' % lexdata)
    return calls[0]


REGEX_READ = 'REGEX/'


def feed(ev, methods, lexer, types, lm=None):
    for t in types:
        if t == REGEX_READ:
            # a regular expression literal as the lexer itself reads it:
            # Lexer._token on a `/`, deciding for the regex state (these
            # tokens do not pass through _get_update_token)
            if token_path(lm, methods, lexer) != 're':
                raise Raised('the context does not read a regex here')
            continue
        new = tok(*t) if isinstance(t, tuple) else tok(t)
        lexer.get_lexer_token = ('pyfunc', lambda new=new, lexer=lexer:
                                 hand(lexer, new))
        ev.call(methods['_get_update_token'], [], self_obj=lexer)



MARKER_RUNS = [
    (), ('LINE_TERMINATOR',), ('BLOCK_COMMENT',),
    ('LINE_COMMENT', 'LINE_TERMINATOR'),
    ('LINE_TERMINATOR', 'BLOCK_COMMENT'),
    ('BLOCK_COMMENT', 'LINE_TERMINATOR'),
    ('BLOCK_COMMENT', 'BLOCK_COMMENT'),
    ('LINE_TERMINATOR', 'LINE_TERMINATOR'),
]


def r053(report, g, lm, only_div, only_re, headers, tier='quick'):
    rule = report.rule('R05.3', 'decision is layout transparent and follows '
                       'the header stack (contexts x marker runs)',
                       floor=300)
    methods = lexer_methods(lm)
    contexts = []
    plain = sorted(t for t in (only_div | only_re) if not t.endswith(SUFFIX)
                   and t not in ('RPAREN',))
    for t in plain:
        exp = 'div' if t in only_div else 're'
        # reserved words whose property-name role differs are R05.1's
        contexts.append(((t,), exp, t))
    contexts.append(((), 're', '<start of input>'))
    contexts.append((('ID', 'LPAREN', 'RPAREN'), 'div', 'f()'))
    contexts.append((('ID', 'LPAREN', 'ID', 'RPAREN'), 'div', 'f(a)'))
    contexts.append((('LPAREN', 'ID', 'RPAREN'), 'div', '(a)'))
    contexts.append((('LPAREN', 'LPAREN', 'ID', 'RPAREN', 'RPAREN'), 'div',
                     '((a))'))
    for k in sorted(headers):
        contexts.append(((k, 'LPAREN', 'ID', 'RPAREN'), 're',
                         '%s (a)' % k.lower()))
        contexts.append(((k, 'LPAREN', 'ID', 'LPAREN', 'RPAREN', 'RPAREN'),
                         're', '%s (f())' % k.lower()))
        contexts.append(((k, 'LPAREN', 'LPAREN', 'ID', 'RPAREN', 'RPAREN'),
                         're', '%s ((a))' % k.lower()))
        contexts.append(((k, 'LPAREN', 'ID', 'RPAREN', 'ID', 'LPAREN',
                          'RPAREN'), 'div', '%s (a) f()' % k.lower()))
        contexts.append(((k, 'LPAREN', 'ID', 'RPAREN', 'LPAREN', 'ID',
                          'RPAREN'), 'div', '%s (a) (b)' % k.lower()))
        # the same header inside an open parenthesis (a function
        # expression that is parenthesised or a call argument)
        fn = ('FUNCTION', 'LPAREN', 'RPAREN', 'LBRACE')
        contexts.append((('LPAREN',) + fn + (k, 'LPAREN', 'ID', 'RPAREN'),
                         're', '(function(){ %s (a)' % k.lower()))
        contexts.append((('ID', 'LPAREN') + fn + (
            k, 'LPAREN', 'ID', 'LPAREN', 'RPAREN', 'RPAREN'), 're',
            'f(function(){ %s (g())' % k.lower()))
        contexts.append((('LPAREN', 'LPAREN') + fn + (
            k, 'LPAREN', 'ID', 'RPAREN'), 're',
            '((function(){ %s (a)' % k.lower()))
        contexts.append((('LPAREN',) + fn + (
            k, 'LPAREN', 'ID', 'RPAREN', 'ID', 'LPAREN', 'RPAREN'), 'div',
            '(function(){ %s (a) f()' % k.lower()))
    # a `/` after a regular expression literal divides, wherever the
    # literal stands (the literal is read by the lexer's own regex path)
    for pre, label in (((), '/re/'), (('ID', 'EQ'), 'a = /re/'),
                       (('LBRACKET',), '[/re/'), (('RETURN',), 'return /re/'),
                       (('ID', 'LPAREN'), 'f(/re/'),
                       (('NOT',), '!/re/')):
        contexts.append((pre + (REGEX_READ,), 'div', label))
    for k in sorted(headers):
        contexts.append(((k, 'LPAREN', 'ID', 'RPAREN', REGEX_READ), 'div',
                         '%s (a) /re/' % k.lower()))
        contexts.append(((k, 'LPAREN', 'ID', 'RPAREN', REGEX_READ, 'DIV',
                          REGEX_READ), 'div', '%s (a) /re/ / /re/'
                         % k.lower()))
    runs = list(MARKER_RUNS)
    if tier == 'thorough':
        import itertools as _it
        kinds_ = ('LINE_TERMINATOR', 'BLOCK_COMMENT', 'LINE_COMMENT')
        runs = [()]
        for k in range(1, 4):
            for run in _it.product(kinds_, repeat=k):
                # a line comment is always followed by a line terminator
                if any(x == 'LINE_COMMENT' and (i + 1 >= len(run) or
                                                run[i + 1] !=
                                                'LINE_TERMINATOR')
                       for i, x in enumerate(run)):
                    continue
                runs.append(run)
    failing = {}
    n = 0
    for ctx, exp, label in contexts:
        for run in runs:
            # the markers after the context, and - comments and line
            # terminators may stand between any two tokens - at every
            # position inside it
            places = [len(ctx)]
            if run and len(ctx) > 1:
                places += list(range(1, len(ctx)))
            for at in places:
                ev = Evaluator(lm.module, 'Lexer', methods, {
                    'AutoLexToken': lambda: Obj('AutoLexToken')})
                lexer = mk_lexer_obj(lm=lm)
                seq = list(ctx[:at]) + list(run) + list(ctx[at:])
                try:
                    feed(ev, methods, lexer, seq, lm)
                    got = token_path(lm, methods, lexer)
                except Raised as e:
                    got = 'raised %s' % e.text[:40]
                n += 1
                inside = at < len(ctx)
                construct = '%s %s /' % (label, ' '.join(run)) if \
                    not inside else '%s with %s after its %s /' % (
                        label, ' '.join(run), ctx[at - 1])
                if got == exp:
                    rule.ok(construct)
                    continue
                kind = 'header' if exp == 're' and any(
                    t in headers for t in ctx) else 'plain'
                if inside:
                    cls = 'markers inside a %s context after %s' % (
                        kind, ctx[at - 1] if ctx[at - 1] not in headers
                        else 'the header keyword')
                elif not run and ctx and ctx[0] in headers:
                    cls = 'header %s' % ctx[0].lower()
                elif not run:
                    cls = 'context %s' % label
                else:
                    cls = 'markers after %s context' % kind
                failing.setdefault(cls, []).append((construct, got, exp))
    for cls, items in sorted(failing.items()):
        c, got, exp = items[0]
        rule.fail(cls, '%s  (+%d more)' % (c.strip(), len(items) - 1),
                  'decision is %s, the grammar dictates %s; failing cases: '
                  '%s' % (got, exp, [i[0].strip() for i in items[:8]]),
                  where='lexers/es5.py:Lexer._token / _set_tokens / '
                  '_get_update_token')
    report.count('division decision cases explored', n)
    return rule


def relex_table(report, g, lm, pm):
    """decision table of the re-lex branch of Parser.p_error"""
    perr = need_function(pm, 'p_error', 'Parser')
    methods = pm.class_methods('Parser')
    table = {}
    slash_tokens = sorted(t for t, lex in lm.fixed.items()
                          if lex and lex.startswith('/') and
                          t in g.terminals)
    prevs = sorted(g.terminals - {'LINE_COMMENT', 'BLOCK_COMMENT',
                                  'LINE_TERMINATOR'})
    for cur in slash_tokens:
        for prev in prevs:
            calls = []

            def backtracked(pos=1, calls=calls):
                calls.append(pos)
                return Obj('LexToken', type='REGEX', value='/x/')
            # a consistent picture: the operator stands at offset 10 of
            # the text, the lexer has just read past it
            ctok = tok(cur, lm.fixed[cur])
            ctok.lexpos = 10
            lexer = Obj('Lexer', cur_token=ctok,
                        valid_prev_token=tok(prev),
                        lexpos=10 + len(lm.fixed[cur]),
                        lexer=Obj('PlyLexer', lexpos=10 + len(
                            lm.fixed[cur]), lexdata=' ' * 10 + lm.fixed[
                                cur] + 'x/', lineno=1),
                        auto_semi=('pyfunc', lambda t: None),
                        backtracked_token=('pyfunc', backtracked),
                        token=('pyfunc', lambda: None))
            parser = Obj('LRParser', errok=('pyfunc', lambda: None))

            def raiser(t):
                raise Raised('syntax error')
            selfobj = Obj('Parser', lexer=lexer, parser=parser,
                          _raise_syntax_error=('pyfunc', raiser))
            ev = Evaluator(pm, 'Parser', methods, {
                'format_lex_token': lambda t: 'tok',
                'ECMASyntaxError': lambda *a: ('exc', a),
                'AutoLexToken': lambda: Obj('AutoLexToken')})
            try:
                ret, _ = ev.call(perr, [ctok], self_obj=selfobj)
            except Raised:
                ret = None
            table[(cur, prev)] = (list(calls), ret)
            # the hook is entered again with the inserted semicolon as the
            # offending token when a line break precedes the `/` (the
            # lexer's current token is still the operator)
            del calls[:]
            # the semicolon is the one the lexer's own _create_semi_token
            # makes for the operator token
            lmethods = lexer_methods(lm)
            semi = None
            if '_create_semi_token' in lmethods:
                evs = Evaluator(lm.module, 'Lexer', lmethods, {
                    'AutoLexToken': lambda: Obj('AutoLexToken')})
                try:
                    semi, _ = evs.call(lmethods['_create_semi_token'],
                                       [ctok], self_obj=Obj('Lexer'))
                except Raised:
                    semi = None
            if not isinstance(semi, Obj):
                semi = Obj('AutoLexToken', type='AUTOSEMI', value=';',
                           lineno=1, lexpos=10, colno=0)
            try:
                ret, _ = ev.call(perr, [semi], self_obj=selfobj)
            except Raised:
                ret = None
            table[(cur, prev, 'AUTOSEMI')] = (list(calls), ret)
    return slash_tokens, prevs, table


def r054(report, g, lm, pm, both, slash_tokens, prevs, table):
    rule = report.rule('R05.4', 're-lex hook covers every /-initial '
                       'operator after an ambiguous predecessor', floor=4)
    amb = sorted(both - {'RPAREN'})
    for cur in slash_tokens:
        for prev in amb:
            calls, ret = table[(cur, prev)]
            ok = bool(calls) and isinstance(ret, Obj) and ret.type == 'REGEX'
            detail = 'after %s an offending %s (%r) is not re-lexed as a ' \
                'regex literal: `{}%s/.test(x)` is rejected' % (
                    prev, cur, lm.fixed[cur], lm.fixed[cur])
            if ok and calls != [len(lm.fixed[cur])]:
                ok = False
                detail = 'backtracks %r characters for the %d-character ' \
                    'token %r' % (calls, len(lm.fixed[cur]), lm.fixed[cur])
            rule.check(ok, 're-lex %s after %s' % (cur, prev),
                       '%s after %s' % (cur, prev), detail,
                       where='parsers/es5.py:Parser.p_error')
            calls, ret = table[(cur, prev, 'AUTOSEMI')]
            ok = calls == [len(lm.fixed[cur])] and isinstance(
                ret, Obj) and ret.type == 'REGEX'
            rule.check(ok, 're-lex %s after %s and a line break' % (
                cur, prev), '%s after %s <line break>, hook re-entered '
                'with the inserted semicolon' % (cur, prev),
                'backtracks %r characters (result %r) for the '
                '%d-character operator %r the lexer stands on: `{}\\n%s'
                'x/.test(y)` is rejected' % (
                    calls, ret, len(lm.fixed[cur]), lm.fixed[cur],
                    lm.fixed[cur]),
                where='parsers/es5.py:Parser.p_error')
    return rule


PEEK_CANDIDATES = ' \t\x0b\x0c\xa0\ufeff\u1680\u180e\u2000\u2001\u2002' \
    '\u2003\u2004\u2005\u2006\u2007\u2008\u2009\u200a\u202f\u205f' \
    '\u3000\u200b\x85a1_$;'


def regex_expected_lexer(lm=None):
    """a lexer state in which a `/` must start a regular expression (start
    of input)"""
    return mk_lexer_obj(lm=lm)


def peek_skip_set(lm):
    """the characters Lexer._token looks past before testing for `/`,
    obtained by evaluating _token on `<c>/x` at the start of input (where a
    `/` is a regex start): the character is looked past iff the regex
    reader is chosen"""
    methods = lexer_methods(lm)
    cands = set(PEEK_CANDIDATES) | set(lm.ignore.get('INITIAL', '')) | \
        set(lm.ignore.get('regex', ''))
    skip = []
    for c in sorted(cands):
        if c in '\n\r\u2028\u2029/':
            continue
        got = token_path(lm, methods, regex_expected_lexer(lm), c + '/x')
        if got == 're':
            skip.append(c)
    if ' ' not in skip:
        raise AnalysisError('Lexer._token does not look past a space '
                            'before a `/`: the peek loop was not understood')
    return ''.join(skip)


def r055(report, lm):
    """the manual peek for `/` must see through exactly the characters the
    underlying lexer ignores"""
    rule = report.rule('R05.5', 'the `/` peek skips exactly the white space '
                       'the lexer ignores (INITIAL and regex state)',
                       floor=2)
    skip = peek_skip_set(lm)
    ignore = lm.ignore.get('INITIAL', '')
    # line terminators are tokens of their own (handled by the loop)
    missing = sorted(set(ignore) - set(skip) - set('\n\r\u2028\u2029'))
    rule.check(not missing, 'peek skips fewer white-space characters than '
               't_ignore', 'Lexer._token peek set %r vs t_ignore' % skip,
               'before deciding division/regex, _token looks past %r only; '
               'the lexer itself also ignores %s: `x = <U+00A0>/re/` is '
               'handed to the INITIAL lexer and read as a division' % (
                   skip, ' '.join('U+%04X' % ord(c) for c in missing)),
               where='lexers/es5.py:Lexer._token')
    extra = sorted(set(skip) - set(ignore))
    rule.check(not extra, 'peek skips characters the lexer does not ignore',
               'Lexer._token peek set %r vs t_ignore' % skip,
               'the peek looks past %r which the lexer treats as '
               'significant' % extra, where='lexers/es5.py:Lexer._token')
    rign = lm.ignore.get('regex', '')
    missing = sorted(set(skip) - set(rign))
    rule.check(not missing, 'regex state ignore covers the peek set',
               't_regex_ignore %r' % rign,
               'characters skipped by the peek but not ignored in the '
               'regex state: %r' % missing,
               where='lexers/es5.py:Lexer.t_regex_ignore')
    return rule


def r056(report, lm):
    """the shortcut that hands a `/` to the INITIAL lexer without asking
    the division/regex question must apply to comment starts only"""
    rule = report.rule('R05.6', '`/` bypasses the division/regex decision '
                       'only when it starts a comment', floor=20)
    methods = lexer_methods(lm)
    chars = [chr(o) for o in range(0x20, 0x7f)] + ['\n', '\xa0', '\u00e9']
    for c in chars:
        # at the start of input the decision would choose the regex
        # reader; the INITIAL reader is chosen iff the decision is bypassed
        got = token_path(lm, methods, regex_expected_lexer(lm),
                         '/' + c + 'x') == 'div'
        want = c in ('/', '*')
        rule.check(got == want, 'bypass for /%s' % c,
                   '`/` followed by %r' % c,
                   'a `/` followed by %r %s the division/regex decision; '
                   'only `//` and `/*` (comments) may bypass it: a regular '
                   'expression literal starting with %r is read as an '
                   'operator' % (c, 'bypasses' if got else 'does not bypass',
                                 c),
                   where='lexers/es5.py:Lexer._token')
    # and every non-`/` character goes to the INITIAL lexer
    for c in ('a', '(', '"', '1'):
        got = token_path(lm, methods, regex_expected_lexer(lm), c + '/x')
        rule.check(got == 'div', 'non-slash %s' % c, 'character %r' % c,
                   'a character other than `/` enters the division/regex '
                   'decision')
    return rule


def rules(report, index, tier='quick'):
    """the division / regex rules (also part of C03: the reading of `/`
    decides which texts are accepted)"""
    M = models(index)
    g, lm = M.grammar, M.lexmodel
    pm = g.parser_module
    slash_tokens, prevs, table = relex_table(report, g, lm, pm)
    relex_prev = {key[1] for key, (calls, ret) in table.items()
                  if len(key) == 2 and calls and key[0] == 'DIV'}
    only_div, only_re, both = r051(report, g, lm, pm, relex_prev)
    headers = r052(report, g, lm)
    r053(report, g, lm, only_div, only_re, headers, tier)
    r054(report, g, lm, pm, both, slash_tokens, prevs, table)
    r055(report, lm)
    r056(report, lm)


def run(report, index, tier):
    report.explanation = (
        'The regex/division decision is compared with the terminal '
        'adjacency relation of the grammar (reserved words split by role), '
        'and the decision expression of Lexer._token is evaluated '
        'abstractly over token contexts x marker runs using the transition '
        'functions extracted from the lexer source.')
    rules(report, index, tier)
    report.not_decided.append(
        'paren-stack bookkeeping for arbitrarily deep nesting beyond the '
        'explored contexts (runtime stack discipline)')
    report.trusted_base += ['CPython ast', 'abstract evaluator',
                            'grammar adjacency fixpoint']
