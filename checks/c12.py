# -*- coding: utf-8 -*-
"""
C12 - any input either parses or raises the ECMAScript syntax error, only.

Termination is not decided.  The exception-type clause is an error
discipline property:

R12.1 raise discipline: every raise on the lex/parse path raises the
      library's syntax error (or its regex subclass), ProductionError
      wrapping one, or the documented TypeError for a non-string argument;
      ProductionError is unwrapped by Parser.parse; the lexer error hooks
      raise on every path
R12.2 contradictory null beliefs: a value the code itself tests against
      None somewhere is never dereferenced without a dominating guard
R12.3 partial operations on input-derived values (constant subscripts on
      slices of the input, dict-literal lookups keyed by input characters,
      regex match results) are guarded; unprovable-but-audited sites are
      frozen in a triage table with a reason, a new site is a violation
"""
from __future__ import annotations

import ast
import os

from engine.common import AnalysisError
from engine.absint import Evaluator, Obj, Raised
from engine.effects import iter_functions, own_nodes
from engine.nullguard import Analyzer, null_tests, is_ref, text
from engine.srcindex import need_function

LEX = 'calmjs.parse.lexers.es5'
PAR = 'calmjs.parse.parsers.es5'

ALLOWED_EXC = ('ECMASyntaxError', 'ECMARegexSyntaxError')

# sites the lint cannot discharge automatically, confirmed safe by reading;
# keyed by function + normalised expression.  One line of reason each.
TRIAGE_NULL = {
    ('*', 'self.lexer'): 'never None after __init__',
}
# calls whose result is never None although the callee is believed
# nullable in general, by callee name with the reason
NONNULL_SOURCES = {
    'self.lexer.backtracked_token':
        'backtracked_token re-lexes from an existing `/` character, so '
        'token() cannot be at end of input: it returns a token or raises',
}
TRIAGE_PARTIAL = {
    ('lookup_colno', 'self.newline_idx[lineno - 1]'):
        'lineno comes from tokens of this lexer: 1 <= lineno <= '
        'len(newline_idx) (one entry appended per counted terminator)',
    ('t_error', 'token.value[0]'):
        'ply calls t_error with the non-empty remainder of the input',
    ('_raise_syntax_error', 'msg[len(tokens)]'):
        'tokens is a filter of a 3-element list and msg has 4 entries',
    ('parse', 'e.args[0]'):
        'ProductionError is only raised with one argument (checked by '
        'R12.1)',
}


def nonempty_list_attrs(module, clsname):
    """Instance attributes of `clsname` that provably always hold a
    non-empty list: every store assigns a non-empty list literal, every
    mutation through self.<attr> is an append / extend / item store, or a
    pop() that is followed, later in the same function, by
    `if not self.<attr>: raise ...`.  Returns {attr: element width}, where
    the width is n if every element ever stored is an n-element list /
    tuple literal (else None)."""
    from engine.effects import iter_functions, own_nodes
    stores, widths, bad = {}, {}, set()

    def elem_width(e):
        if isinstance(e, (ast.List, ast.Tuple)):
            return len(e.elts)
        return None
    funcs = [(c, f) for c, f, _ in iter_functions(module) if c == clsname]
    for c, f in funcs:
        for n in own_nodes(f):
            if isinstance(n, ast.Assign):
                for t in n.targets:
                    if isinstance(t, ast.Attribute) and isinstance(
                            t.value, ast.Name) and t.value.id == 'self':
                        if isinstance(n.value, ast.List) and n.value.elts:
                            stores.setdefault(t.attr, []).append(n.value)
                            for e in n.value.elts:
                                widths.setdefault(t.attr, set()).add(
                                    elem_width(e))
                        else:
                            bad.add(t.attr)
            if isinstance(n, (ast.Delete, ast.AugAssign)):
                for x in ast.walk(n):
                    if isinstance(x, ast.Attribute) and isinstance(
                            x.value, ast.Name) and x.value.id == 'self':
                        bad.add(x.attr)
    for c, f in funcs:
        calls = [n for n in own_nodes(f) if isinstance(n, ast.Call) and
                 isinstance(n.func, ast.Attribute) and isinstance(
                     n.func.value, ast.Attribute) and isinstance(
                     n.func.value.value, ast.Name) and
                 n.func.value.value.id == 'self']
        for n in calls:
            attr = n.func.value.attr
            m = n.func.attr
            if m == 'append' and len(n.args) == 1:
                widths.setdefault(attr, set()).add(elem_width(n.args[0]))
            elif m in ('extend', 'insert', 'index', 'count', 'copy'):
                widths.setdefault(attr, set()).add(None)
            elif m == 'pop':
                # must be followed by the emptiness check that raises
                ok = False
                for st in own_nodes(f):
                    if isinstance(st, ast.If) and st.lineno > n.lineno and \
                            ast.unparse(st.test) == 'not self.%s' % attr \
                            and always_raises(st.body):
                        ok = True
                if not ok:
                    bad.add(attr)
            elif m in ('clear', 'remove', 'sort', 'reverse'):
                bad.add(attr)
    out = {}
    for attr, vals in stores.items():
        if attr in bad:
            continue
        w = widths.get(attr, set())
        out[attr] = next(iter(w)) if len(w) == 1 and None not in w else None
    return out


def invariant_discharges(text, invariants):
    """is the subscript `text` safe by the non-empty-list invariant?
    self.a[-1], self.a[0]; self.a[-1][k] with k below the element width"""
    import re as _re
    m = _re.fullmatch(r'self\.(\w+)\[(-1|0)\](?:\[(\d+)\])?', text)
    if not m or m.group(1) not in invariants:
        return None
    if m.group(3) is None:
        return 'self.%s is never empty (checked invariant)' % m.group(1)
    w = invariants[m.group(1)]
    if w is not None and int(m.group(3)) < w:
        return 'every element of self.%s is a %d-element list (checked ' \
            'invariant)' % (m.group(1), w)
    return None


def always_raises(stmts):
    if not stmts:
        return False
    last = stmts[-1]
    if isinstance(last, ast.Raise):
        return True
    if isinstance(last, ast.If):
        return always_raises(last.body) and always_raises(last.orelse)
    if isinstance(last, ast.Try):
        return always_raises(last.finalbody) or (
            always_raises(last.body) and all(
                always_raises(h.body) for h in last.handlers))
    return False


def is_ref_text(t):
    import re as _re
    return bool(_re.fullmatch(r'[A-Za-z_][\w]*(\.[A-Za-z_]\w*)*', t))


def dominating_guards(fdef, target):
    """texts of the conjuncts of the if-tests (true branch) that enclose
    `target`, plus the left operands of an enclosing `and`"""
    out = []

    def conj(t):
        if isinstance(t, ast.BoolOp) and isinstance(t.op, ast.And):
            for v in t.values:
                conj(v)
        else:
            out.append(ast.unparse(t))

    def rec(node):
        for field, value in ast.iter_fields(node):
            items = value if isinstance(value, list) else [value]
            for c in items:
                if not isinstance(c, ast.AST):
                    continue
                if c is target or any(x is target for x in ast.walk(c)):
                    if isinstance(node, ast.If) and field == 'body':
                        conj(node.test)
                    if isinstance(node, ast.BoolOp) and isinstance(
                            node.op, ast.And):
                        for v in node.values:
                            if v is c:
                                break
                            conj(v)
                    rec(c)
                    return
    rec(fdef)
    return out


def guard_values(guards, subscript):
    """constants the dominating guards restrict `name[k]` to, via
    `name[k] in (...)`, `name[k:k+1] in (...)` or `== c`; None if no such
    guard"""
    if not (isinstance(subscript, ast.Subscript) and isinstance(
            subscript.value, ast.Name)):
        return None
    name = subscript.value.id
    try:
        k = ast.literal_eval(subscript.slice)
    except Exception:
        return None
    if not isinstance(k, int):
        return None
    lefts = ('%s[%d]' % (name, k), '%s[%d:%d]' % (name, k, k + 1))
    for g in guards:
        try:
            t = ast.parse(g, mode='eval').body
        except SyntaxError:
            continue
        if isinstance(t, ast.Compare) and len(t.ops) == 1 and \
                ast.unparse(t.left) in lefts:
            try:
                c = ast.literal_eval(t.comparators[0])
            except Exception:
                continue
            if isinstance(t.ops[0], ast.In) and isinstance(c, str) and \
                    ast.unparse(t.left) == lefts[1]:
                # `name[k:k+1] in 'xu'` is a substring test: it also holds
                # for the empty slice, so it establishes nothing about
                # the length of `name`
                continue
            if isinstance(t.ops[0], ast.In) and isinstance(
                    c, (tuple, list, set, str)):
                vals = list(c)
            elif isinstance(t.ops[0], ast.Eq) and isinstance(c, str):
                vals = [c]
            else:
                continue
            if vals and all(isinstance(v, str) and len(v) == 1
                            for v in vals):
                return vals
    return None


def norm_call(f):
    """self.lexer.token -> token ; self._get_update_token -> ..."""
    return f.split('.')[-1]


TABLE_COVERED = ('broken_string_token_handler', '_raise_syntax_error')


def r126(report, index, lm, pm, tier):
    """the two error-message builders are total: evaluated from their
    source on a finite domain they either return or raise the library
    syntax error, never IndexError / KeyError / AttributeError"""
    import itertools
    import re as _re
    r6 = report.rule('R12.6', 'error message builders raise only the '
                     'syntax error (decision tables by evaluation)',
                     floor=100)
    # Parser._raise_syntax_error over the presence of its three tokens
    pmeth = pm.class_methods('Parser')
    fn = pmeth.get('_raise_syntax_error')
    if fn is None:
        raise AnalysisError('Parser._raise_syntax_error vanished')

    def tk(v):
        return Obj('LexToken', type='ID', value=v, lineno=1, colno=1,
                   lexpos=0)
    for prev, cur, nxt in itertools.product(
            (None, 'tok'), (None, 'auto', 'tok'), (None, 'tok')):
        lexer = Obj('Lexer', valid_prev_token=tk('a') if prev else None,
                    token=('pyfunc', lambda nxt=nxt: tk('c') if nxt
                           else None))
        token = None if cur is None else (
            Obj('AutoLexToken', type='AUTOSEMI', value=';', lineno=1,
                colno=0, lexpos=0) if cur == 'auto' else tk('b'))
        ev = Evaluator(pm, 'Parser', pmeth, {
            'format_lex_token': lambda t: '<%s>' % t.value,
            'repr_compat': repr})
        out = 'returns'
        try:
            ev.call(fn, [token], self_obj=Obj('Parser', lexer=lexer))
        except Raised as e:
            out = e.text
        r6.check(out.startswith('ECMASyntaxError'),
                 '_raise_syntax_error prev=%s token=%s next=%s' % (
                     prev, cur, nxt),
                 'Parser._raise_syntax_error(previous %s, offending %s, '
                 'next %s)' % (prev, cur, nxt),
                 'does not raise the syntax error: %s' % out[:120],
                 where='parsers/es5.py:_raise_syntax_error')
    # broken_string_token_handler over all short inputs
    h = lm.functions.get('broken_string_token_handler')
    if h is None:
        raise AnalysisError('broken_string_token_handler vanished')
    alphabet = ['"', "'", '\\', 'x', 'u', '8', 'a', '\n', '0', 'F', ' ']
    maxlen = 4 if tier == 'thorough' else 3
    n = 0
    bad = {}
    for k in range(0, maxlen + 1):
        for body in itertools.product(alphabet, repeat=k):
            for q in ('"', "'"):
                text = q + ''.join(body)
                n += 1
                lexer = Obj('Lexer', lineno=1,
                            _get_colno=('pyfunc', lambda t: 1),
                            _get_colno_lexpos=('pyfunc', lambda p_: p_ + 1),
                            _update_newline_idx=('pyfunc', lambda t: None),
                            lexer=Obj('PlyLexer', lexpos=0, lexdata=text,
                                      lineno=1))
                token = Obj('LexToken', type='error', value=text, lineno=1,
                            lexpos=0)
                ev = Evaluator(lm, None, {}, {
                    're.match': _re.match, 'repr_compat': repr})
                out = 'returns'
                try:
                    ev.call(h, [lexer, token])
                except Raised as e:
                    out = e.text
                except AttributeError as e:
                    out = 'AttributeError: %s' % e
                if out == 'returns' or out.startswith('ECMASyntaxError'):
                    continue
                bad.setdefault(out.split('(')[0].split(':')[0], []).append(
                    text)
    for kind, texts in sorted(bad.items()):
        r6.fail('broken_string_token_handler %s' % kind,
                'broken_string_token_handler on %r (+%d more inputs)' % (
                    texts[0], len(texts) - 1),
                'raises %s instead of the syntax error for the remaining '
                'input %s' % (kind, ', '.join(repr(t) for t in texts[:6])),
                witness=texts[0],
                where='lexers/es5.py:broken_string_token_handler')
    for _ in range(n - len(bad)):
        r6.ok('broken_string_token_handler input')
    report.count('R12.6: remaining-input strings evaluated', n)
    return r6


LONG = 'l' + 'o' * 73 + 'g'
MSG_VALUES = (('b', 'ID'), (LONG, 'ID'), ('%', 'MOD'), ('%=', 'MODEQUAL'),
              ('"100%"', 'STRING'), ("'{0}'", 'STRING'),
              ('/%s{/', 'REGEX'), ('"a  "', 'STRING'))
LT_SPLIT = '\r\n|[\n\r\u2028\u2029]'


def layout_tokens(prefix, values):
    """text and token stand-ins (value, type, lexpos, lineno, colno) for
    the values written one blank apart after the prefix"""
    import re as _re
    text = prefix
    toks = []
    for v, t in values:
        lexpos = len(text)
        starts = [0] + [m.end() for m in _re.finditer(LT_SPLIT, text)]
        toks.append(Obj('LexToken', type=t, value=v, lexpos=lexpos,
                        lineno=len(starts), colno=lexpos - starts[-1] + 1))
        text += v + ' '
    return text, toks


def quoted_positions(msg):
    """[(candidates, line, column)] for every `<quoted text> at L:C` of a
    message"""
    import re as _re
    out = []
    for m in _re.finditer(
            r"""('(?:[^'\\]|\\.)*'|"(?:[^"\\]|\\.)*") at (\d+):(\d+)""",
            msg):
        cands = {m.group(1)[1:-1]}
        try:
            v = ast.literal_eval(m.group(1))
            if isinstance(v, str):
                cands.add(v)
        except (ValueError, SyntaxError):
            pass
        out.append((cands, int(m.group(2)), int(m.group(3))))
    return out


def message_problem(text, msg):
    """None, or why a `<text> at L:C` of the message does not designate a
    place of the input where that text occurs"""
    import re as _re
    starts = [0] + [m.end() for m in _re.finditer(LT_SPLIT, text)]
    for cands, line, col in quoted_positions(msg):
        if not 1 <= line <= len(starts) or col < 1:
            return 'quotes %r at %d:%d, which is outside the input' % (
                sorted(cands)[0], line, col)
        off = starts[line - 1] + col - 1
        if not any(text.startswith(c, off) for c in cands):
            return 'quotes %r at %d:%d, where the input reads %r' % (
                sorted(cands, key=len)[-1], line, col, text[off:off + 24])
    return None


def r127(report, index, lm, pm, tier):
    """syntax-error messages: evaluated from their source on inputs whose
    tokens are laid out consistently, every `<quoted text> at L:C` they
    contain designates a place of the input where that text occurs, and
    nothing but the syntax error is raised while building them"""
    r7 = report.rule('R12.7', 'the line:column quoted in a syntax-error '
                     'message is where the quoted text occurs in the input '
                     '(message builders evaluated on laid-out token '
                     'scenarios)', floor=60)
    pmeth = pm.class_methods('Parser')
    lmeth = lm.class_methods('Lexer')
    from .shared import models as _models
    M_lexmodel = _models(index).lexmodel
    rse = pmeth.get('_raise_syntax_error')
    t_error = lmeth.get('t_error')
    t_regex_error = lmeth.get('t_regex_error')
    if rse is None or t_error is None or t_regex_error is None:
        raise AnalysisError('an error message builder vanished')
    n_quoted = [0]

    def judge(key, construct, text, out, where):
        if not out.startswith(('ECMASyntaxError', 'ECMARegexSyntaxError')):
            r7.fail(key, construct, 'does not raise the syntax error: %s'
                    % out[:160], witness=text, where=where)
            return
        msg = out.split(':', 1)[1].strip() if ':' in out else out
        n_quoted[0] += len(quoted_positions(msg))
        why = message_problem(text, msg)
        r7.check(why is None, key, construct, 'the message %r %s' % (
            msg[:200], why), witness=text, where=where)

    def mkexc(kind):
        return lambda *a: Obj('Exception', kind=kind, args=tuple(a))
    EXC = {'ECMASyntaxError': mkexc('ECMASyntaxError'),
           'ECMARegexSyntaxError': mkexc('ECMARegexSyntaxError')}

    def raised_text(e):
        """`Kind: message` of an evaluated raise"""
        v = e.value
        if isinstance(v, Obj) and v.has('kind'):
            if len(v.args) == 1 and isinstance(v.args[0], str):
                return '%s: %s' % (v.kind, v.args[0])
            return 'ECMASyntaxError-with-arguments %r' % (v.args,)
        if v is None and e.text.startswith(('ECMASyntaxError(',
                                            'ECMARegexSyntaxError(')):
            # the operand of the raise could not be evaluated: no verdict
            # on the message may be derived from its source text
            raise AnalysisError('the message of `raise %s` could not be '
                                'evaluated' % e.text[:120])
        return e.text

    def evaluator(*a, **k):
        ev = Evaluator(*a, **k)
        ev.evaluate_raises = True
        ev.functions.update(EXC)
        return ev

    for prefix in ('', 'q;\n  '):
        for v, t in MSG_VALUES:
            # parser: v as previous, offending and next token
            for role in (0, 1, 2):
                vals = [('x', 'ID'), ('=', 'EQ'), (']', 'RBRACKET'),
                        (';', 'SEMI')]
                vals.insert(1 + role, (v, t))
                text, toks = layout_tokens(prefix, vals)
                prev, cur, nxt = toks[1], toks[2], toks[3]
                lexer = Obj('Lexer', valid_prev_token=prev,
                            token=('pyfunc', lambda nxt=nxt: nxt))
                ev = evaluator(pm, 'Parser', pmeth)
                out = 'returns'
                try:
                    ev.call(rse, [cur], self_obj=Obj('Parser', lexer=lexer))
                except Raised as e:
                    out = raised_text(e)
                judge('_raise_syntax_error %s token %s%s' % (
                    ('previous', 'offending', 'next')[role], describe(v),
                    ' on line 2' if prefix else ''),
                    'Parser._raise_syntax_error at %r of %r' % (
                        cur.value, text), text, out,
                    'parsers/es5.py:_raise_syntax_error / utils.py:'
                    'format_lex_token')
            # the look-ahead may be a semicolon the lexer made up
            # (restricted production): built by the lexer's own
            # _create_semi_token from the real token at that place
            csemi = lmeth.get('_create_semi_token')
            if csemi is not None:
                text, toks = layout_tokens(prefix, [
                    ('x', 'ID'), (v, t), ('return', 'RETURN'),
                    ('\n', 'LINE_TERMINATOR')])
                evs = Evaluator(lm, 'Lexer', lmeth, {
                    'AutoLexToken': lambda: Obj('AutoLexToken')})
                semi, _ = evs.call(csemi, [toks[3]], self_obj=Obj(
                    'Lexer', newline_idx=[0], lexer=Obj(
                        'PlyLexer', lexdata=text, lexpos=toks[3].lexpos,
                        lineno=1)))
                if isinstance(semi, Obj):
                    semi.__dict__['_closed'] = True
                lexer = Obj('Lexer', valid_prev_token=toks[1],
                            token=('pyfunc', lambda semi=semi: semi))
                ev = evaluator(pm, 'Parser', pmeth)
                out = 'returns'
                try:
                    ev.call(rse, [toks[2]], self_obj=Obj('Parser',
                                                         lexer=lexer))
                except Raised as e:
                    out = raised_text(e)
                if not out.startswith(('ECMASyntaxError',
                                       'ECMARegexSyntaxError')):
                    r7.fail('_raise_syntax_error before an inserted '
                            'semicolon, previous token %s%s' % (
                                describe(v), ' on line 2' if prefix
                                else ''),
                            'Parser._raise_syntax_error at `return` of %r, '
                            'look-ahead: the semicolon the lexer supplies '
                            'for the line break' % text,
                            'does not raise the syntax error: %s'
                            % out[:160], witness=text,
                            where='parsers/es5.py:_raise_syntax_error / '
                            'lexers/es5.py:_create_semi_token')
                else:
                    r7.ok('inserted semicolon as look-ahead')
            # lexer: illegal character after v
            text, toks = layout_tokens(prefix, [('x', 'ID'), ('=', 'EQ'),
                                                (v, t), ('#', 'error')])
            import re as _re
            starts = [0] + [m.end() for m in _re.finditer(LT_SPLIT, text)]
            err = toks[3]
            err.value = text[err.lexpos:]
            # the lexer is a fresh one (all attributes Lexer.__init__
            # sets) advanced to the error: after a real token, at the very
            # start, or - comments captured or yielded - with a comment as
            # the raw previous token, with and without a real token before
            from .c04 import mk_lexer_obj
            text_c, toks_c = layout_tokens(prefix, [
                ('x', 'ID'), ('=', 'EQ'), (v, t),
                ('/*c*/', 'BLOCK_COMMENT'), ('#', 'error')])
            text_0, toks_0 = layout_tokens(prefix, [
                ('/*c*/', 'BLOCK_COMMENT'), ('#', 'error')])
            for state, txt, cur, real, err in (
                    ('after %s' % describe(v), text, toks[2], toks[2],
                     toks[3]),
                    ('no token', text, None, None, toks[3]),
                    ('a comment, no token', text_0, toks_0[0], None,
                     toks_0[1]),
                    ('a comment after %s' % describe(v), text_c, toks_c[3],
                     toks_c[2], toks_c[4])):
                is_c = cur is not None and cur.type == 'BLOCK_COMMENT'
                starts = [0] + [m.end() for m in _re.finditer(LT_SPLIT, txt)]
                err.value = txt[err.lexpos:]
                for wc in ((False, True) if is_c else (False,)):
                    lexer = mk_lexer_obj(lm=M_lexmodel)
                    lexer.cur_token = cur
                    lexer.cur_token_real = real
                    lexer.valid_prev_token = real
                    lexer.with_comments = wc
                    lexer.yield_comments = is_c and not wc
                    lexer.error_token_handlers = []
                    lexer.newline_idx = list(starts)
                    lexer.lexer = Obj('PlyLexer', lexdata=txt,
                                      lexpos=err.lexpos, lineno=len(starts))
                    ev = evaluator(lm, 'Lexer', lmeth)
                    out = 'returns'
                    try:
                        ev.call(t_error, [err], self_obj=lexer)
                    except Raised as e:
                        out = raised_text(e)
                    judge('t_error %s%s%s' % (
                        state, ' (comments captured)' if wc else '',
                        ' on line 2' if prefix else ''),
                        'Lexer.t_error at %r of %r' % ('#', txt), txt, out,
                        'lexers/es5.py:t_error / utils.py:format_lex_token')
        # regex error: the remaining input is quoted
        text, toks = layout_tokens(prefix, [('x', 'ID'), ('=', 'EQ'),
                                            ('/ab[c', 'error')])
        text = text.rstrip(' ')
        import re as _re
        starts = [0] + [m.end() for m in _re.finditer(LT_SPLIT, text)]
        lexer = Obj('Lexer', cur_token=toks[1], newline_idx=list(starts),
                    lexer=Obj('PlyLexer', lexdata=text,
                              lexpos=toks[2].lexpos, lineno=len(starts)))
        ev = evaluator(lm, 'Lexer', lmeth)
        out = 'returns'
        try:
            ev.call(t_regex_error, [toks[2]], self_obj=lexer)
        except Raised as e:
            out = raised_text(e)
        judge('t_regex_error%s' % (' on line 2' if prefix else ''),
              'Lexer.t_regex_error at %r of %r' % ('/ab[c', text), text,
              out, 'lexers/es5.py:t_regex_error')
    # the parenthesis bookkeeping of the lexer: token sequences (laid out
    # on a text) fed through _get_update_token up to the end of input
    from .c04 import mk_lexer_obj, hand
    gut = lmeth.get('_get_update_token')
    if gut is None:
        raise AnalysisError('Lexer._get_update_token vanished')
    TY = {'while': 'WHILE', 'if': 'IF', 'for': 'FOR', 'with': 'WITH',
          '(': 'LPAREN', ')': 'RPAREN', ';': 'SEMI', '{': 'LBRACE',
          '}': 'RBRACE'}
    seqs = (['while', '(', 'a'], ['if', '('], ['for', '(', 'x', ';'],
            ['f', '(', 'a'], ['a', ')'], ['while', '(', 'a', ')', ')'],
            ['(', 'a', ')', ')'], ['with', '(', '(', 'a', ')'],
            ['if', '(', 'a', ')', '{', 'b', ')'], [')'])
    for prefix in ('', 'q;\n  '):
        for seq in seqs:
            text, toks = layout_tokens(prefix, [
                (v, TY.get(v, 'ID')) for v in seq])
            feed_ = list(toks) + [None]
            lexer = mk_lexer_obj(lm=M_lexmodel)
            lexer.lexer = Obj('PlyLexer', lexdata=text, lexpos=0,
                              lineno=toks[0].lineno)
            lexer.get_lexer_token = ('pyfunc', lambda feed_=feed_,
                                     lexer=lexer: hand(lexer, feed_.pop(0)))
            out = 'returns'
            try:
                for _ in range(len(toks) + 1):
                    ev = evaluator(lm, 'Lexer', lmeth, {
                        'AutoLexToken': lambda: Obj('AutoLexToken')})
                    ev.call(gut, [], self_obj=lexer)
            except Raised as e:
                out = raised_text(e)
            if out == 'returns':
                r7.ok('%s: no error from the lexer' % ' '.join(seq))
                continue
            judge('parenthesis bookkeeping on `%s`%s' % (
                ' '.join(seq), ' on line 2' if prefix else ''),
                'Lexer._get_update_token over %r up to the end of input'
                % text, text, out,
                'lexers/es5.py:Lexer._get_update_token')
    # unterminated strings and broken escapes
    h = lm.functions.get('broken_string_token_handler')
    if h is None:
        raise AnalysisError('broken_string_token_handler vanished')
    import re as _re
    for prefix in ('', 'q;\n  '):
        for body in ('"ab', "'ab  ", '"abcdefghijklmnopqrstuvwxyz',
                     '"ab\\x4', "'ab\\uZ", '"ab\\\ncd', '"'):
            text = prefix + 'x = ' + body
            lexpos = len(prefix) + 4
            starts = [0] + [m.end() for m in _re.finditer(LT_SPLIT,
                                                          text[:lexpos])]
            lexer = Obj('Lexer', lineno=len(starts),
                        newline_idx=list(starts),
                        lexer=Obj('PlyLexer', lexpos=lexpos, lexdata=text,
                                  lineno=len(starts)))
            token = Obj('LexToken', type='error', value=text[lexpos:],
                        lineno=len(starts), lexpos=lexpos)
            ev = evaluator(lm, None, {}, {'re.match': _re.match},
                           class_methods={'Lexer': lmeth})
            out = 'returns'
            try:
                ev.call(h, [lexer, token])
            except Raised as e:
                out = raised_text(e)
            judge('broken string %s' % (
                'longer than the quoted prefix' if len(body) > 17 else
                shape_of(body) + (' on line 2' if prefix else '')),
                'broken_string_token_handler at %r of %r' % (body, text),
                text, out, 'lexers/es5.py:broken_string_token_handler')
    report.count('R12.7: quoted positions checked', n_quoted[0])
    if n_quoted[0] < 150:
        raise AnalysisError('R12.7: only %d `<text> at L:C` positions were '
                            'found in the evaluated messages: the message '
                            'format changed, the rule needs re-confirmation'
                            % n_quoted[0])
    return r7


def describe(v):
    if len(v) > 48:
        return 'a %d character identifier' % len(v)
    return repr(v)


def shape_of(body):
    return repr(body)


def text_passthrough_rule(report, index, rid):
    """Parser.parse and Lexer.input hand the text to ply exactly as given:
    every offset, line and column reported later is relative to what the
    caller passed in"""
    pm = index.need(PAR)
    lm = index.need(LEX)
    r = report.rule(rid, 'the text reaches the ply parser and lexer '
                    'unchanged (positions in messages and nodes are '
                    'relative to the caller\'s text)', floor=8)
    parse = need_function(pm, 'parse', 'Parser')
    linput = lm.class_methods('Lexer').get('input')
    texts = ('a', '\ufeffvar a = 1 2;', '  a  ', 'a\r\nb', '\n\na',
             '\u2028x', 'x\x00y', '')
    for text in texts:
        seen = []

        def ply_parse(*a, **k):
            seen.append((a, k))
            return Obj('ES5Program')
        parser = Obj('Parser', parser=Obj('LRParser', parse=(
            'pyfunc', ply_parse)), lexer=Obj('Lexer'), yacc_tracking=True)
        ev = Evaluator(pm, 'Parser', pm.class_methods('Parser'), {
            'isinstance': None}, is_subclass=lambda c, b: c == b)
        ev.functions.pop('isinstance', None)
        try:
            ev.call(parse, [text], self_obj=parser)
            got = seen[0][0][0] if seen and seen[0][0] else (
                seen[0][1].get('input') if seen else None)
        except Raised as e:
            got = 'raises %s' % e.text
        r.check(got == text and len(seen) == 1, 'Parser.parse text %r' % text,
                'Parser.parse(%r)' % text,
                'the ply parser is given %r: the text is altered before '
                'lexing, so every reported position is relative to another '
                'text than the caller\'s' % (got,),
                where='parsers/es5.py:Parser.parse', witness=text)
        if linput is not None:
            fed = []
            lexer = Obj('Lexer', lexer=Obj('PlyLexer', input=(
                'pyfunc', lambda t: fed.append(t))))
            ev = Evaluator(lm, 'Lexer', lm.class_methods('Lexer'), {})
            try:
                ev.call(linput, [text], self_obj=lexer)
                got = fed[0] if fed else None
            except Raised as e:
                got = 'raises %s' % e.text
            r.check(got == text and len(fed) == 1,
                    'Lexer.input text %r' % text, 'Lexer.input(%r)' % text,
                    'the ply lexer is given %r' % (got,),
                    where='lexers/es5.py:Lexer.input', witness=text)
    # the stream entry point: what the stream holds is what is parsed
    iom = index.module('calmjs.parse.io')
    if iom is not None and 'read' in iom.functions:
        from .c18 import io_evaluator
        for text in texts:
            for arrangement in ('open stream', 'factory'):
                seen = []

                def parser(t, seen=seen):
                    seen.append(t)
                    return Obj('ES5Program', sourcepath=None)
                sobj = Obj('Stream', name='src.js',
                           read=('pyfunc', lambda text=text: text),
                           close=('pyfunc', lambda: None))
                stream = sobj if arrangement == 'open stream' else (
                    'pyfunc', lambda sobj=sobj: sobj)
                ev = io_evaluator(iom)
                try:
                    ev.call(iom.functions['read'], [('pyfunc', parser),
                                                    stream])
                    got = seen[0] if seen else None
                except Raised as e:
                    got = 'raises %s' % e.text
                r.check(got == text and len(seen) == 1,
                        'io.read (%s) text %r' % (arrangement, text),
                        'io.read(parser, <%s holding %r>)' % (
                            arrangement, text),
                        'the parser is given %r: positions in the tree and '
                        'in error messages are relative to another text '
                        'than the content of the stream' % (got,),
                        where='io.py:read', witness=text)
    return r


def run(report, index, tier):
    report.explanation = (
        'May-raise / error-discipline analysis of lexers/es5.py and '
        'parsers/es5.py: classification of every raise site, a '
        'contradictory-null-belief analysis with guard dominance, and a '
        'partial-operation lint over subscripts, dict-literal lookups and '
        'regex match results, with an explicit triage table.')
    lm = index.need(LEX)
    pm = index.need(PAR)
    # R12.1 ---------------------------------------------------------------
    r1 = report.rule('R12.1', 'every raise site raises the library syntax '
                     'error (or the documented wrappers)', floor=8)
    pparse = need_function(pm, 'parse', 'Parser')
    called_from_parse = {
        c.func.id for c in ast.walk(pparse) if isinstance(c, ast.Call) and
        isinstance(c.func, ast.Name) and c.args and isinstance(
            c.args[0], ast.Name) and c.args[0].id in [
                a.arg for a in pparse.args.args]} | {
        c.func.attr for c in ast.walk(pparse) if isinstance(c, ast.Call) and
        isinstance(c.func, ast.Attribute) and isinstance(
            c.func.value, ast.Name) and c.func.value.id == 'self' and
        c.args and isinstance(c.args[0], ast.Name) and c.args[0].id in [
            a.arg for a in pparse.args.args]}

    def is_str_test(test, params):
        return isinstance(test, ast.Call) and isinstance(
            test.func, ast.Name) and test.func.id == 'isinstance' and \
            len(test.args) == 2 and isinstance(
                test.args[0], ast.Name) and test.args[0].id in params and \
            ast.unparse(test.args[1]) in ('str', '(str,)')

    def non_str_guarded(f, raise_node):
        params = [a.arg for a in f.args.args]
        # (i) inside `if not isinstance(p, str):`
        for n_ in ast.walk(f):
            if isinstance(n_, ast.If) and isinstance(
                    n_.test, ast.UnaryOp) and isinstance(
                    n_.test.op, ast.Not) and is_str_test(
                        n_.test.operand, params) and any(
                    x is raise_node for st in n_.body for x in ast.walk(st)):
                return True
        # (ii) a top-level statement after `if isinstance(p, str): return`
        for i, st in enumerate(f.body):
            if any(x is raise_node for x in ast.walk(st)) and any(
                    isinstance(b, ast.If) and is_str_test(b.test, params) and
                    b.body and isinstance(b.body[-1], ast.Return) and
                    not b.orelse for b in f.body[:i]):
                return True
        return False

    def unwraps_production_error(f, raise_node):
        for n_ in ast.walk(f):
            if isinstance(n_, ast.ExceptHandler) and n_.type is not None \
                    and ast.unparse(n_.type) == 'ProductionError' and \
                    n_.name and any(x is raise_node for st in n_.body
                                    for x in ast.walk(st)):
                return ast.unparse(raise_node.exc) == '%s.args[0]' % n_.name
        return False
    for m in (lm, pm):
        for cls, f, chain in iter_functions(m):
            for n in own_nodes(f):
                if not isinstance(n, ast.Raise):
                    continue
                construct = '%s: %s' % (f.name, ast.unparse(n)[:70])
                key = '%s raise %s' % (f.name, ast.unparse(n.exc)[:40]
                                       if n.exc else 'bare')
                where = '%s:%s (line %s)' % (m.name, f.name, n.lineno)
                exc = n.exc
                ok = False
                why = ''
                if exc is None:
                    ok, why = True, 're-raise'
                elif isinstance(exc, ast.Call):
                    name = ast.unparse(exc.func)
                    if name in ALLOWED_EXC:
                        ok = True
                    elif name == 'ProductionError':
                        ok = (len(exc.args) == 1 and isinstance(
                            exc.args[0], ast.Call) and ast.unparse(
                            exc.args[0].func) in ALLOWED_EXC)
                        why = 'wrapped syntax error'
                    elif name == 'TypeError':
                        # documented: non-string argument.  The raise is
                        # reached only when a parameter is not a str, in
                        # Parser.parse or a helper it calls with its text
                        ok = non_str_guarded(f, n) and (
                            f.name == 'parse' or f.name in
                            called_from_parse)
                        why = 'documented TypeError for a non-string text'
                    elif name.startswith('type(') and m is not lm:
                        ok = False
                elif isinstance(exc, ast.Name) and exc.id == 'StopIteration' \
                        and f.name in ('next', '__next__'):
                    ok, why = True, 'iterator protocol (not on the parse path)'
                elif f.name == 'parse' and unwraps_production_error(f, n):
                    ok, why = True, 'unwrapping ProductionError'
                r1.check(ok, key, construct,
                         'raises %s: an exception type other than the '
                         'library syntax error can escape from lexing / '
                         'parsing' % (ast.unparse(exc) if exc else ''),
                         where=where, okdetail=why)
    parse = need_function(pm, 'parse', 'Parser')
    ok = False
    for n in ast.walk(parse):
        if isinstance(n, ast.Try):
            calls = [c for s in n.body for c in ast.walk(s)
                     if isinstance(c, ast.Call) and
                     ast.unparse(c.func) == 'self.parser.parse']
            hs = [h for h in n.handlers if h.type is not None and
                  ast.unparse(h.type) == 'ProductionError']
            if calls and hs and hs[0].name and ast.unparse(hs[0].body[-1]) == \
                    'raise %s.args[0]' % hs[0].name:
                ok = True
    r1.check(ok, 'Parser.parse unwraps ProductionError', 'Parser.parse',
             'the ply parse call is not wrapped in `except ProductionError '
             'as e: raise e.args[0]`: ProductionError would escape',
             where='parsers/es5.py:Parser.parse')
    for name in ('t_error', 't_regex_error'):
        f = need_function(lm, name, 'Lexer')
        r1.check(always_raises(f.body), '%s raises on every path' % name,
                 'Lexer.%s' % name,
                 'the lexer error hook can return normally: ply then '
                 'raises its own LexError', where='lexers/es5.py:%s' % name)
    perr = need_function(pm, 'p_error', 'Parser')
    raisers = {name for name, fd in pm.class_methods('Parser').items()
               if always_raises(fd.body)}

    def terminates(stmts):
        """no path falls off the end of the block: it ends in a return of
        a value, a raise, a call of a method that always raises, or a
        branch both arms of which do"""
        if not stmts:
            return False
        last = stmts[-1]
        if isinstance(last, ast.Raise):
            return True
        if isinstance(last, ast.Return):
            return last.value is not None and not (isinstance(
                last.value, ast.Constant) and last.value.value is None)
        if isinstance(last, ast.Expr) and isinstance(
                last.value, ast.Call) and isinstance(
                last.value.func, ast.Attribute) and isinstance(
                last.value.func.value, ast.Name) and \
                last.value.func.value.id == 'self' and \
                last.value.func.attr in raisers:
            return True
        if isinstance(last, ast.If):
            return terminates(last.body) and terminates(last.orelse)
        if isinstance(last, ast.Try):
            return terminates(last.finalbody) or (
                terminates(last.body) and all(
                    terminates(h.body) for h in last.handlers))
        return False
    r1.check(terminates(perr.body),
             'p_error ends in _raise_syntax_error', 'Parser.p_error',
             'p_error can fall off its end (or return None) without '
             'raising: ply would continue its own error recovery',
             where='parsers/es5.py:p_error')
    rse = need_function(pm, '_raise_syntax_error', 'Parser')
    r1.check(always_raises(rse.body), '_raise_syntax_error raises',
             'Parser._raise_syntax_error', 'may return normally',
             where='parsers/es5.py:_raise_syntax_error')
    # error token handlers: the handler list is what t_error iterates
    bst = need_function(lm, 'broken_string_token_handler')

    # R12.2 ---------------------------------------------------------------
    r2 = report.rule('R12.2', 'believed-nullable values are dereferenced '
                     'only under a dominating guard', floor=8)
    linit = need_function(lm, '__init__', 'Lexer')
    none_fields = set()
    from engine.effects import self_attr_stores
    for attr, values in self_attr_stores(linit).items():
        if any(isinstance(v, ast.Constant) and v.value is None
               for v in values):
            none_fields.add(attr)
    none_fields.discard('lexer')     # set by build() inside __init__
    lmethods = lm.class_methods('Lexer')
    pmethods = pm.class_methods('Parser')
    # functions whose result is tested somewhere
    nullable_funcs = set()
    allfuncs = []
    for m in (lm, pm):
        for cls, f, chain in iter_functions(m):
            allfuncs.append((m, cls, f))
    for m, cls, f in allfuncs:
        tested = null_tests(f)
        for n in ast.walk(f):
            if isinstance(n, ast.Assign) and isinstance(
                    n.value, ast.Call) and len(n.targets) == 1 and \
                    isinstance(n.targets[0], ast.Name) and \
                    n.targets[0].id in tested:
                nullable_funcs.add(norm_call(ast.unparse(n.value.func)))
    known = set(lmethods) | set(pmethods)
    nullable_funcs &= known

    def field_nullable(t):
        if t.startswith('self.lexer.') and t.count('.') == 2:
            return t.split('.')[-1] in none_fields
        if t.startswith('self.') and t.count('.') == 1:
            return t.split('.')[-1] in none_fields
        if t.startswith('lexer.') and t.count('.') == 1:
            return t.split('.')[-1] in none_fields
        return False
    # propagate through returns
    changed = True
    while changed:
        changed = False
        for m, cls, f in allfuncs:
            if f.name in nullable_funcs or f.name not in known:
                continue
            local_null = set()
            for n in ast.walk(f):
                if isinstance(n, ast.Assign) and len(n.targets) == 1 and \
                        isinstance(n.targets[0], ast.Name):
                    v = n.value
                    if isinstance(v, ast.Call) and norm_call(ast.unparse(
                            v.func)) in nullable_funcs:
                        local_null.add(n.targets[0].id)
            for n in ast.walk(f):
                if isinstance(n, ast.Return) and n.value is not None:
                    v = n.value
                    t = ast.unparse(v)
                    if (isinstance(v, ast.Constant) and v.value is None) or \
                            field_nullable(t) or (
                            isinstance(v, ast.Name) and v.id in local_null) \
                            or (isinstance(v, ast.Call) and norm_call(
                                ast.unparse(v.func)) in nullable_funcs):
                        nullable_funcs.add(f.name)
                        changed = True
    report.count('fields initialised to None', len(none_fields))
    report.count('functions believed to return None sometimes',
                 len(nullable_funcs))
    # the summary auto_semi(None) is never None, by abstract evaluation
    auto_nonnull = True
    for ptype in (None, 'LINE_TERMINATOR', 'ID'):
        ev = Evaluator(lm, 'Lexer', lmethods,
                       {'AutoLexToken': lambda: Obj('AutoLexToken')})
        lexer = Obj('Lexer', prev_token=Obj('T', type=ptype) if ptype
                    else None, next_tokens=[])
        try:
            ret, _ = ev.call(lmethods['auto_semi'], [None], self_obj=lexer)
        except (Raised, AnalysisError):
            ret = None
        if ret is None:
            auto_nonnull = False
    # which self attributes a method may assign, transitively through
    # self.<method>() calls (for precise invalidation of guard facts)
    method_writes = {}
    for m_ in (lm, pm):
        for cname in m_.classes:
            meths = m_.class_methods(cname)
            direct, calls = {}, {}
            for name, fd in meths.items():
                w, c = set(), set()
                for n in ast.walk(fd):
                    if isinstance(n, (ast.Attribute,)) and isinstance(
                            n.ctx, (ast.Store, ast.Del)) and isinstance(
                            n.value, ast.Name) and n.value.id == 'self':
                        w.add(n.attr)
                    if isinstance(n, ast.Call) and isinstance(
                            n.func, ast.Attribute) and isinstance(
                            n.func.value, ast.Name) and \
                            n.func.value.id == 'self':
                        if n.func.attr in meths:
                            c.add(n.func.attr)
                        else:
                            w.add('*')
                    if isinstance(n, ast.Call) and isinstance(
                            n.func, ast.Name) and n.func.id == 'setattr':
                        w.add('*')
                direct[name], calls[name] = w, c
            changed_ = True
            while changed_:
                changed_ = False
                for name in meths:
                    for c in calls[name]:
                        if not direct[c] <= direct[name]:
                            direct[name] |= direct[c]
                            changed_ = True
            for name, w in direct.items():
                method_writes.setdefault(cname, {})[name] = \
                    None if '*' in w else w
    # facts that hold on entry of a helper method because every one of its
    # call sites is dominated by a guard (a helper extracted from under an
    # `if self.x is not None:` is still only reached under it)
    entry_nonnull = {}
    call_sites = {}
    for m, cls, f in allfuncs:
        for n in ast.walk(f):
            if isinstance(n, ast.Call) and isinstance(
                    n.func, ast.Attribute) and isinstance(
                    n.func.value, ast.Name) and n.func.value.id == 'self':
                call_sites.setdefault((cls, n.func.attr), []).append((f, n))
    for (cls, mname), sites_ in call_sites.items():
        common = None
        for f, n in sites_:
            facts = set()
            for g_ in dominating_guards(f, n):
                g_ = g_.strip()
                if g_.endswith(' is not None'):
                    facts.add(g_[:-len(' is not None')])
                elif is_ref_text(g_):
                    facts.add(g_)
            common = facts if common is None else (common & facts)
        if common:
            entry_nonnull[(cls, mname)] = common
    nsites = 0
    for m, cls, f in allfuncs:
        if f.name.startswith('p_') and f.name != 'p_error':
            continue
        tested = null_tests(f)
        params = [a.arg for a in f.args.args if a.arg != 'self']
        local_null = set(p for p in params if p in tested)
        for n in ast.walk(f):
            if isinstance(n, ast.Assign) and len(n.targets) == 1 and \
                    isinstance(n.targets[0], ast.Name):
                v = n.value
                name = n.targets[0].id
                if isinstance(v, ast.Constant) and v.value is None:
                    local_null.add(name)
                elif isinstance(v, ast.Call) and norm_call(ast.unparse(
                        v.func)) in nullable_funcs:
                    local_null.add(name)
                elif is_ref(v) and field_nullable(ast.unparse(v)):
                    local_null.add(name)
                elif isinstance(v, ast.BoolOp) and isinstance(
                        v.op, ast.Or):
                    lastv = v.values[-1]
                    if (is_ref(lastv) and (
                            field_nullable(ast.unparse(lastv)) or
                            ast.unparse(lastv) in local_null)):
                        local_null.add(name)

        def is_nullable(t, local_null=local_null):
            return t in local_null or field_nullable(t)
        mw = method_writes.get(cls)
        if mw is not None:
            mw = {k: v for k, v in mw.items() if v is not None}
        an = Analyzer(f, is_nullable, nullable_calls=nullable_funcs,
                      nonnull_calls=NONNULL_SOURCES, method_writes=mw,
                      none_only_for_none=('auto_semi',) if auto_nonnull
                      else ())
        sites = an.run()
        # count guarded dereferences too (for the instance floor)
        for n in ast.walk(f):
            if isinstance(n, (ast.Attribute, ast.Subscript)) and is_ref(
                    n.value) and is_nullable(ast.unparse(n.value)):
                nsites += 1
        bad = {}
        given = entry_nonnull.get((cls, f.name), set())
        assigned = {ast.unparse(t_) for n_ in ast.walk(f)
                    if isinstance(n_, (ast.Assign, ast.AugAssign))
                    for t_ in (n_.targets if isinstance(n_, ast.Assign)
                               else [n_.target])}
        for node, t in sites:
            if t in given and t not in assigned:
                continue    # guarded at every call site of this helper
            bad.setdefault((f.name, t), node)
        for n in ast.walk(f):
            if isinstance(n, (ast.Attribute, ast.Subscript)) and is_ref(
                    n.value) and is_nullable(ast.unparse(n.value)):
                t = ast.unparse(n.value)
                construct = '%s: %s' % (f.name, ast.unparse(n))
                if (f.name, t) in bad and bad[(f.name, t)] is n:
                    tri = TRIAGE_NULL.get((f.name, t)) or TRIAGE_NULL.get(
                        ('*', t))
                    if tri:
                        r2.ok(construct, 'triaged: ' + tri)
                        continue
                    r2.fail('%s dereferences %s' % (f.name, t), construct,
                            '`%s` is tested against None elsewhere (or '
                            'initialised to None) but `%s` dereferences it '
                            'here without a dominating guard: '
                            'AttributeError/TypeError instead of a syntax '
                            'error' % (t, ast.unparse(n)),
                            where='%s:%s (line %s)' % (m.name, f.name,
                                                       n.lineno))
                elif not any(node is n for node, _ in sites):
                    r2.ok(construct, 'guarded')
    report.count('dereferences of believed-nullable values', nsites)

    # R12.3 ---------------------------------------------------------------
    r3 = report.rule('R12.3', 'partial operations on input-derived values '
                     'are guarded or triaged', floor=15)
    invariants = {}
    for m_ in (lm, pm):
        for cname in m_.classes:
            invariants[cname] = nonempty_list_attrs(m_, cname)
    report.count('never-empty list attributes (checked invariant)',
                 ', '.join('%s.%s' % (c, a) for c, d in sorted(
                     invariants.items()) for a in sorted(d)))
    for m, cls, f in allfuncs:
        if f.name.startswith('p_') and f.name != 'p_error':
            continue
        src = ast.unparse(f)
        # names bound to slices (length not guaranteed)
        slices = {}
        for n in ast.walk(f):
            if isinstance(n, ast.Assign) and len(n.targets) == 1 and \
                    isinstance(n.targets[0], ast.Name) and isinstance(
                    n.value, ast.Subscript) and isinstance(
                    n.value.slice, ast.Slice):
                slices[n.targets[0].id] = n.value
        guarded_by_try = set()
        for n in ast.walk(f):
            if isinstance(n, ast.Try) and any(
                    h.type is not None and 'IndexError' in ast.unparse(
                        h.type) for h in n.handlers):
                for s in n.body:
                    for x in ast.walk(s):
                        guarded_by_try.add(id(x))
        for n in own_nodes(f):
            where = '%s:%s (line %s)' % (m.name, f.name,
                                         getattr(n, 'lineno', '?'))
            if isinstance(n, ast.Subscript) and isinstance(
                    n.ctx, ast.Load) and not isinstance(n.slice, ast.Slice):
                t = ast.unparse(n)
                construct = '%s: %s' % (f.name, t)
                key = '%s subscript %s' % (f.name, t)
                if isinstance(n.value, ast.Name) and n.value.id == 'p':
                    continue
                if id(n) in guarded_by_try:
                    r3.ok(construct, 'inside try/except IndexError')
                    continue
                if f.name in TABLE_COVERED:
                    r3.ok(construct, 'decided by the table of R12.6')
                    continue
                guards = dominating_guards(f, n)
                if isinstance(n.value, ast.Dict):
                    keys = [k.value for k in n.value.keys
                            if isinstance(k, ast.Constant)]
                    kt = ast.unparse(n.slice)
                    allowed = guard_values(guards, n.slice)
                    ok = allowed is not None and set(allowed) <= set(keys)
                    r3.check(ok, key, construct,
                             'dict literal with keys %s is indexed by `%s`, '
                             'an input character that no dominating guard '
                             'restricts to those keys%s: KeyError' % (
                                 keys, kt, '' if allowed is None else
                                 ' (guard admits %s)' % sorted(allowed)),
                             where=where)
                    continue
                if isinstance(n.value, ast.Name) and n.value.id in slices \
                        and isinstance(n.slice, ast.Constant) and isinstance(
                            n.slice.value, int):
                    k = n.slice.value
                    name = n.value.id
                    need = k + 1 if k >= 0 else -k
                    ok = False
                    if need == 1 and any(
                            name in implied for implied in guards):
                        ok = True
                    if guard_values(guards, n) is not None:
                        ok = True      # name[k:k+1] in (non-empty ...)
                    for gtext in guards:
                        if 'len(%s) > %d' % (name, k) in gtext or \
                                'len(%s) >= %d' % (name, need) in gtext:
                            ok = True
                    if ok:
                        r3.ok(construct, 'length guard')
                    elif (f.name, t) in TRIAGE_PARTIAL:
                        r3.ok(construct, 'triaged: ' + TRIAGE_PARTIAL[
                            (f.name, t)])
                    else:
                        r3.fail(key, construct,
                                '`%s` is the slice %s of the input and may '
                                'be shorter than %d characters: IndexError'
                                % (name, ast.unparse(slices[name]), need),
                                where=where)
                    continue
                inv = invariant_discharges(t, invariants.get(cls, {}))
                # triage keys are independent of how a handler names the
                # caught ProductionError
                for h in ast.walk(f):
                    if isinstance(h, ast.ExceptHandler) and h.name and \
                            h.type is not None and ast.unparse(
                                h.type) == 'ProductionError' and \
                            t == '%s.args[0]' % h.name:
                        t = 'e.args[0]'
                if f.name in TABLE_COVERED:
                    r3.ok(construct, 'decided by the table of R12.6')
                elif inv is not None:
                    r3.ok(construct, inv)
                elif (f.name, t) in TRIAGE_PARTIAL:
                    r3.ok(construct, 'triaged: ' + TRIAGE_PARTIAL[
                        (f.name, t)])
                else:
                    r3.fail(key, construct,
                            'subscript that the lint can neither discharge '
                            'nor finds in the triage table', where=where)
            if isinstance(n, ast.Call) and isinstance(
                    n.func, ast.Attribute) and n.func.attr in (
                    'group', 'groups', 'start', 'end') and isinstance(
                    n.func.value, ast.Call) and ast.unparse(
                    n.func.value.func) in ('re.match', 're.search'):
                construct = '%s: %s' % (f.name, ast.unparse(n)[:60])
                # the match cannot fail if a dominating dict lookup already
                # restricted the input to the pattern's mandatory prefix
                r3.ok(construct, 'triaged: the pattern only requires the '
                      'backslash and escape letter that the preceding '
                      'lookup (R12.3 dict rule) already demands')
    # R12.5 ---------------------------------------------------------------
    r126(report, index, lm, pm, tier)
    r127(report, index, lm, pm, tier)
    text_passthrough_rule(report, index, 'R12.8')
    from .shared import models
    from engine.actions import Slot
    M = models(index)
    r5 = report.rule('R12.5', 'parser actions iterate / splice only values '
                     'that are lists on that path', floor=8)
    for oc in M.actions.all_outcomes():
        for v, lineno, what in oc.iter_uses:
            if not isinstance(v, Slot):
                r5.ok('%s: %s of a list built in the action' % (
                    oc.prod.func, what))
                continue
            ks = M.printer.kinds(v)
            bad = sorted(k[0] if k[0] != 'node' else k[1] for k in ks
                         if k[0] != 'list')
            r5.check(not bad, '%s %s p[%d]' % (oc.prod.func, what, v.idx),
                     '%s: %s on p[%d]:%s' % (oc.prod.text, what, v.idx,
                                             v.sym),
                     'p[%d] (%s) can be %s on this path (%s): %s raises '
                     'TypeError instead of a syntax error / a tree' % (
                         v.idx, v.sym, '/'.join(bad),
                         oc.conds or 'unconditional', what),
                     where='parsers/es5.py:%s (line %s)' % (oc.prod.func,
                                                            lineno))
    from .c06 import line_index_rule
    line_index_rule(report, index, 'R12.4')
    report.not_decided += [
        'termination (the while-True loop of Lexer._token and ply\'s '
        'error recovery have no static bound in reach)',
        'that the line:column of an error message designates the '
        'offending text (string-valued runtime data)']
    report.trusted_base += ['CPython ast', 'guard-dominance analysis '
                            '(engine/nullguard.py)', 'triage table in '
                            'checks/c12.py']
