#!/venv/bin/python
"""tools_mut.py <scratch-root> <relpath> <old> <new> [count]
   copy /repo/src to scratch root (if missing) and apply one textual edit"""
import sys, os, shutil
root, rel, old, new = sys.argv[1:5]
nth = int(sys.argv[5]) if len(sys.argv) > 5 else 0
if not os.path.exists(root):
    os.makedirs(root)
    shutil.copytree('/repo/src', os.path.join(root, 'src'), ignore=shutil.ignore_patterns('tests', '__pycache__'))
p = os.path.join(root, 'src/calmjs/parse', rel)
s = open(p).read()
idx = -1
for _ in range(nth + 1):
    idx = s.index(old, idx + 1)
s = s[:idx] + new + s[idx + len(old):]
open(p, 'w').write(s)
print('edited', rel)
