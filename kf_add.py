#!/venv/bin/python
"""helper: add/update entries of known_findings.json
usage: kf_add.py PROP KEY WITNESS [NOTE]"""
import json, sys, os
P = os.path.join(os.path.dirname(os.path.abspath(__file__)), 'known_findings.json')
data = json.load(open(P)) if os.path.exists(P) else {'findings': []}
prop, key, witness = sys.argv[1:4]
note = sys.argv[4] if len(sys.argv) > 4 else ''
for e in data['findings']:
    if e['property'] == prop and e['key'] == key:
        e.update(witness=witness, note=note)
        break
else:
    data['findings'].append({'property': prop, 'key': key, 'status': 'known', 'witness': witness, 'note': note})
json.dump(data, open(P, 'w'), indent=1, ensure_ascii=False)
