#!/venv/bin/python
"""Regenerates MANIFEST.json from the table below (single source of truth)."""
import json, os
HERE = os.path.dirname(os.path.abspath(__file__))
PY = '/venv/bin/python'

CHECKS = {}   # filled by manifest_data.py
NA = {}
exec(open(os.path.join(HERE, 'manifest_data.py')).read())

props = [json.loads(l)['id'] for l in open(os.path.join(HERE, 'properties.jsonl'))]
checks = []
na = []
for pid in props:
    if pid in CHECKS:
        c = CHECKS[pid]
        checks.append({
            'property_id': pid,
            'quick_cmd': '%s /verif/vp.py check %s --tier quick' % (PY, pid),
            'thorough_cmd': '%s /verif/vp.py check %s --tier thorough' % (PY, pid),
            'evidence_file': '/verif/evidence/%s.json' % pid,
            'replay_cmd_template': '%s /verif/vp.py replay {path}' % PY,
            'engine': 'static-checkers',
            'level_claimed': {'category': 'other', 'text': c['text'], 'design_ref': c['ref']},
            'level_note': c['note'],
            'technique': c['technique'],
        })
    else:
        na.append({'property_id': pid, 'reason': NA.get(pid, 'check not built yet (work in progress); not claimed')})
m = {
    'version': 1,
    'setup_cmd': '%s -m compileall -q /verif/engine /verif/checks /verif/vp.py >/dev/null 2>&1; %s /verif/vp.py --help >/dev/null' % (PY, PY),
    'hooks': {
        'guard': 'CALMJS_PARSE_VERIF',
        'enable': 'none needed: the checkers read the source text of /repo/src; no instrumentation exists, the guard name is reserved only',
        'baseline_off_cmd': 'cd /repo && /venv/bin/python -m pytest -ra -q -p no:cacheprovider --timeout=900 --continue-on-collection-errors',
        'source_commits': [],
        'add_only': True,
    },
    'engines': [{
        'name': 'static-checkers',
        'path': '/verif/vp.py',
        'serves_properties': sorted(CHECKS),
        'kind_free_text': 'repository-specific static analysis over the source text (ast, grammar docstrings, rule tables, regex syntax trees); never imports or runs calmjs.parse',
    }],
    'checks': checks,
    'not_applicable': na,
    'notes': 'See DESIGN.md. Exit 2 + ANALYSIS-ERROR means the analysis cannot interpret the tree (never a pass).',
}
json.dump(m, open(os.path.join(HERE, 'MANIFEST.json'), 'w'), indent=1)
print('MANIFEST.json: %d checks, %d not_applicable' % (len(checks), len(na)))
