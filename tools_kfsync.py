#!/venv/bin/python
"""One-off maintenance helper (not a registered command): re-key the
"identifier character outside \\w" known findings per printing site.

The fusion rules used to report that cause under one key per rule; a new
site with the same cause (a definition that loses its RequiredSpace, say)
was then hidden behind the known finding.  The keys now name the window
(token, slot, token); this script replaces the old entries by one entry
per window found on the current tree.  It is run by hand after reading the
list; checks never write known_findings.json."""
import sys, json, importlib, os
HERE = os.path.dirname(os.path.abspath(__file__))
sys.path.insert(0, HERE)
os.environ['VERIF_NO_EVIDENCE'] = '1'
from engine.srcindex import SourceIndex   # noqa: E402
from engine.common import Report          # noqa: E402

P = os.path.join(HERE, 'known_findings.json')
NOTE = ("the space handlers decide with Python's \\w (plus $) whether two "
        "texts need a blank; the lexer's identifier characters "
        "(unicode_chars.py) include letters that \\w does not match (e.g. "
        "U+1885, combining marks as identifier parts), so a keyword and "
        "such an identifier are printed without a blank and fuse on "
        "re-lexing; one cause (handlers/core.py required_space), listed "
        "per printing site")


def main():
    data = json.load(open(P))
    before = len(data['findings'])
    data['findings'] = [
        e for e in data['findings']
        if 'identifier character outside' not in e['key']]
    print('removed', before - len(data['findings']))
    for prop in ('C01', 'C02'):
        rep = Report(prop, tier='quick', root='/repo', seed=0)
        mod = importlib.import_module('checks.%s' % prop.lower())
        idx = SourceIndex('/repo', rep)
        mod.run(rep, idx, 'quick')
        seen = set()
        for f in rep.findings:
            if 'identifier character outside' in f['key'] and \
                    f['key'] not in seen:
                seen.add(f['key'])
                data['findings'].append({
                    'property': prop, 'key': f['key'], 'status': 'known',
                    'witness': f.get('witness', ''), 'note': NOTE})
    json.dump(data, open(P, 'w'), indent=1, ensure_ascii=False)
    print(len(data['findings']), 'entries')


if __name__ == '__main__':
    main()
