# -*- coding: utf-8 -*-
"""
Model of the token rules of lexers/es5.Lexer, read from the source text:
rule name -> regex source, kind (function / string), lexer state, order as
ply.lex computes it, fixed lexemes of punctuators and keywords.
"""
from __future__ import annotations

import ast
import re
import re._parser as sre_parse
import re._constants as sre_c

from .common import AnalysisError
from .srcindex import Folder, Unfoldable, need_const

LEXER_MOD = 'calmjs.parse.lexers.es5'


class TokenRule(object):
    __slots__ = ('name', 'type', 'state', 'pattern', 'kind', 'line', 'func')

    def __init__(self, name, type_, state, pattern, kind, line, func=None):
        self.name = name        # t_XXX / t_regex_XXX
        self.type = type_       # XXX
        self.state = state      # INITIAL / regex
        self.pattern = pattern  # regex source
        self.kind = kind        # 'func' | 'str'
        self.line = line
        self.func = func

    def __repr__(self):
        return '<%s %s %s>' % (self.state, self.type, self.kind)


def literal_of(pattern, flags=re.VERBOSE):
    """If the regex matches exactly one string, return it."""
    try:
        tree = sre_parse.parse(pattern, flags)
    except Exception:
        return None
    out = []
    items = list(tree)
    # a trailing look-ahead does not change the matched text
    while items and items[-1][0] in (sre_c.ASSERT, sre_c.ASSERT_NOT):
        items.pop()
    for op, av in items:
        if op is sre_c.LITERAL:
            out.append(chr(av))
        else:
            return None
    return ''.join(out)


def class_namespace(module, clsname, wanted):
    """final values of the class level names `wanted`: the statements of
    the class body that mention one of them (definition, item stores,
    augmented assignments, method calls such as .update()) are evaluated
    in order"""
    from .absint import Evaluator, Raised
    env = {}
    ev = Evaluator(module, clsname, {}, {}, max_steps=200000)
    for st in module.classes[clsname].body:
        if not isinstance(st, (ast.Assign, ast.AugAssign, ast.Expr)):
            continue
        if isinstance(st, ast.Expr) and not isinstance(st.value, ast.Call):
            continue
        roots = set()
        tgts = st.targets if isinstance(st, ast.Assign) else (
            [st.target] if isinstance(st, ast.AugAssign) else [st.value.func])
        for t in tgts:
            e = t
            while isinstance(e, (ast.Attribute, ast.Subscript)):
                e = e.value
            if isinstance(e, ast.Name):
                roots.add(e.id)
        if not roots & set(wanted):
            continue
        try:
            ev.stmt(st, env)
        except (AnalysisError, Raised):
            # the plain definition is still available through the folder
            for r in roots:
                env.pop(r, None)
    return env


class LexModel(object):

    def __init__(self, index):
        self.module = m = index.need(LEXER_MOD)
        if 'Lexer' not in m.classes:
            raise AnalysisError('class Lexer vanished from lexers/es5.py')
        cls = m.classes['Lexer']
        self.tokens = tuple(need_const(m, 'tokens', 'Lexer', tuple))
        self.keywords = tuple(need_const(m, 'keywords', 'Lexer', tuple))
        self.keywords_dict = need_const(m, 'keywords_dict', 'Lexer', dict)
        # later statements of the class body may extend the tables
        # (keywords_dict['x'] = 'X', tokens += (...), .update(...))
        ns = class_namespace(m, 'Lexer', ('tokens', 'keywords',
                                          'keywords_dict'))
        if isinstance(ns.get('tokens'), (tuple, list)):
            self.tokens = tuple(ns['tokens'])
        if isinstance(ns.get('keywords'), (tuple, list)):
            self.keywords = tuple(ns['keywords'])
        if isinstance(ns.get('keywords_dict'), dict):
            self.keywords_dict = dict(ns['keywords_dict'])
        states = need_const(m, 'states', 'Lexer', tuple)
        self.states = {'INITIAL': 'inclusive'}
        for name, kind in states:
            self.states[name] = kind
        self.rules = []
        self.ignore = {}
        self.error_funcs = {}
        folder = Folder(m, 'Lexer')
        for st in cls.body:
            if isinstance(st, ast.Assign) and len(st.targets) == 1 and \
                    isinstance(st.targets[0], ast.Name) and \
                    st.targets[0].id.startswith('t_'):
                name = st.targets[0].id
                state, typ = self._split(name)
                try:
                    val = folder.fold(st.value)
                except Unfoldable as e:
                    raise AnalysisError('cannot fold %s: %s' % (name, e))
                if not isinstance(val, str):
                    raise AnalysisError('%s is not a string' % name)
                if typ == 'ignore':
                    self.ignore[state] = val
                else:
                    self.rules.append(TokenRule(
                        name, typ, state, val, 'str', st.lineno))
            elif isinstance(st, ast.FunctionDef) and st.name.startswith(
                    't_'):
                state, typ = self._split(st.name)
                if typ == 'error':
                    self.error_funcs[state] = st
                    continue
                pat = None
                for d in st.decorator_list:
                    if isinstance(d, ast.Call) and ast.unparse(
                            d.func).endswith('TOKEN') and d.args:
                        try:
                            pat = folder.fold(d.args[0])
                        except Unfoldable as e:
                            raise AnalysisError(
                                'cannot fold pattern of %s: %s' % (
                                    st.name, e))
                if pat is None:
                    pat = ast.get_docstring(st, clean=False)
                if not isinstance(pat, str):
                    raise AnalysisError('%s has no pattern' % st.name)
                self.rules.append(TokenRule(
                    st.name, typ, state, pat, 'func', st.lineno, st))
        for r in self.rules:
            if r.type not in self.tokens:
                raise AnalysisError(
                    'rule %s defines unknown token type %s' % (
                        r.name, r.type))
        self.fixed = {}
        for r in self.rules:
            lit = literal_of(r.pattern)
            if lit is not None:
                self.fixed[r.type] = lit
        for kw in self.keywords:
            self.fixed[kw] = kw.lower()
        if 'AUTOSEMI' in self.tokens:
            self.fixed.setdefault('AUTOSEMI', ';')

    def _split(self, name):
        parts = name.split('_')
        # t_<state>_<TYPE> | t_<TYPE>
        if len(parts) > 2 and parts[1] in self.states and \
                parts[1] != 'INITIAL':
            return parts[1], '_'.join(parts[2:])
        return 'INITIAL', '_'.join(parts[1:])

    def ordered(self, state='INITIAL'):
        """Rule order of ply.lex: functions by line, then strings by
        decreasing regex length (stable over dir() = alphabetical)."""
        funcs = [r for r in self.rules
                 if r.state == state and r.kind == 'func']
        strs = [r for r in self.rules if r.state == state and r.kind == 'str']
        funcs.sort(key=lambda r: r.line)
        strs.sort(key=lambda r: r.name)
        strs.sort(key=lambda r: len(r.pattern), reverse=True)
        return funcs + strs

    def rule(self, typ, state='INITIAL'):
        for r in self.rules:
            if r.type == typ and r.state == state:
                return r
        raise AnalysisError('token rule for %s (%s) vanished' % (typ, state))

    def lexeme(self, terminal):
        return self.fixed.get(terminal)
