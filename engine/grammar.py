# -*- coding: utf-8 -*-
"""
E2 - grammar model extracted from the p_* docstrings of parsers/es5.Parser.

Productions are kept in ply's order (functions sorted by first line, then
alternatives top to bottom).  Provides nullable / FIRST / LAST / FOLLOW and
terminal adjacency (with an optional role split of reserved words), and an
LALR(1) table built by ply *as a library* from the extracted
(lhs, rhs) tuples only.
"""
from __future__ import annotations

import ast

from .common import AnalysisError
from .srcindex import need_const

PARSER_MOD = 'calmjs.parse.parsers.es5'
LEXER_MOD = 'calmjs.parse.lexers.es5'


class Production(object):
    __slots__ = ('index', 'lhs', 'rhs', 'func', 'alt', 'line')

    def __init__(self, index, lhs, rhs, func, alt, line):
        self.index = index
        self.lhs = lhs
        self.rhs = tuple(rhs)
        self.func = func      # name of the p_ function
        self.alt = alt        # ordinal of the alternative inside func
        self.line = line

    @property
    def text(self):
        return '%s -> %s' % (self.lhs, ' '.join(self.rhs) or '<empty>')

    def __repr__(self):
        return self.text


def parse_docstring(doc, fname):
    """Transcription of ply.yacc.parse_grammar (ply 3.11)."""
    out = []
    lastp = None
    for raw in doc.splitlines():
        p = raw.split()
        if not p:
            continue
        if p[0] == '|':
            if lastp is None:
                raise AnalysisError("%s: misplaced '|'" % fname)
            prodname = lastp
            syms = p[1:]
        else:
            prodname = p[0]
            lastp = prodname
            syms = p[2:]
            if len(p) < 2 or p[1] not in (':', '::='):
                raise AnalysisError(
                    "%s: syntax error in rule %r" % (fname, raw.strip()))
        out.append((prodname, syms))
    return out


class Grammar(object):

    def __init__(self, index):
        self.index = index
        pm = index.need(PARSER_MOD)
        lm = index.need(LEXER_MOD)
        if 'Parser' not in pm.classes:
            raise AnalysisError('class Parser vanished from parsers/es5.py')
        self.parser_module = pm
        self.lexer_module = lm
        self.tokens = tuple(need_const(lm, 'tokens', 'Lexer', tuple))
        self.keywords = tuple(need_const(lm, 'keywords', 'Lexer', tuple))
        self.terminals = set(self.tokens)
        self.functions = {}
        self.productions = []
        methods = [st for st in pm.classes['Parser'].body
                   if isinstance(st, ast.FunctionDef) and
                   st.name.startswith('p_') and st.name != 'p_error']
        methods.sort(key=lambda f: f.lineno)
        for f in methods:
            doc = ast.get_docstring(f, clean=False)
            self.functions[f.name] = f
            if not doc:
                raise AnalysisError('%s has no grammar docstring' % f.name)
            for alt, (lhs, syms) in enumerate(parse_docstring(doc, f.name)):
                self.productions.append(Production(
                    len(self.productions) + 1, lhs, syms, f.name, alt,
                    f.lineno))
        self.start = self._find_start(pm)
        self.nonterminals = []
        for p in self.productions:
            if p.lhs not in self.nonterminals:
                self.nonterminals.append(p.lhs)
        self.by_lhs = {}
        for p in self.productions:
            self.by_lhs.setdefault(p.lhs, []).append(p)
        self.by_func = {}
        for p in self.productions:
            self.by_func.setdefault(p.func, []).append(p)
        nts = set(self.nonterminals)
        for p in self.productions:
            for s in p.rhs:
                if s not in nts and s not in self.terminals:
                    raise AnalysisError(
                        'symbol %s in %r is neither token nor nonterminal'
                        % (s, p.text))
            if p.lhs in self.terminals:
                raise AnalysisError('%s is both token and nonterminal'
                                    % p.lhs)
        if self.start not in nts:
            raise AnalysisError('start symbol %s undefined' % self.start)
        self._analyse()

    def _find_start(self, pm):
        # ply.yacc.yacc(..., start='program') in Parser.__init__
        for node in ast.walk(pm.classes['Parser']):
            if isinstance(node, ast.Call) and \
                    ast.unparse(node.func).endswith('yacc.yacc'):
                starred = False
                for kw in node.keywords:
                    if kw.arg == 'start' and isinstance(
                            kw.value, ast.Constant):
                        return kw.value.value
                    if kw.arg is None:
                        # **kwargs: a dict literal bound to a local name
                        starred = True
                        d = kw.value
                        if isinstance(d, ast.Name):
                            for n2 in ast.walk(pm.classes['Parser']):
                                if isinstance(n2, ast.Assign) and len(
                                        n2.targets) == 1 and isinstance(
                                        n2.targets[0], ast.Name) and \
                                        n2.targets[0].id == d.id:
                                    d = n2.value
                                    break
                        if isinstance(d, ast.Dict):
                            for k, v in zip(d.keys, d.values):
                                if isinstance(k, ast.Constant) and \
                                        k.value == 'start' and isinstance(
                                        v, ast.Constant):
                                    return v.value
                        elif isinstance(d, ast.Call) and ast.unparse(
                                d.func) == 'dict':
                            for k2 in d.keywords:
                                if k2.arg == 'start' and isinstance(
                                        k2.value, ast.Constant):
                                    return k2.value.value
                if starred:
                    raise AnalysisError(
                        'the start symbol handed to ply.yacc.yacc cannot '
                        'be read from Parser.__init__ (keyword arguments '
                        'passed through an object the analysis does not '
                        'follow)')
        # ply's default: the left-hand side of the first rule
        return self.productions[0].lhs

    # ------------------------------------------------------------------

    def is_terminal(self, s):
        return s in self.terminals

    def _analyse(self):
        self.nullable = set()
        changed = True
        while changed:
            changed = False
            for p in self.productions:
                if p.lhs not in self.nullable and all(
                        s in self.nullable for s in p.rhs):
                    self.nullable.add(p.lhs)
                    changed = True
        self.first = {n: set() for n in self.nonterminals}
        self.last = {n: set() for n in self.nonterminals}
        changed = True
        while changed:
            changed = False
            for p in self.productions:
                for seq, table in ((p.rhs, self.first),
                                   (p.rhs[::-1], self.last)):
                    acc = table[p.lhs]
                    before = len(acc)
                    for s in seq:
                        if s in self.terminals:
                            acc.add(s)
                            break
                        acc |= table[s]
                        if s not in self.nullable:
                            break
                    if len(acc) != before:
                        changed = True
        self.follow = {n: set() for n in self.nonterminals}
        self.follow[self.start].add('$end')
        changed = True
        while changed:
            changed = False
            for p in self.productions:
                trailer = set(self.follow[p.lhs])
                for s in reversed(p.rhs):
                    if s in self.terminals:
                        trailer = {s}
                        continue
                    before = len(self.follow[s])
                    self.follow[s] |= trailer
                    if len(self.follow[s]) != before:
                        changed = True
                    if s in self.nullable:
                        trailer = trailer | self.first[s]
                    else:
                        trailer = set(self.first[s])

    def first_of(self, s):
        return {s} if s in self.terminals else self.first[s]

    def last_of(self, s):
        return {s} if s in self.terminals else self.last[s]

    def first_of_seq(self, seq):
        out = set()
        for s in seq:
            out |= self.first_of(s)
            if s in self.terminals or s not in self.nullable:
                return out, False
        return out, True

    def adjacency(self):
        """Set of terminal pairs (a, b) such that some sentential form
        derivable from the start symbol has a immediately followed by b."""
        adj = set()
        for p in self.productions:
            rhs = p.rhs
            for i, s in enumerate(rhs):
                lasts = self.last_of(s)
                for j in range(i + 1, len(rhs)):
                    t = rhs[j]
                    for a in lasts:
                        for b in self.first_of(t):
                            adj.add((a, b))
                    if t in self.terminals or t not in self.nullable:
                        break
        return adj

    def reachable(self):
        seen = {self.start}
        todo = [self.start]
        while todo:
            n = todo.pop()
            for p in self.by_lhs.get(n, ()):
                for s in p.rhs:
                    if s not in self.terminals and s not in seen:
                        seen.add(s)
                        todo.append(s)
        return seen

    # ------------------------------------------------------------------

    def role_split(self, role_nt='reserved_word', suffix='@name'):
        """A copy of the production list where the terminals of the
        ``reserved_word`` production are renamed X@name, so that adjacency
        can distinguish `typeof` the operator from `.typeof` the property
        name."""
        prods = []
        for p in self.productions:
            if p.lhs == role_nt and len(p.rhs) == 1 and \
                    p.rhs[0] in self.terminals:
                prods.append((p.lhs, (p.rhs[0] + suffix,)))
            else:
                prods.append((p.lhs, p.rhs))
        return prods

    # ------------------------------------------------------------------

    def lalr(self):
        """Build the LALR(1) table with ply as a library, on the extracted
        productions only.  Returns (lr, sr_conflicts, rr_conflicts)."""
        try:
            import ply.yacc as yacc
        except ImportError:
            raise AnalysisError('ply is not importable (needed as library)')
        g = yacc.Grammar(self.tokens)
        for p in self.productions:
            g.add_production(p.lhs, list(p.rhs), p.func, 'es5.py', p.line)
        g.set_start(self.start)
        g.undefined_symbols()
        g.compute_first()
        g.compute_follow()

        class Table(yacc.LRGeneratedTable):
            # keep the canonical collection so that conflicts can be
            # related to their items afterwards
            def lr0_items(self):
                if getattr(self, '_C', None) is None:
                    self._C = yacc.LRGeneratedTable.lr0_items(self)
                return self._C

        lr = Table(g, 'LALR', yacc.NullLogger())
        return g, lr


def simple_grammar_tables(prods, terminals, start):
    """nullable/first/last/adjacency for an arbitrary production list
    [(lhs, rhs)], used for role-split and reference grammars."""
    nts = []
    for lhs, _ in prods:
        if lhs not in nts:
            nts.append(lhs)
    nullable = set()
    changed = True
    while changed:
        changed = False
        for lhs, rhs in prods:
            if lhs not in nullable and all(s in nullable for s in rhs):
                nullable.add(lhs)
                changed = True
    first = {n: set() for n in nts}
    last = {n: set() for n in nts}
    changed = True
    while changed:
        changed = False
        for lhs, rhs in prods:
            for seq, table in ((rhs, first), (rhs[::-1], last)):
                acc = table[lhs]
                before = len(acc)
                for s in seq:
                    if s not in table:
                        acc.add(s)
                        break
                    acc |= table[s]
                    if s not in nullable:
                        break
                if len(acc) != before:
                    changed = True
    # restrict to reachable nonterminals
    by_lhs = {}
    for lhs, rhs in prods:
        by_lhs.setdefault(lhs, []).append(rhs)
    seen = {start}
    todo = [start]
    while todo:
        n = todo.pop()
        for rhs in by_lhs.get(n, ()):
            for s in rhs:
                if s in by_lhs and s not in seen:
                    seen.add(s)
                    todo.append(s)
    adj = set()
    for lhs, rhs in prods:
        if lhs not in seen:
            continue
        for i, s in enumerate(rhs):
            lasts = last[s] if s in last else {s}
            for j in range(i + 1, len(rhs)):
                t = rhs[j]
                firsts = first[t] if t in first else {t}
                for a in lasts:
                    for b in firsts:
                        adj.add((a, b))
                if t not in first or t not in nullable:
                    break
    return {'nullable': nullable, 'first': first, 'last': last, 'adj': adj,
            'reachable': seen, 'by_lhs': by_lhs}
