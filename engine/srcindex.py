# -*- coding: utf-8 -*-
"""
E1 - source index and constant folder.

Loads the non-test modules of <root>/src/calmjs/parse as syntax trees and
folds *constant expressions* (strings, tuples, frozensets, dict literals,
``+``/``%``/``*``/``|`` on them, simple comprehensions over folded
iterables, names imported from sibling modules).  Names that denote
classes/functions fold to ``Sym`` and calls of them to ``CallTerm`` so
that table literals (definitions, handler tables) become terms.

No repository code is imported or executed.
"""
from __future__ import annotations

import ast
import os

from .common import AnalysisError

PKG = 'calmjs.parse'


class Unfoldable(Exception):
    pass


class Sym(object):
    """A name that denotes a class / function / non-constant object."""
    __slots__ = ('module', 'name')

    def __init__(self, module, name):
        self.module = module
        self.name = name

    def __eq__(self, other):
        return (isinstance(other, Sym) and other.name == self.name and
                other.module == self.module)

    def __hash__(self):
        return hash((self.module, self.name))

    def __repr__(self):
        return self.name

    def __lt__(self, other):
        return repr(self) < repr(other)


class CallTerm(object):
    """Call of a Sym with folded arguments."""
    __slots__ = ('func', 'args', 'kwargs', 'node')

    def __init__(self, func, args, kwargs, node=None):
        self.func = func
        self.args = tuple(args)
        self.kwargs = dict(kwargs)
        self.node = node

    def __repr__(self):
        parts = [repr(a) for a in self.args]
        parts += ['%s=%r' % kv for kv in sorted(self.kwargs.items())]
        return '%s(%s)' % (self.func, ', '.join(parts))

    def __eq__(self, other):
        return isinstance(other, CallTerm) and repr(self) == repr(other)

    def __hash__(self):
        return hash(repr(self))


class RegexConst(object):
    __slots__ = ('pattern', 'flags')

    def __init__(self, pattern, flags=0):
        self.pattern = pattern
        self.flags = flags

    def __repr__(self):
        return 're.compile(%r, %r)' % (self.pattern, self.flags)


class Module(object):

    def __init__(self, index, name, path):
        self.index = index
        self.name = name
        self.path = path
        with open(path, encoding='utf8') as fd:
            self.source = fd.read()
        self.tree = ast.parse(self.source, path)
        self.assigns = {}      # module level name -> value node (last wins)
        self.multi_assigned = set()
        self.imports = {}      # local name -> (module, name)
        self.module_imports = {}   # local name -> module dotted
        self.functions = {}
        self.classes = {}
        self._scan()
        self._cache = {}
        self._folding = set()

    def _scan(self):
        for st in self.tree.body:
            self._scan_stmt(st)

    def _scan_stmt(self, st):
        if isinstance(st, ast.Assign):
            for t in st.targets:
                for n in ([t] if isinstance(t, ast.Name) else
                          t.elts if isinstance(t, ast.Tuple) and
                          not isinstance(st.value, ast.Tuple) else []):
                    pass
                if isinstance(t, ast.Name):
                    if t.id in self.assigns:
                        self.multi_assigned.add(t.id)
                    self.assigns[t.id] = st.value
                elif isinstance(t, ast.Tuple) and isinstance(
                        st.value, ast.Tuple) and len(t.elts) == len(
                            st.value.elts):
                    for a, b in zip(t.elts, st.value.elts):
                        if isinstance(a, ast.Name):
                            self.assigns[a.id] = b
        elif isinstance(st, ast.ImportFrom):
            for a in st.names:
                self.imports[a.asname or a.name] = (st.module, a.name)
        elif isinstance(st, ast.Import):
            for a in st.names:
                self.module_imports[a.asname or a.name.split('.')[0]] = (
                    a.name if a.asname else a.name.split('.')[0])
        elif isinstance(st, ast.FunctionDef):
            self.functions[st.name] = st
        elif isinstance(st, ast.ClassDef):
            self.classes[st.name] = st
        elif isinstance(st, ast.Try):
            for s in st.body:
                self._scan_stmt(s)
            for s in st.orelse:
                self._scan_stmt(s)

    # ------------------------------------------------------------------

    def class_assigns(self, clsname):
        cls = self.classes[clsname]
        out = {}
        for st in cls.body:
            if isinstance(st, ast.Assign):
                for t in st.targets:
                    if isinstance(t, ast.Name):
                        out[t.id] = st.value
        return out

    def class_methods(self, clsname):
        cls = self.classes[clsname]
        return {st.name: st for st in cls.body
                if isinstance(st, ast.FunctionDef)}

    def fold_name(self, name, clsname=None):
        key = (clsname, name)
        if key in self._cache:
            return self._cache[key]
        if key in self._folding:
            raise Unfoldable('recursive definition of %s' % name)
        self._folding.add(key)
        try:
            val = self._fold_name(name, clsname)
        finally:
            self._folding.discard(key)
        self._cache[key] = val
        return val

    def _fold_name(self, name, clsname):
        if clsname is not None:
            ca = self.class_assigns(clsname)
            if name in ca:
                return Folder(self, clsname).fold(ca[name])
        if name in self.assigns:
            return Folder(self, None).fold(self.assigns[name])
        if name in self.functions or name in self.classes:
            return Sym(self.name, name)
        if name in self.imports:
            mod, orig = self.imports[name]
            if mod and mod.startswith(PKG):
                # `from package import submodule`
                if self.index.module(mod + '.' + orig) is not None:
                    return Sym(mod + '.' + orig, '<module>')
                m = self.index.module(mod)
                if m is not None:
                    return m.fold_name(orig)
            if '%s.%s' % (mod, orig) in STDLIB_CONSTANTS:
                return STDLIB_CONSTANTS['%s.%s' % (mod, orig)]
            return Sym(mod, orig)
        if name in self.module_imports:
            return Sym(None, self.module_imports[name])
        raise Unfoldable('unknown name %s in %s' % (name, self.name))


def _stdlib_constants():
    import string
    out = {}
    for n in ('ascii_lowercase', 'ascii_uppercase', 'ascii_letters',
              'digits', 'hexdigits', 'octdigits', 'punctuation',
              'whitespace'):
        out['string.' + n] = getattr(string, n)
    return out


STDLIB_CONSTANTS = _stdlib_constants()

BUILTIN_SYMS = {
    'NotImplemented', 'None', 'True', 'False', 'object', 'len', 'isinstance',
    'iter', 'next', 'getattr', 'callable', 'reversed', 'sorted',
    'enumerate', 'zip', 'type', 'str', 'list', 'int', 'range', 'dict',
    'set', 'frozenset', 'tuple', 'bool', 'min', 'max', 'sum', 'any', 'all',
}


class Folder(object):

    def __init__(self, module, clsname=None, env=None):
        self.module = module
        self.clsname = clsname
        self.env = dict(env or {})

    def fold(self, node):
        m = getattr(self, 'f_' + type(node).__name__, None)
        if m is None:
            raise Unfoldable('cannot fold %s at %s:%s' % (
                type(node).__name__, self.module.name,
                getattr(node, 'lineno', '?')))
        return m(node)

    def f_Constant(self, node):
        return node.value

    def f_Tuple(self, node):
        return tuple(self.fold(e) for e in node.elts)

    def f_List(self, node):
        return [self.fold(e) for e in node.elts]

    def f_Set(self, node):
        return set(self.fold(e) for e in node.elts)

    def f_Dict(self, node):
        out = {}
        for k, v in zip(node.keys, node.values):
            if k is None:
                out.update(self.fold(v))
            else:
                out[self.fold(k)] = self.fold(v)
        return out

    def f_Name(self, node):
        if node.id in self.env:
            return self.env[node.id]
        try:
            return self.module.fold_name(node.id, self.clsname)
        except Unfoldable:
            if node.id in BUILTIN_SYMS:
                if node.id == 'NotImplemented':
                    return NotImplemented
                return Sym('builtins', node.id)
            raise

    def f_Attribute(self, node):
        base = self.fold(node.value)
        if isinstance(base, Sym):
            # Class.attr within the package: fold the class attribute
            if base.module and base.module.startswith(PKG):
                m = self.module.index.module(base.module)
                if m is not None and base.name in m.classes:
                    ca = m.class_assigns(base.name)
                    if node.attr in ca:
                        return m.fold_name(node.attr, base.name)
            if base.module is None and '%s.%s' % (
                    base.name, node.attr) in STDLIB_CONSTANTS:
                return STDLIB_CONSTANTS['%s.%s' % (base.name, node.attr)]
            if base.module is None and base.name == 're':
                import re
                if node.attr in ('S', 'DOTALL', 'VERBOSE', 'X', 'I',
                                 'IGNORECASE', 'M', 'MULTILINE', 'U',
                                 'UNICODE'):
                    return int(getattr(re, node.attr))
            return Sym(base.module, '%s.%s' % (base.name, node.attr))
        raise Unfoldable('attribute %s of non-symbol' % node.attr)

    def f_BinOp(self, node):
        left = self.fold(node.left)
        right = self.fold(node.right)
        ok = (str, tuple, list, int, set, frozenset)
        if not isinstance(left, ok) or not isinstance(right, ok + (dict,)):
            raise Unfoldable('binop on non-constants')
        if isinstance(node.op, ast.Add):
            return left + right
        if isinstance(node.op, ast.Mod):
            return left % right
        if isinstance(node.op, ast.Mult):
            return left * right
        if isinstance(node.op, ast.BitOr):
            return left | right
        if isinstance(node.op, ast.LShift):
            return left << right
        if isinstance(node.op, ast.Sub):
            return left - right
        raise Unfoldable('binop %s' % type(node.op).__name__)

    def f_UnaryOp(self, node):
        v = self.fold(node.operand)
        if isinstance(node.op, ast.USub) and isinstance(v, int):
            return -v
        raise Unfoldable('unary op')

    def _comp(self, node, generators, emit):
        if len(generators) != 1:
            raise Unfoldable('nested comprehension')
        gen = generators[0]
        it = self.fold(gen.iter)
        if isinstance(it, CallTerm) and it.func.name == 'enumerate':
            it = list(enumerate(it.args[0]))
        if not isinstance(it, (str, tuple, list, set, frozenset, dict)):
            raise Unfoldable('comprehension over non-constant')
        out = []
        for item in it:
            env = dict(self.env)
            self._bind(gen.target, item, env)
            sub = Folder(self.module, self.clsname, env)
            if all(sub.fold(c) for c in gen.ifs):
                out.append(emit(sub))
        return out

    def _bind(self, target, value, env):
        if isinstance(target, ast.Name):
            env[target.id] = value
        elif isinstance(target, ast.Tuple):
            value = tuple(value)
            if len(value) != len(target.elts):
                raise Unfoldable('unpack mismatch')
            for t, v in zip(target.elts, value):
                self._bind(t, v, env)
        else:
            raise Unfoldable('comprehension target')

    def f_GeneratorExp(self, node):
        return tuple(self._comp(
            node, node.generators, lambda f: f.fold(node.elt)))

    def f_ListComp(self, node):
        return list(self._comp(
            node, node.generators, lambda f: f.fold(node.elt)))

    def f_SetComp(self, node):
        return set(self._comp(
            node, node.generators, lambda f: f.fold(node.elt)))

    def f_DictComp(self, node):
        return dict(self._comp(
            node, node.generators,
            lambda f: (f.fold(node.key), f.fold(node.value))))

    def f_Call(self, node):
        # methods on constants
        if isinstance(node.func, ast.Attribute):
            try:
                base = self.fold(node.func.value)
            except Unfoldable:
                base = None
            args = [self.fold(a) for a in node.args]
            if isinstance(base, str) and not node.keywords:
                if node.func.attr in ('lower', 'upper', 'strip', 'join',
                                      'replace', 'split', 'format'):
                    return getattr(base, node.func.attr)(*args)
            if isinstance(base, dict) and not args:
                if node.func.attr == 'keys':
                    return tuple(base.keys())
                if node.func.attr == 'values':
                    return tuple(base.values())
                if node.func.attr == 'items':
                    return tuple(base.items())
            if isinstance(base, Sym) and base.module is None and \
                    base.name == 're' and node.func.attr == 'compile':
                flags = 0
                for kw in node.keywords:
                    if kw.arg == 'flags':
                        flags = self.fold(kw.value)
                if len(args) > 1:
                    flags = args[1]
                return RegexConst(args[0], flags)
        func = self.fold(node.func)
        args = [self.fold(a) for a in node.args]
        kwargs = {kw.arg: self.fold(kw.value) for kw in node.keywords}
        if isinstance(func, Sym) and func.module == 'builtins':
            pass
        if isinstance(func, Sym) and not kwargs:
            n = func.name
            if n == 'frozenset' and len(args) <= 1:
                return frozenset(args[0]) if args else frozenset()
            if n == 'set' and len(args) <= 1:
                return set(args[0]) if args else set()
            if n == 'tuple' and len(args) == 1:
                return tuple(args[0])
            if n == 'list' and len(args) == 1:
                return list(args[0])
            if n == 'dict' and len(args) == 1:
                return dict(args[0])
            if n == 'len' and len(args) == 1:
                return len(args[0])
        if isinstance(func, Sym) and not args and not kwargs and \
                func.module == self.module.name and \
                func.name in self.module.functions:
            # a parameterless function of the module whose body is one
            # `return <expression>` (a table builder): fold the expression
            fd = self.module.functions[func.name]
            body = [st for st in fd.body if not (
                isinstance(st, ast.Expr) and isinstance(
                    st.value, ast.Constant))]
            if len(body) == 1 and isinstance(body[0], ast.Return) and \
                    body[0].value is not None and not fd.args.args:
                return Folder(self.module, None).fold(body[0].value)
        if isinstance(func, Sym):
            return CallTerm(func, args, kwargs, node)
        if isinstance(func, CallTerm) and func.func.name == 'namedtuple' \
                and func.args and isinstance(func.args[0], str):
            # instance of a namedtuple class: a record term
            return CallTerm(Sym(self.module.name, func.args[0]), args,
                            kwargs, node)
        if isinstance(func, CallTerm) and func.func.name == 'partial' and \
                func.args and isinstance(func.args[0], Sym):
            kw = dict(func.kwargs)
            kw.update(kwargs)
            return CallTerm(func.args[0], list(func.args[1:]) + args, kw,
                            node)
        raise Unfoldable('call of non-symbol')

    def f_Subscript(self, node):
        base = self.fold(node.value)
        if isinstance(node.slice, ast.Slice):
            lo = self.fold(node.slice.lower) if node.slice.lower else None
            hi = self.fold(node.slice.upper) if node.slice.upper else None
            return base[lo:hi]
        idx = self.fold(node.slice)
        try:
            return base[idx]
        except Exception:
            raise Unfoldable('subscript')

    def f_Compare(self, node):
        if len(node.ops) != 1:
            raise Unfoldable('chained compare')
        left = self.fold(node.left)
        right = self.fold(node.comparators[0])
        op = node.ops[0]
        if isinstance(op, ast.Eq):
            return left == right
        if isinstance(op, ast.NotEq):
            return left != right
        if isinstance(op, ast.In):
            return left in right
        if isinstance(op, ast.NotIn):
            return left not in right
        raise Unfoldable('compare')

    def f_IfExp(self, node):
        return self.fold(node.body) if self.fold(node.test) else \
            self.fold(node.orelse)

    def f_Lambda(self, node):
        raise Unfoldable('lambda')


class SourceIndex(object):

    def __init__(self, root='/repo', report=None):
        self.root = root
        self.pkgdir = os.path.join(root, 'src', 'calmjs', 'parse')
        if not os.path.isdir(self.pkgdir):
            raise AnalysisError('package directory %s missing' % self.pkgdir)
        self.report = report
        self._modules = {}

    def path_of(self, dotted):
        assert dotted.startswith(PKG)
        rel = dotted[len(PKG):].lstrip('.').replace('.', os.sep)
        p = os.path.join(self.pkgdir, rel + '.py') if rel else \
            os.path.join(self.pkgdir, '__init__.py')
        if not os.path.exists(p):
            q = os.path.join(self.pkgdir, rel, '__init__.py')
            if os.path.exists(q):
                return q
        return p

    def module(self, dotted, required=False):
        if dotted in self._modules:
            return self._modules[dotted]
        path = self.path_of(dotted)
        if not os.path.exists(path):
            if required:
                raise AnalysisError('module %s (%s) vanished' % (
                    dotted, path))
            self._modules[dotted] = None
            return None
        try:
            mod = Module(self, dotted, path)
        except SyntaxError as e:
            raise AnalysisError('cannot parse %s: %s' % (path, e))
        self._modules[dotted] = mod
        if self.report is not None:
            self.report.consulted(path)
        return mod

    def need(self, dotted):
        return self.module(dotted, required=True)

    def all_modules(self, include_tests=False):
        out = []
        for dirpath, dirnames, filenames in os.walk(self.pkgdir):
            dirnames.sort()
            if not include_tests and os.path.basename(dirpath) in (
                    'tests', 'testing'):
                dirnames[:] = []
                continue
            for fn in sorted(filenames):
                if not fn.endswith('.py'):
                    continue
                if fn.startswith(('lextab_', 'yacctab_')):
                    continue
                rel = os.path.relpath(os.path.join(dirpath, fn), self.pkgdir)
                dotted = PKG + '.' + rel[:-3].replace(os.sep, '.')
                if dotted.endswith('.__init__'):
                    dotted = dotted[:-len('.__init__')]
                out.append(self.need(dotted))
        return out


def need_function(mod, name, cls=None):
    if cls is None:
        f = mod.functions.get(name)
    else:
        if cls not in mod.classes:
            raise AnalysisError('class %s.%s vanished' % (mod.name, cls))
        f = mod.class_methods(cls).get(name)
    if f is None:
        raise AnalysisError('function %s.%s%s vanished' % (
            mod.name, cls + '.' if cls else '', name))
    return f


def need_const(mod, name, cls=None, types=None):
    try:
        v = mod.fold_name(name, cls)
    except Unfoldable as e:
        raise AnalysisError('constant %s.%s%s cannot be folded: %s' % (
            mod.name, cls + '.' if cls else '', name, e))
    if types is not None and not isinstance(v, types):
        raise AnalysisError('constant %s.%s has unexpected type %s' % (
            mod.name, name, type(v).__name__))
    return v


def norm(node):
    """Normalised text of a syntax node (no positions)."""
    return ast.unparse(node)
