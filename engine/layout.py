# -*- coding: utf-8 -*-
"""
E6/E7 - handler tables and the layout-run simulator.

* rule tables: the dictionaries returned by the rule factories of
  calmjs/parse/rules.py (`indent`, `minify(drop_semi)`, `default`,
  `obfuscate`) are obtained by abstract evaluation of the factory source
  (the dict literals, the `update()` under `if drop_semi`, the per-call
  `Indentator` instance);
* handler decision: a layout handler is evaluated abstractly on
  (node class, before, after, prev) stand-ins and yields the emitted texts;
* `process_run` is a transcription of walker.process_layouts (left-to-right
  tuple normalisation, then handler calls with before = text of the last
  token fragment, prev = text last emitted by a layout handler of the run).
  The transcription is guarded by a structural digest of walker.walk.
"""
from __future__ import annotations

import ast

from .common import AnalysisError
from .absint import Evaluator, Obj, Raised
from .defs import structural_digest, check_digests
from .srcindex import CallTerm, Sym, need_function

RULES_MOD = 'calmjs.parse.rules'
CORE_MOD = 'calmjs.parse.handlers.core'
INDENT_MOD = 'calmjs.parse.handlers.indentation'
OBF_MOD = 'calmjs.parse.handlers.obfuscation'
WALKER_MOD = 'calmjs.parse.unparsers.walker'
RULETYPES_MOD = 'calmjs.parse.ruletypes'

# structural digests of the transcribed functions (walker.walk with its
# nested functions, Dispatcher.optimize_definition and the rule classes of
# ruletypes.py).  See DESIGN.md section 8.
EXPECTED = {
    'walker.walk': None,
    'walker.Dispatcher.optimize_definition': None,
}


def register_fragment_fields(index):
    """the field names of ruletypes.StreamFragment, read from its
    namedtuple definition, so that evaluated code may use `fragment.lineno`
    on the tagged tuples `frag` builds"""
    import ast
    from .absint import TUPLE_FIELDS
    rt = index.need('calmjs.parse.ruletypes')
    for st in rt.tree.body:
        if isinstance(st, ast.Assign) and any(
                isinstance(t, ast.Name) and t.id == 'StreamFragment'
                for t in st.targets) and isinstance(st.value, ast.Call) \
                and len(st.value.args) == 2 and isinstance(
                    st.value.args[1], (ast.List, ast.Tuple)):
            TUPLE_FIELDS['frag'] = tuple(
                e.value for e in st.value.args[1].elts
                if isinstance(e, ast.Constant))
            return TUPLE_FIELDS['frag']
    return None


def frag(*a):
    return ('frag',) + tuple(a)


class Handler(object):
    """a layout/deferrable/token handler of a rule table"""

    def __init__(self, kind, name, fdef=None, module=None, obj=None,
                 clsname=None):
        self.kind = kind        # 'func' | 'method' | 'notimplemented'
        self.name = name
        self.fdef = fdef
        self.module = module
        self.obj = obj
        self.clsname = clsname

    def __repr__(self):
        return self.name


class Tables(object):

    def __init__(self, index):
        self.index = index
        self.rules = index.need(RULES_MOD)
        self.core = index.need(CORE_MOD)
        self.indent_mod = index.need(INDENT_MOD)
        self.obf = index.need(OBF_MOD)
        self.walker = index.need(WALKER_MOD)
        self.rt = index.need(RULETYPES_MOD)
        self._cache = {}

    def walker_semantics(self):
        if getattr(self, '_wsem', None) is None:
            from .walkersem import WalkerSemantics
            self._wsem = WalkerSemantics(self.index)
        return self._wsem

    # -- digests ---------------------------------------------------------

    def digests(self):
        out = {}
        out['walker.walk'] = structural_digest(
            need_function(self.walker, 'walk'))
        out['walker.Dispatcher.optimize_definition'] = structural_digest(
            need_function(self.walker, 'optimize_definition', 'Dispatcher'))
        out['walker.Dispatcher.layout'] = structural_digest(
            need_function(self.walker, 'layout', 'Dispatcher'))
        return out

    # -- tables ----------------------------------------------------------

    def _class_methods(self):
        cm = {}
        for m in (self.indent_mod, self.obf):
            for c in m.classes:
                cm[c] = m.class_methods(c)
        return cm

    def _resolve(self, v):
        if v is NotImplemented:
            return Handler('notimplemented', 'NotImplemented')
        if isinstance(v, Sym):
            mod = self.index.module(v.module) if v.module else None
            if mod is None or v.name not in mod.functions:
                raise AnalysisError('handler %s cannot be resolved' % v)
            return Handler('func', v.name, mod.functions[v.name], mod)
        if isinstance(v, tuple) and v and v[0] == 'method':
            fdef, obj = v[1], v[2]
            cls = obj.__dict__['_cls']
            mod = self.indent_mod if cls in self.indent_mod.classes \
                else self.obf
            return Handler('method', '%s.%s' % (cls, fdef.name), fdef, mod,
                           obj, cls)
        if isinstance(v, tuple) and v and v[0] == 'closure':
            raise AnalysisError('closure used as a handler')
        raise AnalysisError('unsupported handler value %r' % (v,))

    def table(self, factory, **kwargs):
        """evaluate rules.<factory>(**kwargs)() -> {section: {key: Handler}}"""
        key = (factory, tuple(sorted(kwargs.items())))
        if key in self._cache:
            return self._cache[key]
        fn = need_function(self.rules, factory)
        cm = self._class_methods()

        def mk_indentator(indent_str=None):
            # the stand-in is initialised by the class's own __init__
            obj = Obj('Indentator')
            init = cm.get('Indentator', {}).get('__init__')
            if init is None:
                raise AnalysisError('Indentator.__init__ vanished')
            ev0 = Evaluator(self.indent_mod, 'Indentator',
                            cm['Indentator'], {}, class_methods=cm)
            ev0.call(init, [indent_str], self_obj=obj)
            if not obj.has('_level'):
                raise AnalysisError('Indentator has no _level counter')
            return obj

        def mk_obfuscator(**kw):
            return Obj('Obfuscator', **kw)
        ev = Evaluator(self.rules, None, {}, {
            'Indentator': mk_indentator, 'Obfuscator': mk_obfuscator},
            class_methods=cm)
        try:
            ret, _ = ev.call(fn, [], kwargs)
        except Raised as e:
            raise AnalysisError('rules.%s raised %s' % (factory, e.text))
        if isinstance(ret, Sym):
            # e.g. default() returns handlers.core.default_rules
            mod = self.index.module(ret.module)
            fdef = mod.functions.get(ret.name)
            if fdef is None:
                raise AnalysisError('rules.%s returns unknown %s' % (
                    factory, ret))
            ev2 = Evaluator(mod, None, {}, {}, class_methods=cm)
            res, _ = ev2.call(fdef, [])
        elif isinstance(ret, tuple) and ret and ret[0] == 'closure':
            ev.steps = 0
            env = dict(ret[2])
            try:
                ev.block(ret[1].body, env)
                res = None
            except Exception as e:
                from .absint import Return
                if isinstance(e, Return):
                    res = e.value
                else:
                    raise
        else:
            raise AnalysisError('rules.%s does not return a rule callable'
                                % factory)
        if not isinstance(res, dict):
            raise AnalysisError('rule %s does not return a dict' % factory)
        out = {}
        for section, val in res.items():
            if section in ('layout_handlers', 'deferrable_handlers'):
                out[section] = {k: self._resolve(v) for k, v in val.items()}
            elif section == 'token_handler':
                out[section] = self._resolve(val)
            elif section == 'prewalk_hooks':
                out[section] = [self._resolve(v) for v in val]
            else:
                raise AnalysisError('rule %s returns unknown section %r' % (
                    factory, section))
        self._cache[key] = out
        return out

    # -- handler evaluation ----------------------------------------------

    def emit(self, handler, nodecls, before, after, prev, am=None,
             newline_str='\n', indent_str='  '):
        """texts emitted by a layout handler (list of str)"""
        if handler.kind == 'notimplemented':
            raise AnalysisError('NotImplemented handler invoked')
        disp = Obj('Dispatcher', newline_str=newline_str,
                   indent_str=indent_str)
        node = Obj(nodecls, getpos=('pyfunc', lambda s, i: (0, 1, 1)))
        sub = (lambda c, b: am.is_subclass(c, b)) if am else None
        ev = Evaluator(handler.module, handler.clsname,
                       handler.module.class_methods(handler.clsname)
                       if handler.clsname else {},
                       {'StreamFragment': frag}, is_subclass=sub)
        try:
            ret, ys = ev.call(handler.fdef,
                              [disp, node, before, after, prev],
                              self_obj=handler.obj)
        except Raised as e:
            raise AnalysisError('handler %s raised %s' % (handler, e.text))
        out = []
        for y in ys or []:
            if isinstance(y, tuple) and y and y[0] == 'frag':
                out.append(y[1])
            elif isinstance(y, CallTerm) and \
                    y.func.name == 'StreamFragment' and y.args:
                out.append(y.args[0])
            else:
                raise AnalysisError('handler %s yields %r' % (handler, y))
        return out


def mark_key(name, tables):
    """Sym key of a Format mark by name"""
    return Sym(RULETYPES_MOD, name)


def normalise(run, layout_handlers):
    """Transcription of the first pass of walker.process_layouts.
    run: list of (rule key, nodecls).  Returns list of (key, handler,
    nodecls) where key may be a (nested) tuple."""
    stack = []
    for rule, nodecls in run:
        stack.append((rule, layout_handlers.get(rule), nodecls))
        found = None
        for idx in range(len(stack)):
            key = tuple(r for r, _, _ in stack[idx:])
            h = layout_handlers.get(key)
            if h is not None and h.kind != 'notimplemented':
                found = (idx, key, h)
                break
        if found is None:
            continue
        idx, key, h = found
        # NB: the walker takes the node of layout_rule_chunks[idx] (index
        # into the *original* list); only the node class matters here
        node = run[idx][1] if idx < len(run) else nodecls
        stack[:] = stack[:idx]
        stack.append((key, h, node))
    return stack


def process_run(tables, layout_handlers, run, before, after, am=None,
                newline_str='\n', indent_str='  '):
    """texts emitted for a layout run between token texts before/after:
    the nested function process_layouts of walker.walk is evaluated from
    the current source (engine/walkersem.py)"""
    W = tables.walker_semantics()

    def emit(h, nodecls, b, a, p):
        return tables.emit(h, nodecls, b, a, p, am, newline_str, indent_str)
    return W.process_layouts(layout_handlers, run, before, after, emit)


def process_run_model(tables, layout_handlers, run, before, after, am=None,
                      newline_str='\n', indent_str='  '):
    """the transcription of process_layouts (kept as the reference model
    of the differential rule)"""
    out = []
    prev = None
    for key, h, nodecls in normalise(run, layout_handlers):
        if h is None:
            continue
        for t in tables.emit(h, nodecls, before, after, prev, am,
                             newline_str, indent_str):
            out.append(t)
            prev = t
    return out
