# -*- coding: utf-8 -*-
"""
E11 - semantics of the rule classes of calmjs/parse/ruletypes.py, obtained
by abstract evaluation of their source (constructor and __call__) on a
finite domain of stand-in nodes.

The printer model (engine/skeleton.py, engine/stream.py, checks/c20.py)
*transcribes* what each Token class does with its attribute: `Attr` walks
the value once unless it is empty, `JoinAttr` interleaves the items with
its separator definition, `Optional` walks its sub definition iff the
attribute is not empty, and so on.  This module replaces trust in that
transcription by a decision table: every class is *executed* by the
evaluator of engine/absint.py with a recording `walk`, and the recorded
trace must be the one the transcription predicts.  Nothing of the
repository is imported.

A trace is a list of
    ('walk', target, definition, token)     a call of walk(...)
    ('declare', node)                       a call of a Declare handler
where target / definition are the stand-in values themselves.
"""
from __future__ import annotations

import ast

from .common import AnalysisError
from .absint import Evaluator, Obj, Raised

RULETYPES_MOD = 'calmjs.parse.ruletypes'


class TokenSemantics(object):

    def __init__(self, index):
        self.module = m = index.need(RULETYPES_MOD)
        self.own = {}
        self.bases = {}
        for name, node in m.classes.items():
            self.own[name] = {st.name: st for st in node.body
                              if isinstance(st, ast.FunctionDef)}
            self.bases[name] = [b.id for b in node.bases
                                if isinstance(b, ast.Name)]
        self.methods = {c: self._methods(c) for c in self.own}
        self.deferrable_handlers = {}

    def mro(self, name):
        out = []
        todo = [name]
        while todo:
            n = todo.pop(0)
            if n in out or n not in self.bases:
                continue
            out.append(n)
            todo = self.bases[n] + todo
        return out

    def _methods(self, cls):
        out = {}
        for c in reversed(self.mro(cls)):
            out.update(self.own[c])
        return out

    def is_a(self, cls, base):
        if base in self.mro(cls):
            return True
        # node stand-ins: 'Identifier', 'Elision', 'Node'
        if cls in NODE_CLASSES:
            return base in NODE_CLASSES[cls]
        return False

    # ------------------------------------------------------------------

    def evaluator(self, trace, handlers):
        """handlers: Deferrable class name -> python callable(dispatcher,
        node) or absent (dispatcher.deferrable gives NotImplemented)"""
        def walk(dispatcher, target, definition=None, token=None):
            rec = ('walk', target, definition, token)
            trace.append(rec)
            return [rec]

        def deferrable(rule):
            h = handlers.get(rule.__dict__['_cls'])
            if h is None:
                return NotImplemented
            return ('pyfunc', h)

        def py_getattr(obj, name, *default):
            if isinstance(obj, Obj):
                if obj.has(name):
                    return getattr(obj, name)
                if default:
                    return default[0]
                raise AttributeError(name)
            return getattr(obj, name, *default)

        def py_iter(x):
            if isinstance(x, Obj):
                if not x.has('_children'):
                    raise AnalysisError('iter() of a node without children')
                return iter(list(getattr(x, '_children')))
            return iter(x)

        def py_partial(f, *a):
            if not (isinstance(f, tuple) and f[0] == 'pyfunc'):
                raise AnalysisError('partial() of %r' % (f,))
            return ('pyfunc', lambda *b: f[1](*(a + b)))

        ev = Evaluator(
            self.module,
            functions={'getattr': py_getattr, 'iter': py_iter,
                       'next': next, 'partial': py_partial},
            is_subclass=self.is_a,
            class_methods=self.methods, class_own=self.own,
            class_bases=self.bases, max_steps=200000)
        ev.inline_module_functions = True
        ev.iter_hook = lambda x: list(py_iter(x))
        ev.walk = ('pyfunc', walk)
        ev.dispatcher = Obj('Dispatcher', deferrable=('pyfunc', deferrable))
        return ev

    def construct(self, ev, cls, *args, **kwargs):
        """evaluate cls(*args, **kwargs) through the class's __init__"""
        if cls not in self.methods:
            raise AnalysisError('ruletypes.%s vanished' % cls)
        obj = Obj(cls)
        # class level attributes (ElisionJoinAttr.sep)
        for c in reversed(self.mro(cls)):
            env = {}
            for st in self.module.classes[c].body:
                if isinstance(st, ast.Assign) and not (
                        len(st.targets) == 1 and isinstance(
                            st.targets[0], ast.Name) and
                        st.targets[0].id.startswith('__')):
                    ev2 = ev
                    saved = dict(ev2.functions)
                    ev2.functions.update({
                        n: (lambda *a, _n=n, **k: make_node(_n, *a, **k))
                        for n in NODE_CLASSES})
                    try:
                        ev2.stmt(st, env)
                    finally:
                        ev2.functions.clear()
                        ev2.functions.update(saved)
            for k, v in env.items():
                setattr(obj, k, v)
        init = self.methods[cls].get('__init__')
        if init is not None:
            ev.call(init, list(args), kwargs, self_obj=obj)
        elif args or kwargs:
            raise AnalysisError('ruletypes.%s takes no arguments' % cls)
        return obj

    def run(self, cls, ctor_args, ctor_kwargs, node, handlers=None,
            attr_deferrable=None):
        """trace of cls(*ctor)(walk, dispatcher, node).  attr_deferrable:
        (Deferrable class, args) to construct as the attr argument"""
        trace = []
        handlers = dict(handlers or {})
        wrapped = {}
        for k, h in handlers.items():
            def mk(h=h, k=k):
                def call(*a):
                    # a = (dispatcher, node) or (node,) through partial
                    n = a[-1]
                    trace.append(('handler', k, n))
                    return h(n)
                return call
            wrapped[k] = mk()
        ev = self.evaluator(trace, wrapped)
        kwargs = dict(ctor_kwargs)
        args = list(ctor_args)
        if attr_deferrable is not None:
            d = self.construct(ev, attr_deferrable[0], *attr_deferrable[1])
            kwargs['attr'] = d
        tok = self.construct(ev, cls, *args, **kwargs)
        call = self.methods[cls].get('__call__')
        if call is None:
            raise AnalysisError('ruletypes.%s has no __call__' % cls)
        try:
            ret, ys = ev.call(call, [ev.walk, ev.dispatcher, node],
                              self_obj=tok)
        except Raised as r:
            return tok, ('raised', r.text), trace
        except AnalysisError:
            raise
        except Exception as exc:      # raised by a stand-in builtin
            return tok, ('raised', '%s: %s' % (type(exc).__name__, exc)), \
                trace
        return tok, ys, trace

    def build(self, cls, args=(), kwargs=None):
        """the token object cls(*args, **kwargs), not called"""
        ev = self.evaluator([], {})
        return self.construct(ev, cls, *args, **(kwargs or {}))


NODE_CLASSES = {
    'Node': ('Node',),
    'Identifier': ('Identifier', 'Node'),
    'Elision': ('Elision', 'Node'),
    'X': ('X', 'Node'),
}


def make_node(cls, *args, **fields):
    if cls == 'Elision' and args:
        fields['value'] = args[0]
    return Obj(cls, **fields)
