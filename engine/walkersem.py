# -*- coding: utf-8 -*-
"""
E12 - semantics of calmjs/parse/unparsers/walker.py obtained by abstract
evaluation of its source: `Dispatcher` (constructor, optimize_definition,
layout, token, ...) and `walk` with its nested functions `_walk`,
`process_layouts` and `walk`.

Two uses:

* `process_layouts(...)`: the layout engine of the analysis.  Wherever the
  checks need "what is printed for this run of layout marks between these
  two token texts", the nested function `process_layouts` of the current
  source is evaluated (tuple normalisation, handler invocation order, the
  before / after / prev arguments) with the layout handlers evaluated by
  engine/layout.py.  A change of that function therefore changes the
  verdicts of the fusion / semicolon rules instead of invalidating them.

* `run_walk(...)`: the whole `walk` generator on a small abstract tree,
  used by the differential rule of checks/walkerdiff.py which compares it
  with the flattening the printer model (skeleton / print grammar)
  assumes.

Generators are evaluated eagerly (a call returns the list of yielded
values).  That is faithful here because no consumer of these generators
mutates state the producer reads; the one observable difference - the
relative order of Structure handler calls and Format handler calls - is
kept apart by logging them separately.
"""
from __future__ import annotations

import ast

from .common import AnalysisError
from .absint import Evaluator, Obj, Raised
from .srcindex import Sym, need_function
from .tokensem import TokenSemantics, NODE_CLASSES, make_node

WALKER_MOD = 'calmjs.parse.unparsers.walker'
RULETYPES_MOD = 'calmjs.parse.ruletypes'


class WalkerSemantics(object):

    def __init__(self, index):
        self.index = index
        self.walker = index.need(WALKER_MOD)
        self.rt = index.need(RULETYPES_MOD)
        self.TS = TokenSemantics(index)
        if 'Dispatcher' not in self.walker.classes:
            raise AnalysisError('walker.Dispatcher vanished')
        self.walk_fdef = need_function(self.walker, 'walk')
        dnode = self.walker.classes['Dispatcher']
        self.dmethods = {st.name: st for st in dnode.body
                         if isinstance(st, ast.FunctionDef)}
        self.nested = {st.name: st for st in self.walk_fdef.body
                       if isinstance(st, ast.FunctionDef)}
        if 'process_layouts' not in self.nested:
            raise AnalysisError('walker.walk.process_layouts vanished')
        self._disp_cache = {}

    # ------------------------------------------------------------------

    def is_a(self, cls, base):
        if cls == 'Dispatcher':
            return base in ('Dispatcher', 'object')
        if cls == 'LayoutChunk':
            return base == 'LayoutChunk'
        if self.TS.is_a(cls, base):
            return True
        # scenario node classes
        if base in getattr(self, 'extra_isa', {}).get(cls, ()):
            return True
        return cls.startswith('Node') and base == 'Node'

    def evaluator(self):
        TS = self.TS

        def py_getattr(obj, name, *default):
            if isinstance(obj, Obj):
                if obj.has(name):
                    return getattr(obj, name)
                if default:
                    return default[0]
                raise AttributeError(name)
            return getattr(obj, name, *default)

        def py_iter(x):
            if isinstance(x, Obj):
                if not x.has('_children'):
                    raise AnalysisError('iter() of a node without children')
                return iter(list(getattr(x, '_children')))
            return iter(x)

        def py_partial(f, *a):
            if not (isinstance(f, tuple) and f[0] == 'pyfunc'):
                raise AnalysisError('partial() of %r' % (f,))
            return ('pyfunc', lambda *b: f[1](*(a + b)))

        def py_issubclass(a, b):
            if isinstance(a, Sym) and isinstance(b, Sym):
                return TS.is_a(a.name, b.name)
            raise AnalysisError('issubclass(%r, %r)' % (a, b))

        def layout_chunk(rule, handler, node):
            return Obj('LayoutChunk', rule=rule, handler=handler, node=node)

        methods = dict(TS.methods)
        methods['Dispatcher'] = self.dmethods
        own = dict(TS.own)
        own['Dispatcher'] = self.dmethods
        bases = dict(TS.bases)
        bases['Dispatcher'] = []
        ev = Evaluator(
            self.walker,
            functions={'getattr': py_getattr, 'iter': py_iter, 'next': next,
                       'partial': py_partial, 'issubclass': py_issubclass,
                       'LayoutChunk': layout_chunk},
            is_subclass=self.is_a, class_methods=methods, class_own=own,
            class_bases=bases, max_steps=2000000)
        ev.inline_module_functions = True
        ev.sym_is_class = lambda s: s.name in TS.bases
        # `for child in node` / iter(node): the children of a stand-in node
        ev.iter_hook = lambda x: list(py_iter(x))

        def py_type(o):
            if not isinstance(o, Obj):
                raise AnalysisError('type(%r)' % (o,))
            cls = o.__dict__['_cls']
            return ('pyfunc', lambda *a, **k: TS.construct(ev, cls, *a, **k))
        ev.functions['type'] = py_type
        for cls, ms in TS.own.items():
            for fd in ms.values():
                ev.context_of[id(fd)] = (self.rt, cls)
        for fd in self.dmethods.values():
            ev.context_of[id(fd)] = (self.walker, 'Dispatcher')
        return ev

    def dispatcher(self, ev, definitions, token_handler, layout_handlers,
                   deferrable_handlers=None):
        d = Obj('Dispatcher')
        init = self.dmethods.get('__init__')
        if init is None:
            raise AnalysisError('walker.Dispatcher.__init__ vanished')
        ev.call(init, [definitions, token_handler, layout_handlers,
                       deferrable_handlers or {}], self_obj=d)
        return d

    # -- the layout engine -------------------------------------------------

    def process_layouts(self, handlers, run, before, after, emit):
        """Evaluate walker.walk.process_layouts for the run
        [(key, nodecls)...] between the token texts before / after.
        handlers: key -> handler object (engine.layout.Handler);
        emit(handler, nodecls, before, after, prev) -> list of texts.
        Returns the list of emitted texts."""
        cache = self._disp_cache.get(id(handlers))
        if cache is None:
            ev = self.evaluator()
            table = {}
            for key, h in handlers.items():
                if h is None:
                    continue
                if getattr(h, 'kind', None) == 'notimplemented':
                    table[key] = NotImplemented
                    continue
                table[key] = ('pyfunc', self._wrap(h))
            disp = self.dispatcher(ev, {}, None, table)
            # the environment of the nested functions of walk: its
            # parameters and every function defined in its body
            env = {'dispatcher': disp, 'node': None, 'definition': None}
            for name, fd in self.nested.items():
                env[name] = ('closure', fd, env, self.walker, None)
            cache = (ev, disp, env, table, handlers)
            self._disp_cache[id(handlers)] = cache
        ev, disp, env, table, _ = cache
        ev.steps = 0
        ev.max_steps = max(2000000, 40 * len(run) ** 3)
        self._emit = emit
        chunks = []
        for key, nodecls in run:
            h = table.get(key)
            if h is None:
                # Dispatcher.optimize_definition drops marks without a
                # handler (checked by the differential rule)
                continue
            chunks.append(Obj('LayoutChunk', rule=key, handler=h,
                              node=nodecls))
        last = Obj('Chunk', text=before) if before is not None else None
        nxt = Obj('Chunk', text=after) if after is not None else None
        clo = ('closure', self.nested['process_layouts'], env, self.walker,
               None)
        try:
            out = ev.call_closure(clo, [chunks, last, nxt], None)
        except Raised as r:
            raise AnalysisError('process_layouts raised %s' % r.text)
        return [c.text for c in out]

    def _wrap(self, h):
        def call(dispatcher, node, before, after, prev):
            return [Obj('Chunk', text=t)
                    for t in self._emit(h, node, before, after, prev)]
        return call

    # -- the whole walk on an abstract tree --------------------------------

    def run_walk(self, definitions, layout_handlers, root, token_log=None,
                 stack_log=None):
        """definitions: class name -> tuple of rules (Token Objs built by
        `token()` and mark Syms); layout_handlers: key -> python callable
        (dispatcher, node, before, after, prev) -> list of texts, or for
        Structure marks (dispatcher, node) -> None.
        Returns list of emitted chunk texts."""
        ev = self.evaluator()
        table = {}
        for key, f in layout_handlers.items():
            if isinstance(key, Sym) and self.TS.is_a(key.name, 'Structure'):
                table[key] = ('pyfunc', f)
            else:
                table[key] = ('pyfunc', (
                    lambda f: lambda d, n, b, a, p: [
                        Obj('Chunk', text=t) for t in f(d, n, b, a, p)])(f))

        def token_handler(token, dispatcher, node, value, stack):
            if token_log is not None:
                token_log.append((token, node, value))
            if stack_log is not None:
                stack_log.append((value, list(stack)))
            return [Obj('Chunk', text=value)]
        self.ev = ev
        disp = self.dispatcher(ev, definitions, ('pyfunc', token_handler),
                               table)
        try:
            ret, ys = ev.call(self.walk_fdef, [disp, root])
        except Raised as r:
            return ('raised', r.text)
        return [c.text if isinstance(c, Obj) and c.has('text') else c
                for c in ys]

    def token(self, cls, *args, **kwargs):
        ev = self.evaluator()
        return self.TS.construct(ev, cls, *args, **kwargs)

    def deferrable(self, cls, *args):
        ev = self.evaluator()
        return self.TS.construct(ev, cls, *args)


def mark(name):
    return Sym(RULETYPES_MOD, name)
