# -*- coding: utf-8 -*-
"""
E10 - context-free grammars as data: Earley recogniser and shortest
sentence generation with production / (production, position, child
production) coverage.  Used only to compare two grammars that are both
*data* (the grammar extracted from the p_* docstrings and the embedded
ES5.1 reference); no parser of the repository is involved.
"""
from __future__ import annotations

from .common import AnalysisError


class CFG(object):

    def __init__(self, productions, start):
        """productions: list of (lhs, rhs tuple)"""
        self.prods = [(l, tuple(r)) for l, r in productions]
        self.start = start
        self.by_lhs = {}
        for i, (l, r) in enumerate(self.prods):
            self.by_lhs.setdefault(l, []).append(i)
        self.nts = set(self.by_lhs)
        if start not in self.nts:
            raise AnalysisError('start symbol %s undefined' % start)
        for l, r in self.prods:
            for s in r:
                pass
        self.nullable = set()
        changed = True
        while changed:
            changed = False
            for l, r in self.prods:
                if l not in self.nullable and all(
                        s in self.nullable for s in r):
                    self.nullable.add(l)
                    changed = True
        self._min = None

    def is_nt(self, s):
        return s in self.nts

    # -- shortest expansions ------------------------------------------------

    def min_sentences(self):
        """nt -> shortest terminal string (tuple); prod index -> shortest"""
        if self._min is not None:
            return self._min
        INF = float('inf')
        best = {n: None for n in self.nts}
        changed = True
        while changed:
            changed = False
            for l, r in self.prods:
                out = []
                ok = True
                for s in r:
                    if s in self.nts:
                        if best[s] is None:
                            ok = False
                            break
                        out.extend(best[s])
                    else:
                        out.append(s)
                if ok and (best[l] is None or len(out) < len(best[l])):
                    best[l] = tuple(out)
                    changed = True
        self._min = best
        return best

    def expand(self, rhs, forced=None):
        """shortest terminal string of a right-hand side; forced maps a
        position to a production index to use for that nonterminal"""
        best = self.min_sentences()
        out = []
        for i, s in enumerate(rhs):
            if s in self.nts:
                if forced and i in forced:
                    f = forced[i]
                    if isinstance(f, tuple):
                        sub = self.expand(self.prods[f[0]][1], f[1])
                    else:
                        sub = self.expand(self.prods[f][1])
                    if sub is None:
                        return None
                    out.extend(sub)
                else:
                    if best[s] is None:
                        return None
                    out.extend(best[s])
            else:
                out.append(s)
        return tuple(out)

    def contexts(self):
        """nt -> (prefix, suffix) of a shortest sentential form
        start =>* prefix nt suffix"""
        best = self.min_sentences()
        ctx = {self.start: ((), ())}
        changed = True
        while changed:
            changed = False
            for l, r in self.prods:
                if l not in ctx:
                    continue
                pre, suf = ctx[l]
                for i, s in enumerate(r):
                    if s not in self.nts:
                        continue
                    left = self.expand(r[:i])
                    right = self.expand(r[i + 1:])
                    if left is None or right is None:
                        continue
                    cand = (pre + left, right + suf)
                    if s not in ctx or len(cand[0]) + len(cand[1]) < \
                            len(ctx[s][0]) + len(ctx[s][1]):
                        ctx[s] = cand
                        changed = True
        return ctx

    def deep_sentences(self):
        """(production, position, child, position, grandchild) coverage"""
        ctx = self.contexts()
        seen = set()
        for pi, (l, r) in enumerate(self.prods):
            if l not in ctx:
                continue
            pre, suf = ctx[l]
            for i, s in enumerate(r):
                if s not in self.nts:
                    continue
                for qi in self.by_lhs[s]:
                    qr = self.prods[qi][1]
                    for j, s2 in enumerate(qr):
                        if s2 not in self.nts:
                            continue
                        for ri in self.by_lhs[s2]:
                            body = self.expand(r, {i: (qi, {j: ri})})
                            if body is None:
                                continue
                            sent = pre + body + suf
                            if sent not in seen and len(sent) <= 40:
                                seen.add(sent)
                                yield ('%s -> %s [%d: %s [%d: %s]]' % (
                                    l, ' '.join(r), i + 1,
                                    ' '.join(qr) or '<empty>', j + 1,
                                    ' '.join(self.prods[ri][1]) or
                                    '<empty>'), sent)

    def coverage_sentences(self, pairs=True):
        """sentences covering every production and (optionally) every
        (production, position, child production) pair.  yields
        (label, sentence)"""
        ctx = self.contexts()
        seen = set()
        for pi, (l, r) in enumerate(self.prods):
            if l not in ctx:
                continue
            pre, suf = ctx[l]
            body = self.expand(r)
            if body is None:
                continue
            sent = pre + body + suf
            if sent not in seen:
                seen.add(sent)
                yield ('%s -> %s' % (l, ' '.join(r) or '<empty>'), sent)
            if not pairs:
                continue
            for i, s in enumerate(r):
                if s not in self.nts:
                    continue
                for qi in self.by_lhs[s]:
                    body = self.expand(r, {i: qi})
                    if body is None:
                        continue
                    sent = pre + body + suf
                    if sent not in seen:
                        seen.add(sent)
                        ql, qr = self.prods[qi]
                        yield ('%s -> %s  [%d: %s -> %s]' % (
                            l, ' '.join(r), i + 1, ql,
                            ' '.join(qr) or '<empty>'), sent)


class Earley(object):

    def __init__(self, cfg):
        self.g = cfg
        # prediction closure per nonterminal: set of production indices
        self.pred = {}
        for n in cfg.nts:
            seen = set()
            todo = [n]
            prods = []
            while todo:
                x = todo.pop()
                if x in seen:
                    continue
                seen.add(x)
                for pi in cfg.by_lhs[x]:
                    prods.append(pi)
                    r = cfg.prods[pi][1]
                    for s in r:
                        if s in cfg.nts:
                            todo.append(s)
                        if s not in cfg.nullable:
                            break
            self.pred[n] = prods

    def accepts(self, tokens):
        g = self.g
        prods = g.prods
        n = len(tokens)
        # item: (prod index, dot, origin)
        chart = [set() for _ in range(n + 1)]
        order = [[] for _ in range(n + 1)]

        def add(k, item):
            if item not in chart[k]:
                chart[k].add(item)
                order[k].append(item)
        for pi in g.by_lhs[g.start]:
            add(0, (pi, 0, 0))
        for k in range(n + 1):
            i = 0
            predicted = set()
            completed_null = set()
            while i < len(order[k]):
                pi, dot, origin = order[k][i]
                i += 1
                lhs, rhs = prods[pi]
                if dot < len(rhs):
                    s = rhs[dot]
                    if s in g.nts:
                        if s not in predicted:
                            predicted.add(s)
                            for qi in g.by_lhs[s]:
                                add(k, (qi, 0, k))
                        if s in g.nullable:
                            add(k, (pi, dot + 1, origin))
                    elif k < n and tokens[k] == s:
                        add(k + 1, (pi, dot + 1, origin))
                else:
                    # completion
                    for (qi, qdot, qorigin) in list(chart[origin]):
                        qrhs = prods[qi][1]
                        if qdot < len(qrhs) and qrhs[qdot] == lhs:
                            add(k, (qi, qdot + 1, qorigin))
            if k < n and not chart[k + 1]:
                return False
        for (pi, dot, origin) in chart[n]:
            if origin == 0 and prods[pi][0] == g.start and \
                    dot == len(prods[pi][1]):
                return True
        return False
