# -*- coding: utf-8 -*-
"""
Shared infrastructure for the static checkers: verdict protocol, obligation
bookkeeping, known-findings matching, evidence writing.

Nothing in here (or anywhere under /verif/engine, /verif/checks) imports or
executes code of the analysed repository.  Only its *source text* is read.
"""
from __future__ import annotations

import hashlib
import json
import os
import sys
import time

VERIF = os.path.dirname(os.path.dirname(os.path.abspath(__file__)))
KNOWN_FINDINGS = os.path.join(VERIF, 'known_findings.json')
EVIDENCE_DIR = os.path.join(VERIF, 'evidence')
REPLAY_DIR = os.path.join(VERIF, 'replays')


class AnalysisError(Exception):
    """The analysis cannot interpret the source (vanished anchor, unknown
    construct, instance count below the hand-confirmed floor).  Mapped to
    exit status 2: never a pass, never a violation."""


def sha256_file(path):
    h = hashlib.sha256()
    with open(path, 'rb') as fd:
        h.update(fd.read())
    return h.hexdigest()


class Rule(object):
    """One static obligation schema (e.g. R03.1a).  Instances are added
    with ok()/fail(); floor is the hand-confirmed minimal instance count."""

    def __init__(self, report, rid, title, floor=1):
        self.report = report
        self.rid = rid
        self.title = title
        self.floor = floor
        self.instances = 0
        self.discharged = 0
        self.failed = []
        self.samples = []
        self.notes = []
        self.keys = set()

    def ok(self, construct, detail=None):
        self.instances += 1
        self.discharged += 1
        self.keys.add(str(construct))
        if len(self.samples) < 4:
            self.samples.append({
                'rule': self.rid, 'construct': str(construct),
                'verdict': 'discharged',
                'detail': detail if detail is not None else ''})

    def fail(self, key, construct, detail, witness=None, where=None):
        """key: stable identifier of the finding (rule + construct, no line
        numbers)."""
        self.instances += 1
        self.keys.add(str(construct))
        f = {
            'rule': self.rid, 'key': '%s:%s' % (self.rid, key),
            'construct': str(construct), 'detail': detail,
        }
        if witness is not None:
            f['witness'] = witness
        if where is not None:
            f['where'] = where
        self.failed.append(f)
        self.report.findings.append(f)

    def check(self, cond, key, construct, detail, witness=None, where=None,
              okdetail=None):
        if cond:
            self.ok(construct, okdetail)
        else:
            self.fail(key, construct, detail, witness, where)
        return cond

    def note(self, text):
        self.notes.append(text)


class Report(object):

    def __init__(self, prop, tier='quick', root='/repo', seed=0):
        self.prop = prop
        self.tier = tier
        self.root = root
        self.seed = seed
        self.rules = []
        self.findings = []
        self.files = {}
        self.analysed = {}
        self.assumptions = []
        self.trusted_base = []
        self.explanation = ''
        self.not_decided = []
        self.t0 = time.time()
        self.extra = {}
        self.informational = []
        # guards of the analysis' own model, run after the rules
        self.deferred = []

    def rule(self, rid, title, floor=1):
        r = Rule(self, rid, title, floor)
        self.rules.append(r)
        return r

    def consulted(self, path):
        if path not in self.files and os.path.exists(path):
            self.files[path] = sha256_file(path)

    def count(self, what, n):
        self.analysed[what] = n

    # ---------------------------------------------------------------

    def _load_known(self):
        if not os.path.exists(KNOWN_FINDINGS):
            return {}, []
        with open(KNOWN_FINDINGS) as fd:
            data = json.load(fd)
        known = {}
        fixed = []
        for e in data.get('findings', []):
            if e.get('property') != self.prop:
                continue
            if e.get('status', 'known') == 'fixed':
                fixed.append(e)
            else:
                known[e['key']] = e
        return known, fixed

    def new_findings(self):
        known, _fixed = self._load_known()
        return [f for f in self.findings if f['key'] not in known]

    def finish(self, partial=None):
        """Print the verdict, write evidence, return the exit status.
        partial: the analysis stopped with this error after the findings
        so far were established; they are reported, nothing else is
        claimed (no evidence is written)"""
        # floors first: a rule that matches (almost) nothing must not pass
        for r in self.rules:
            if partial is None and r.instances < r.floor:
                raise AnalysisError(
                    'rule %s (%s): %d instances found, hand-confirmed floor '
                    'is %d - refusing to pass vacuously' % (
                        r.rid, r.title, r.instances, r.floor))
        known, _fixed = self._load_known()
        new = []
        seen_known = []
        reported = set()
        for f in self.findings:
            # one report per finding key (a key names a rule and a
            # construct; further instances add nothing)
            if f['key'] in reported and f['key'] not in known:
                continue
            reported.add(f['key'])
            if f['key'] in known:
                seen_known.append((f, known[f['key']]))
            else:
                new.append(f)

        total = sum(r.instances for r in self.rules)
        disch = sum(r.discharged for r in self.rules)
        print('== %s tier=%s root=%s' % (self.prop, self.tier, self.root))
        for k, v in sorted(self.analysed.items()):
            print('   analysed %-38s %s' % (k, v))
        for r in self.rules:
            print('   rule %-8s %-58s instances=%-5d discharged=%-5d '
                  'failing=%d' % (
                      r.rid, r.title[:58], r.instances, r.discharged,
                      len(r.failed)))
            for n in r.notes:
                print('        note: %s' % n)
        for text in self.informational:
            print('   info: %s' % text)
        for f, k in seen_known:
            print('KNOWN-FINDING: property=%s %s %s | %s | witness: %s' % (
                self.prop, f['key'], f['construct'] if f['construct'] not in
                f['key'] else '', f['detail'],
                k.get('witness', f.get('witness', '-'))))
        status = 0
        replays = []
        if new:
            os.makedirs(REPLAY_DIR, exist_ok=True)
            for i, f in enumerate(new):
                digest = hashlib.sha256(
                    f['key'].encode('utf8')).hexdigest()[:12]
                path = os.path.join(
                    REPLAY_DIR, '%s-%s.json' % (self.prop, digest))
                with open(path, 'w') as fd:
                    json.dump({
                        'property': self.prop, 'tier': self.tier,
                        'root': self.root, 'finding': f}, fd, indent=1,
                        sort_keys=True)
                replays.append(path)
                print('FINDING %s %s' % (f['key'], f.get('where', '')))
                print('        construct: %s' % f['construct'])
                print('        %s' % f['detail'])
                if f.get('witness'):
                    print('        witness: %s' % (f['witness'],))
                print('VIOLATION property=%s replay=%s' % (self.prop, path))
            status = 1
        if partial is None:
            self._write_evidence(total, disch, new, seen_known)
        else:
            print('ANALYSIS-INCOMPLETE property=%s the analysis stopped after '
                  'the violation(s) above were established: %s' % (
                      self.prop, partial))
        print('== %s: %d obligations, %d discharged, %d known finding(s), '
              '%d new violation(s), %.2fs' % (
                  self.prop, total, disch, len(seen_known), len(new),
                  time.time() - self.t0))
        return status

    def _write_evidence(self, total, disch, new, seen_known):
        if os.environ.get('VERIF_NO_EVIDENCE') or self.root != '/repo':
            # runs against scratch copies never overwrite the evidence of
            # the registered checks
            return
        os.makedirs(EVIDENCE_DIR, exist_ok=True)
        samples = []
        for r in self.rules:
            samples.extend(r.samples[:3])
        for f, _k in seen_known[:6]:
            samples.append({
                'rule': f['rule'], 'construct': f['construct'],
                'verdict': 'fails (known finding)', 'detail': f['detail']})
        for f in new[:6]:
            samples.append({
                'rule': f['rule'], 'construct': f['construct'],
                'verdict': 'fails (VIOLATION)', 'detail': f['detail']})
        distinct = len(set(
            (r.rid, k) for r in self.rules for k in r.keys))
        ev = {
            'property_id': self.prop,
            'tier': self.tier,
            'seed': self.seed,
            'level': 'other',
            'coverage': {
                'explanation': self.explanation or (
                    'static analysis of the source text of %s/src/calmjs/'
                    'parse' % self.root),
                'obligations': total,
                'discharged': disch,
                'evaluations': max(total, 1),
                'distinct_nontrivial': distinct,
                'rule': (
                    'obligations are the instances of the static rules listed '
                    'under rules[], enumerated from the current source; '
                    'distinct = distinct (rule, construct) pairs'),
                'samples': samples or [{'note': 'no obligations'}],
                'exhaustive': bool(self.extra.get('exhaustive', False)),
                'rules': [{
                    'id': r.rid, 'title': r.title, 'instances': r.instances,
                    'discharged': r.discharged, 'failing': len(r.failed),
                    'floor': r.floor, 'notes': r.notes,
                } for r in self.rules],
                'analysed': self.analysed,
                'files': self.files,
                'findings_known': [f['key'] for f, _k in seen_known],
                'findings_new': [f['key'] for f in new],
                'not_decided': self.not_decided,
                'trusted_base': self.trusted_base,
                'checker_cmd': ' '.join(sys.argv),
            },
            'assumptions': self.assumptions,
            'wall_s': round(time.time() - self.t0, 3),
            'violations': len(new),
        }
        ev['coverage'].update({
            k: v for k, v in self.extra.items() if k != 'exhaustive'})
        path = os.path.join(EVIDENCE_DIR, '%s.json' % self.prop)
        with open(path, 'w') as fd:
            json.dump(ev, fd, indent=1, sort_keys=True, default=str)
