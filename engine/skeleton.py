# -*- coding: utf-8 -*-
"""
Symbolic printing of abstract node values (from the action interpreter)
through the definitions table, and alignment of the printed skeleton with
the right-hand side of grammar productions.

Transcribed semantics (guarded by digests of ruletypes.py, see defs.py):
  Text(v)            emits the text v
  Attr(a)            emits getattr(node, a): a node is walked, a string is
                     emitted as text, None / [] emit nothing
  Attr(Declare(a))   as Attr(a);  Attr(Resolve()) / Attr(Literal()) emit
                     node.value
  Operator(attr=a)   as Attr(a);  Operator(value=v) emits v
  Optional(a, seq)   seq if getattr(node, a) is not None / []
  JoinAttr(a, seq)   elements of the list separated by seq;
                     JoinAttr(Iter(), seq) iterates children() minus None
"""
from __future__ import annotations

from .common import AnalysisError
from .actions import (
    AttrOf, Const, ListVal, NodeVal, Slot, filter_kinds)


class SkeletonError(Exception):
    """The definition cannot print this value sensibly (reported as a
    finding by the caller)."""


class Item(object):
    __slots__ = ('kind', 'lexeme', 'idx', 'sym', 'seps', 'name', 'term',
                 'node', 'defname', 'src', 'maybe_empty')

    def __init__(self, kind, **kw):
        self.kind = kind          # tok | slot | list | layout | struct
        self.lexeme = kw.get('lexeme')
        self.idx = kw.get('idx')
        self.sym = kw.get('sym')
        self.seps = kw.get('seps')
        self.name = kw.get('name')
        self.term = kw.get('term')
        self.node = kw.get('node')
        self.defname = kw.get('defname')
        self.src = kw.get('src')
        self.maybe_empty = kw.get('maybe_empty', False)

    def __repr__(self):
        if self.kind == 'tok':
            if self.idx is not None:
                return '%r@p[%d]' % (self.lexeme, self.idx)
            return repr(self.lexeme)
        if self.kind == 'slot':
            return '<p[%d]:%s>' % (self.idx, self.sym)
        if self.kind == 'list':
            return '<p[%d]:%s sep=%s>' % (self.idx, self.sym, self.seps)
        return self.name


class ListShape(object):
    def __init__(self, elems, seps, maybe_empty, irregular=False):
        self.elems = elems
        self.seps = seps
        self.maybe_empty = maybe_empty
        self.irregular = irregular

    def __repr__(self):
        return 'ListShape(%s, seps=%s, empty=%s%s)' % (
            sorted(self.elems), self.seps, self.maybe_empty,
            ', irregular' if self.irregular else '')


class Printer(object):

    def __init__(self, grammar, actions, astmodel, lexmodel, definitions):
        self.g = grammar
        self.A = actions
        self.am = astmodel
        self.lm = lexmodel
        self.D = definitions
        self._shapes = {}
        self._wrappers = None

    # -- helpers ----------------------------------------------------------

    def kinds(self, slot):
        if self.g.is_terminal(slot.sym):
            return {('str', slot.sym)}
        ks = self.A.kinds.get(slot.sym, set())
        if slot.narrow:
            ks = filter_kinds(ks, slot.narrow, self.am)
        return ks

    def lexeme(self, terminal):
        lex = self.lm.lexeme(terminal)
        return lex

    # -- list shapes -----------------------------------------------------

    def list_shape(self, nt, _stack=()):
        if nt in self._shapes:
            return self._shapes[nt]
        if nt in _stack:
            return None
        elems = set()
        seps = None
        maybe_empty = False
        irregular = False
        for prod in self.g.by_lhs[nt]:
            for oc in self.A.of(prod):
                if oc.status != 'ok':
                    continue
                v = oc.value
                if v is None or (isinstance(v, Const) and v.value is None):
                    maybe_empty = True
                    continue
                if isinstance(v, Slot):
                    if self.g.is_terminal(v.sym):
                        irregular = True
                        continue
                    sub = self.list_shape(v.sym, _stack + (nt,))
                    if sub is None:
                        continue
                    rest = [s for i, s in enumerate(prod.rhs, 1)
                            if i != v.idx]
                    if rest:
                        irregular = True
                    elems |= sub.elems
                    maybe_empty = maybe_empty or sub.maybe_empty
                    irregular = irregular or sub.irregular
                    if sub.seps is not None:
                        if seps is None:
                            seps = sub.seps
                        elif seps != sub.seps:
                            irregular = True
                    continue
                if not isinstance(v, ListVal):
                    irregular = True
                    continue
                if v.base is None and not v.parts:
                    maybe_empty = True
                    if prod.rhs and any(
                            s not in self.g.nullable for s in prod.rhs):
                        irregular = True
                    continue
                if v.base is None and len(v.parts) == 1 and \
                        v.parts[0][0] == 'item' and isinstance(
                            v.parts[0][1], Slot) and len(prod.rhs) == 1:
                    elems.add(prod.rhs[0])
                    continue
                if isinstance(v.base, Slot) and v.base.sym == nt and \
                        v.base.idx == 1 and len(v.parts) == 1 and \
                        v.parts[0][0] == 'item' and isinstance(
                            v.parts[0][1], Slot) and \
                        v.parts[0][1].idx == len(prod.rhs) and all(
                            self.g.is_terminal(s)
                            for s in prod.rhs[1:-1]):
                    elems.add(prod.rhs[-1])
                    s = tuple(self.lexeme(t) for t in prod.rhs[1:-1])
                    if seps is None:
                        seps = s
                    elif seps != s:
                        irregular = True
                    continue
                irregular = True
        shape = ListShape(elems, seps if seps is not None else (),
                          maybe_empty, irregular)
        self._shapes[nt] = shape
        return shape

    # -- wrapper nonterminals (lossy pass-through with extra terminals) --

    def wrappers(self):
        """nt -> (rhs, k): the single production `nt : ... X ...` whose
        value is p[k] unchanged and whose other symbols are terminals."""
        if self._wrappers is not None:
            return self._wrappers
        out = {}
        for nt, prods in self.g.by_lhs.items():
            if len(prods) != 1:
                continue
            prod = prods[0]
            ocs = [oc for oc in self.A.of(prod)]
            if len(ocs) != 1 or ocs[0].status != 'ok':
                continue
            v = ocs[0].value
            if not isinstance(v, Slot) or v.narrow or len(prod.rhs) < 2:
                continue
            others = [s for i, s in enumerate(prod.rhs, 1) if i != v.idx]
            if all(self.g.is_terminal(s) for s in others):
                out[nt] = (prod, v.idx)
        self._wrappers = out
        return out

    # -- printing -----------------------------------------------------------

    def emit_node(self, node, depth=0):
        if depth > 6:
            raise AnalysisError('definition expansion too deep at %s'
                                % node.cls)
        if node.cls not in self.D.defs:
            raise SkeletonError(
                'node type %s has no definition in the unparser table'
                % node.cls)
        return self.emit_seq(self.D.defs[node.cls], node, node.cls, depth)

    def emit_seq(self, seq, node, defname, depth):
        out = []
        for t in seq:
            out.extend(self.emit_term(t, node, defname, depth))
        return out

    def attr_value(self, node, attr, term):
        if attr not in node.attrs:
            # class-level defaults (comments = None)
            owner_has = self.class_default(node.cls, attr)
            if owner_has:
                return Const(None)
            raise SkeletonError(
                'definition %s refers to attribute %r which the parser '
                'never sets on %s nodes' % (node.cls, attr, node.cls))
        return node.attrs[attr]

    def class_default(self, cls, attr):
        import ast as _ast
        for c in self.am.mro(cls):
            for st in self.am.classes[c].node.body:
                if isinstance(st, _ast.Assign):
                    names = []
                    for t in st.targets:
                        if isinstance(t, _ast.Name):
                            names.append(t.id)
                    if attr in names and isinstance(
                            st.value, _ast.Constant) and \
                            st.value.value is None:
                        return True
        return False

    def emit_term(self, t, node, defname, depth):
        meta = dict(term=t, node=node, defname=defname)
        if t.kind == 'layout':
            return [Item('layout', name=t.name, **meta)]
        if t.kind == 'struct':
            return [Item('struct', name=t.name, **meta)]
        if t.kind == 'text':
            return [Item('tok', lexeme=t.value.strip(), src='text', **meta)]
        if t.kind == 'operator':
            if t.attr:
                return self.emit_value(
                    self.attr_value(node, t.attr, t), t, node, defname,
                    depth, src='op')
            return [Item('tok', lexeme=t.value, src='op', **meta)]
        if t.kind == 'attr':
            if t.cls == 'CommentsAttr':
                return []
            if t.deferrable in ('Resolve', 'Literal'):
                v = self.attr_value(node, 'value', t)
            elif t.deferrable in ('LineComment', 'BlockComment'):
                v = self.attr_value(node, 'value', t)
            elif t.deferrable == 'Declare' or t.deferrable is None:
                v = self.attr_value(node, t.attr, t)
            else:
                raise AnalysisError('definition %s: Attr(%s) unsupported'
                                    % (defname, t.deferrable))
            return self.emit_value(v, t, node, defname, depth, src='attr')
        if t.kind == 'optional':
            v = self.attr_value(node, t.attr, t)
            present = self.presence(v)
            if present is True:
                return self.emit_seq(t.seq, node, defname, depth)
            if present is False:
                return []
            inner = self.emit_seq(t.seq, node, defname, depth)
            toks = [i for i in inner if i.kind == 'tok']
            if toks:
                raise AnalysisError(
                    'definition %s: Optional(%r) prints tokens although '
                    'the presence of the attribute is not decided by the '
                    'production' % (defname, t.attr))
            return inner
        if t.kind == 'join':
            return self.emit_join(t, node, defname, depth)
        if t.kind == 'elisiontoken':
            v = self.attr_value(node, t.attr, t)
            return [Item('tok', lexeme=('elision', t.value, v),
                         src='elision', **meta)]
        if t.kind == 'elisionjoin':
            v = self.attr_value(node, t.attr, t)
            return [Item('slot', idx=None, sym='<elision-join>',
                         src=('elisionjoin', v), **meta)]
        raise AnalysisError('unknown term kind %s' % t.kind)

    def presence(self, v):
        """True / False / None(undecided): `not is_empty(value)`"""
        if isinstance(v, Const):
            return v.value is not None and v.value != []
        if isinstance(v, NodeVal):
            return True
        if isinstance(v, ListVal):
            if v.base is None and not v.parts:
                return False
            if any(k == 'item' for k, _ in v.parts):
                return True
            for k, p in v.parts:
                if isinstance(p, Slot) and not self.maybe_empty_list(p):
                    return True
            if v.base is not None and not self.maybe_empty_list(v.base):
                return True
            return None
        if isinstance(v, Slot):
            ks = self.kinds(v)
            if not ks:
                return None
            if ks == {('none',)}:
                return False
            if ('none',) in ks:
                return None
            if ('list',) in ks:
                return None if self.maybe_empty_list(v) else True
            return True
        return None

    def maybe_empty_list(self, slot):
        if self.g.is_terminal(slot.sym):
            return False
        shape = self.list_shape(slot.sym)
        return shape is None or shape.maybe_empty

    def emit_value(self, v, t, node, defname, depth, src):
        meta = dict(term=t, node=node, defname=defname, src=src)
        if isinstance(v, NodeVal):
            return self.emit_node(v, depth + 1)
        if isinstance(v, Const):
            if v.value is None or v.value == []:
                return []
            if isinstance(v.value, str):
                return [Item('tok', lexeme=v.value, **meta)]
            raise SkeletonError('%s: Attr(%r) prints the constant %r' % (
                defname, t.attr, v.value))
        if isinstance(v, AttrOf) and isinstance(v.base, Slot) and \
                v.attr == 'value':
            return [Item('slot', idx=v.base.idx, sym=v.base.sym, **meta)]
        if isinstance(v, Slot):
            if self.g.is_terminal(v.sym):
                return [Item('tok', lexeme=self.lexeme(v.sym), idx=v.idx,
                             sym=v.sym, **meta)]
            ks = self.kinds(v)
            if any(k[0] == 'list' for k in ks):
                raise SkeletonError(
                    '%s: %s(%r) prints a list-valued attribute (p[%d]:%s) '
                    'as a single token' % (defname, t.cls, t.attr, v.idx,
                                           v.sym))
            if ks and ks == {('none',)}:
                return []
            return [Item('slot', idx=v.idx, sym=v.sym,
                         maybe_empty=('none',) in ks, **meta)]
        if isinstance(v, ListVal):
            raise SkeletonError(
                '%s: %s(%r) prints a list as a single token' % (
                    defname, t.cls, t.attr))
        raise SkeletonError('%s: cannot print value %r' % (defname, v))

    def emit_join(self, t, node, defname, depth):
        if t.deferrable == 'Iter':
            _, shape = self.am.children_shape(node.cls)
            parts = []
            for kind, attr in shape:
                if attr not in node.attrs:
                    continue
                parts.append((kind, node.attrs[attr]))
        elif t.deferrable in (None, 'Declare'):
            parts = [('many', self.attr_value(node, t.attr, t))]
        else:
            raise AnalysisError('definition %s: JoinAttr(%s) unsupported'
                                % (defname, t.deferrable))
        seps = self.emit_seq(t.seq or [], node, defname, depth)
        septoks = tuple(i.lexeme for i in seps if i.kind == 'tok')
        if any(i.kind in ('slot', 'list') for i in seps):
            raise AnalysisError('definition %s: separator prints a child'
                                % defname)
        # flatten
        flat = []
        for kind, v in parts:
            if kind == 'one':
                if isinstance(v, Const) and v.value is None:
                    continue
                flat.append(('item', v))
            else:
                flat.extend(self.flatten(v))
        out = []
        meta = dict(term=t, node=node, defname=defname, src='join')
        emitted = 0
        for kind, v in flat:
            if kind == 'item':
                if emitted:
                    out.extend(seps)
                out.extend(self.emit_value(v, t, node, defname, depth,
                                           'join'))
                emitted += 1
            else:
                # splice of a child list
                if not isinstance(v, Slot):
                    raise AnalysisError('unexpected splice %r' % (v,))
                if emitted or len(flat) > 1:
                    if septoks:
                        raise AnalysisError(
                            'definition %s: token separators around a '
                            'spliced child list are not modelled' % defname)
                    out.extend(seps)
                out.append(Item('list', idx=v.idx, sym=v.sym, seps=septoks,
                                **meta))
                out.extend([])
                emitted += 1
        # layout separators of a child list are kept for the layout engine
        for it in out:
            if it.kind == 'list':
                it.src = ('join', seps)
        return out

    def flatten(self, v):
        """list value -> [('item', v) | ('splice', Slot)]"""
        if isinstance(v, Const) and (v.value is None or v.value == []):
            return []
        if isinstance(v, Slot):
            ks = self.kinds(v)
            if ks and ks == {('none',)}:
                return []
            return [('splice', v)]
        if isinstance(v, ListVal):
            out = []
            if v.base is not None:
                out.extend(self.flatten(v.base))
            for kind, p in v.parts:
                if kind == 'item':
                    out.append(('item', p))
                else:
                    out.extend(self.flatten(p))
            return out
        raise SkeletonError('JoinAttr over a non-list value %r' % (v,))

    # -- right-hand sides ------------------------------------------------

    def rhs_items(self, prod, none_slots=()):
        """[(kind, lexeme|sym, position)] with wrapper nonterminals
        expanded; AUTOSEMI == SEMI"""
        out = []
        wr = self.wrappers()
        for i, s in enumerate(prod.rhs, 1):
            if self.g.is_terminal(s):
                out.append(('T', self.lexeme(s), i, s))
            elif s == 'empty':
                continue
            elif s in wr:
                wprod, k = wr[s]
                for j, ws in enumerate(wprod.rhs, 1):
                    if j == k:
                        out.append(('N', ws, i, s))
                    else:
                        out.append(('T', self.lexeme(ws), (i, j), ws))
            else:
                if i in none_slots and s in self.g.nullable:
                    continue
                out.append(('N', s, i, s))
        return out


LAYOUT_TOKENS = {'OpenBlock': '{', 'CloseBlock': '}', 'EndStatement': ';'}


def tokens_only(items):
    """token-emitting items; the three layout marks that print `{`, `}`
    and `;` count as tokens"""
    out = []
    for i in items:
        if i.kind in ('tok', 'slot', 'list'):
            out.append(i)
        elif i.kind == 'layout' and i.name in LAYOUT_TOKENS:
            out.append(Item('tok', lexeme=LAYOUT_TOKENS[i.name],
                            src='layout', term=i.term, node=i.node,
                            defname=i.defname, name=i.name))
    return out


def align(printer, items, prod, none_slots=()):
    """Align the printed items with the RHS of prod.  Returns
    (ok, pairs, message); pairs = [(item, rhs position)]"""
    rhs = printer.rhs_items(prod, none_slots)
    toks = tokens_only(items)
    pairs = []
    i = j = 0
    while i < len(toks) and j < len(rhs):
        it = toks[i]
        kind, val, pos, sym = rhs[j]
        if it.kind == 'tok':
            if kind != 'T':
                # a nullable / maybe-empty nonterminal may be skipped
                if sym in printer.g.nullable:
                    j += 1
                    continue
                return False, pairs, (
                    'prints token %r where the production has %s' % (
                        it.lexeme, sym))
            if it.idx is not None and it.idx != (
                    pos if isinstance(pos, int) else pos[0]):
                return False, pairs, (
                    'prints the text of p[%d] (%s) at the place of p[%s] '
                    '(%s)' % (it.idx, it.sym, pos, sym))
            if it.lexeme != val and not (it.idx is not None and
                                         val is None):
                return False, pairs, (
                    'prints %r where the production has %s (%r)' % (
                        it.lexeme, sym, val))
            pairs.append((it, pos))
            i += 1
            j += 1
            continue
        # slot / list
        if kind == 'T':
            return False, pairs, (
                'prints child p[%s]:%s where the production has the '
                'terminal %s' % (it.idx, it.sym, sym))
        p0 = pos if isinstance(pos, int) else pos[0]
        if it.idx != p0:
            if sym in printer.g.nullable and (
                    isinstance(pos, int) and pos in none_slots or
                    True) and _can_skip(printer, prod, pos, it):
                j += 1
                continue
            return False, pairs, (
                'prints child p[%s]:%s at the place of p[%s]:%s' % (
                    it.idx, it.sym, p0, sym))
        if it.kind == 'list':
            shape = printer.list_shape(it.sym)
            if shape is None or shape.irregular:
                return False, pairs, (
                    'list nonterminal %s has an irregular shape' % it.sym)
            if tuple(shape.seps) != tuple(it.seps):
                return False, pairs, (
                    'joins p[%d]:%s with %r but the grammar separates its '
                    'elements with %r' % (it.idx, it.sym, it.seps,
                                          shape.seps))
        pairs.append((it, pos))
        i += 1
        j += 1
    while j < len(rhs):
        kind, val, pos, sym = rhs[j]
        if kind == 'N' and sym in printer.g.nullable and \
                _slot_unprinted_ok(printer, prod, pos):
            j += 1
            continue
        return False, pairs, (
            'does not print %s (position %s of the production)' % (
                sym, pos))
    if i < len(toks):
        return False, pairs, (
            'prints %r beyond the end of the production' % (toks[i],))
    return True, pairs, ''


def _can_skip(printer, prod, pos, it):
    # a nullable nonterminal the definition does not print at all is only
    # acceptable if its value is dropped (None) on this path
    return False


def _slot_unprinted_ok(printer, prod, pos):
    return False
