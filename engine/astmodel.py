# -*- coding: utf-8 -*-
"""
Model of calmjs/parse/asttypes.py: class hierarchy, constructor signature,
parameter -> attribute map and the shape of children().
"""
from __future__ import annotations

import ast

from .common import AnalysisError

ASTTYPES_MOD = 'calmjs.parse.asttypes'


class ClassModel(object):

    def __init__(self, name, node, bases):
        self.name = name
        self.node = node
        self.bases = bases
        self.own_init = None
        self.own_children = None
        for st in node.body:
            if isinstance(st, ast.FunctionDef):
                if st.name == '__init__':
                    self.own_init = st
                elif st.name == 'children':
                    self.own_children = st


class AstModel(object):

    def __init__(self, index):
        self.module = index.need(ASTTYPES_MOD)
        self.classes = {}
        self.rewrites = {}
        for name, node in self.module.classes.items():
            bases = []
            for b in node.bases:
                if isinstance(b, ast.Name):
                    bases.append(b.id)
            self.classes[name] = ClassModel(name, node, bases)
        if 'Node' not in self.classes:
            raise AnalysisError('asttypes.Node vanished')

    def mro(self, name):
        out = []
        todo = [name]
        while todo:
            n = todo.pop(0)
            if n in out or n not in self.classes:
                continue
            out.append(n)
            todo = self.classes[n].bases + todo
        return out

    def is_node(self, name):
        return name in self.classes and 'Node' in self.mro(name)

    def is_subclass(self, name, base):
        return base in self.mro(name)

    def subclasses(self, base):
        return [n for n in self.classes if self.is_subclass(n, base)]

    def find_method(self, name, meth):
        for c in self.mro(name):
            for st in self.classes[c].node.body:
                if isinstance(st, ast.FunctionDef) and st.name == meth:
                    return c, st
        return None, None

    # ------------------------------------------------------------------

    def init_model(self, name):
        """Returns (params, attrmap) where params is the list of
        (param name, has_default, default) of __init__ (without self) and
        attrmap maps attribute name -> (param name, none_to_list)."""
        owner, init = self.find_method(name, '__init__')
        if init is None:
            raise AnalysisError('no __init__ for %s' % name)
        a = init.args
        if a.vararg or a.kwarg or a.kwonlyargs or a.posonlyargs:
            raise AnalysisError('%s.__init__: unsupported signature' % owner)
        names = [x.arg for x in a.args][1:]
        defaults = [None] * (len(names) - len(a.defaults)) + list(a.defaults)
        params = []
        for n, d in zip(names, defaults):
            if d is None:
                params.append((n, False, None))
            else:
                if not isinstance(d, ast.Constant):
                    raise AnalysisError(
                        '%s.__init__: non constant default' % owner)
                params.append((n, True, d.value))
        attrmap = {}
        none_to_list = set()    # parameters normalised `None -> []` first
        for st in init.body:
            if isinstance(st, ast.Expr) and isinstance(
                    st.value, ast.Constant):
                continue
            # if P is None: P = []      /  P = P or []  (and the
            # conditional-expression spellings _init_value knows)
            if isinstance(st, ast.If) and not st.orelse and \
                    len(st.body) == 1 and isinstance(
                    st.body[0], ast.Assign) and len(
                    st.body[0].targets) == 1 and isinstance(
                    st.body[0].targets[0], ast.Name) and \
                    st.body[0].targets[0].id in names and isinstance(
                    st.body[0].value, ast.List) and \
                    not st.body[0].value.elts:
                pn = st.body[0].targets[0].id
                t = st.test
                is_none = isinstance(t, ast.Compare) and len(
                    t.ops) == 1 and isinstance(t.ops[0], ast.Is) and \
                    isinstance(t.left, ast.Name) and t.left.id == pn and \
                    isinstance(t.comparators[0], ast.Constant) and \
                    t.comparators[0].value is None
                is_not = isinstance(t, ast.UnaryOp) and isinstance(
                    t.op, ast.Not) and isinstance(
                    t.operand, ast.Name) and t.operand.id == pn
                if is_none or is_not:
                    none_to_list.add(pn)
                    continue
            if isinstance(st, ast.Assign) and len(st.targets) == 1 and \
                    isinstance(st.targets[0], ast.Name) and \
                    st.targets[0].id in names:
                try:
                    iv = self._init_value(owner, st.value, names)
                except AnalysisError:
                    iv = None
                if iv is not None and iv[0] == 'param' and \
                        iv[1] == st.targets[0].id and iv[2]:
                    none_to_list.add(iv[1])
                    continue
            if isinstance(st, ast.Pass):
                continue
            if isinstance(st, ast.Assert):
                continue
            if isinstance(st, ast.Assign) and len(st.targets) == 1 and \
                    isinstance(st.targets[0], ast.Attribute) and \
                    isinstance(st.targets[0].value, ast.Name) and \
                    st.targets[0].value.id == 'self':
                attr = st.targets[0].attr
                iv = self._init_value(owner, st.value, names)
                if iv[0] == 'param' and iv[1] in none_to_list:
                    iv = ('param', iv[1], True)
                attrmap[attr] = iv
                continue
            # super(X, self).__init__(a, b=c) / super().__init__(...)
            if isinstance(st, ast.Expr) and isinstance(
                    st.value, ast.Call) and isinstance(
                    st.value.func, ast.Attribute) and \
                    st.value.func.attr == '__init__' and isinstance(
                    st.value.func.value, ast.Call) and isinstance(
                    st.value.func.value.func, ast.Name) and \
                    st.value.func.value.func.id == 'super':
                inherited = self._super_init(owner, st.value, names)
                for k, v in inherited.items():
                    attrmap.setdefault(k, v)
                continue
            # Base.__init__(self, a, b=c): explicit base constructor call
            if isinstance(st, ast.Expr) and isinstance(
                    st.value, ast.Call) and isinstance(
                    st.value.func, ast.Attribute) and \
                    st.value.func.attr == '__init__' and isinstance(
                    st.value.func.value, ast.Name) and \
                    st.value.func.value.id in self.classes and \
                    st.value.args and isinstance(
                        st.value.args[0], ast.Name) and \
                    st.value.args[0].id == 'self':
                call = ast.Call(func=st.value.func,
                                args=st.value.args[1:],
                                keywords=st.value.keywords)
                inherited = self._super_init(
                    owner, call, names, base=st.value.func.value.id)
                for k, v in inherited.items():
                    attrmap.setdefault(k, v)
                continue
            rw = self._projection_rewrite(st, names)
            if rw is not None:
                # the constructor replaces an argument by a part of it:
                # recorded (reported by C03 / C16), the attribute map
                # keeps the argument
                self.rewrites.setdefault(owner, [])
                if rw not in self.rewrites[owner]:
                    self.rewrites[owner].append(rw)
                continue
            raise AnalysisError(
                '%s.__init__: unsupported statement %s' % (
                    owner, ast.unparse(st)))
        return params, attrmap

    @staticmethod
    def _projection_rewrite(st, names):
        """`P = P.attr...` or `if <test on P>: P = P.attr...` for a
        parameter P: (parameter, statement text), else None"""
        def proj(a):
            if not (isinstance(a, ast.Assign) and len(a.targets) == 1 and
                    isinstance(a.targets[0], ast.Name) and
                    a.targets[0].id in names):
                return None
            v = a.value
            depth = 0
            while isinstance(v, (ast.Attribute, ast.Subscript)):
                v = v.value
                depth += 1
            if depth and isinstance(v, ast.Name) and \
                    v.id == a.targets[0].id:
                return a.targets[0].id
            return None
        if isinstance(st, (ast.If, ast.While)) and not st.orelse and \
                len(st.body) == 1:
            pn = proj(st.body[0])
            if pn is not None and any(
                    isinstance(n, ast.Name) and n.id == pn
                    for n in ast.walk(st.test)):
                return (pn, ' '.join(ast.unparse(st).split()))
            return None
        pn = proj(st)
        if pn is not None:
            return (pn, ast.unparse(st))
        return None

    def _super_init(self, owner, call, names, base=None):
        """attribute map contributed by a call of the base constructor"""
        base_owner = base_init = None
        for c in (self.mro(base) if base else self.mro(owner)[1:]):
            for st in self.classes[c].node.body:
                if isinstance(st, ast.FunctionDef) and \
                        st.name == '__init__':
                    base_owner, base_init = c, st
                    break
            if base_init is not None:
                break
        if base_init is None:
            raise AnalysisError('%s.__init__: no base constructor' % owner)
        bparams, battr = self.init_model(base_owner)
        bnames = [p[0] for p in bparams]
        bound = {}
        for n, a in zip(bnames, call.args):
            bound[n] = a
        for kw in call.keywords:
            bound[kw.arg] = kw.value
        out = {}
        for attr, (kind, pname, n2l) in battr.items():
            if kind != 'param':
                out[attr] = (kind, pname, n2l)
                continue
            arg = bound.get(pname)
            if isinstance(arg, ast.Name) and arg.id in names:
                out[attr] = ('param', arg.id, n2l)
            elif arg is None:
                out[attr] = ('const', 'default', False)
            else:
                raise AnalysisError(
                    '%s.__init__: unsupported argument %s to the base '
                    'constructor' % (owner, ast.unparse(arg)))
        return out

    def _init_value(self, owner, v, names):
        # param | param or [] | param if param is not None else []
        # | [] if param is None else param | {} (literal)
        if isinstance(v, ast.Name) and v.id in names:
            return ('param', v.id, False)
        if isinstance(v, ast.BoolOp) and isinstance(v.op, ast.Or) and \
                len(v.values) == 2 and isinstance(v.values[0], ast.Name) \
                and isinstance(v.values[1], ast.List) and \
                not v.values[1].elts:
            return ('param', v.values[0].id, True)
        if isinstance(v, ast.IfExp) and isinstance(v.test, ast.Compare) and \
                len(v.test.ops) == 1 and isinstance(
                    v.test.left, ast.Name) and isinstance(
                    v.test.comparators[0], ast.Constant) and \
                v.test.comparators[0].value is None:
            p = v.test.left.id
            if isinstance(v.test.ops[0], ast.IsNot) and isinstance(
                    v.body, ast.Name) and v.body.id == p and isinstance(
                    v.orelse, ast.List) and not v.orelse.elts:
                return ('param', p, True)
            if isinstance(v.test.ops[0], ast.Is) and isinstance(
                    v.orelse, ast.Name) and v.orelse.id == p and isinstance(
                    v.body, ast.List) and not v.body.elts:
                return ('param', p, True)
        if isinstance(v, (ast.Dict, ast.List)) and not (
                getattr(v, 'keys', None) or getattr(v, 'elts', None)):
            return ('const', ast.unparse(v), False)
        raise AnalysisError('%s.__init__: unsupported attribute value %s' % (
            owner, ast.unparse(v)))

    # ------------------------------------------------------------------

    def children_shape(self, name):
        """Sequence of ('one', attr) / ('many', attr) in the order
        children() returns them; None if the shape cannot be read."""
        owner, meth = self.find_method(name, 'children')
        if meth is None:
            raise AnalysisError('no children() for %s' % name)
        body = [st for st in meth.body if not (
            isinstance(st, ast.Expr) and isinstance(st.value, ast.Constant))]
        if len(body) != 1 or not isinstance(body[0], ast.Return):
            raise AnalysisError(
                '%s.children(): expected a single return' % owner)
        return owner, self._shape(owner, body[0].value)

    def _shape(self, owner, e):
        if isinstance(e, ast.BinOp) and isinstance(e.op, ast.Add):
            return self._shape(owner, e.left) + self._shape(owner, e.right)
        if isinstance(e, ast.List):
            out = []
            for x in e.elts:
                a = self._self_attr(x)
                if a is None:
                    raise AnalysisError(
                        '%s.children(): unsupported element %s' % (
                            owner, ast.unparse(x)))
                out.append(('one', a))
            return out
        a = self._self_attr(e)
        if a is not None:
            return [('many', a)]
        # getattr(self, '_children_list', [])
        if isinstance(e, ast.Call) and isinstance(e.func, ast.Name) and \
                e.func.id == 'getattr' and len(e.args) >= 2 and \
                isinstance(e.args[0], ast.Name) and e.args[0].id == 'self' \
                and isinstance(e.args[1], ast.Constant):
            return [('many', e.args[1].value)]
        raise AnalysisError('%s.children(): unsupported expression %s' % (
            owner, ast.unparse(e)))

    @staticmethod
    def _self_attr(x):
        if isinstance(x, ast.Attribute) and isinstance(
                x.value, ast.Name) and x.value.id == 'self':
            return x.attr
        return None
