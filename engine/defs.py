# -*- coding: utf-8 -*-
"""
E5 - model of the unparser definitions (the `definitions` dict literal of
unparsers/es5.py) as terms over the rule classes of ruletypes.py.

Term forms (class Term):
  kind='layout'  name              Format marks (Space, Newline, OpenBlock..)
  kind='struct'  name              Structure marks (PushScope, ...)
  kind='text'    value, pos        Text(value=..)
  kind='attr'    attr, deferrable, pos          Attr(..), CommentsAttr()
  kind='operator' attr | value, pos             Operator(..)
  kind='optional' attr, seq                      Optional(attr, (..))
  kind='join'    attr, deferrable, seq           JoinAttr(.., value=(..))
  kind='elisiontoken' attr, value, pos           ElisionToken(..)
  kind='elisionjoin'  attr, seq                  ElisionJoinAttr(..)

The semantics of the rule classes is *transcribed* (see semantics note in
DESIGN.md section 2); the transcription is guarded by structural digests of
the transcribed functions.
"""
from __future__ import annotations

import ast
import hashlib

from .common import AnalysisError
from .srcindex import CallTerm, Sym, Unfoldable

RULETYPES_MOD = 'calmjs.parse.ruletypes'
UNPARSER_MOD = 'calmjs.parse.unparsers.es5'
WALKER_MOD = 'calmjs.parse.unparsers.walker'

FORMAT_MARKS = ('OpenBlock', 'CloseBlock', 'EndStatement', 'Space',
                'OptionalSpace', 'RequiredSpace', 'Newline',
                'OptionalNewline', 'Indent', 'Dedent')
STRUCT_MARKS = ('PushScope', 'PopScope', 'PushCatch', 'PopCatch',
                'ResolveFuncName')


def structural_digest(node):
    """Digest of a function's normalised syntax tree: positions, docstrings
    and comments do not matter."""
    node = ast.parse(ast.unparse(node))

    class Strip(ast.NodeTransformer):
        def visit_FunctionDef(self, n):
            self.generic_visit(n)
            if n.body and isinstance(n.body[0], ast.Expr) and isinstance(
                    n.body[0].value, ast.Constant) and isinstance(
                    n.body[0].value.value, str):
                n.body = n.body[1:] or [ast.Pass()]
            return n
        visit_ClassDef = visit_FunctionDef
    node = Strip().visit(node)
    return hashlib.sha256(ast.dump(node).encode('utf8')).hexdigest()[:16]


class Term(object):

    def __init__(self, kind, **kw):
        self.kind = kind
        self.name = kw.get('name')
        self.attr = kw.get('attr')
        self.deferrable = kw.get('deferrable')
        self.value = kw.get('value')
        self.pos = kw.get('pos', 0)
        self.seq = kw.get('seq')
        self.cls = kw.get('cls')
        self.ordinal = None

    def __repr__(self):
        if self.kind in ('layout', 'struct'):
            return self.name
        if self.kind == 'text':
            return 'Text(%r)' % self.value
        bits = []
        if self.deferrable:
            bits.append('%s(%s)' % (self.deferrable, self.attr or ''))
        elif self.attr is not None:
            bits.append(repr(self.attr))
        if self.value is not None:
            bits.append('value=%r' % (self.value,))
        if self.seq is not None:
            bits.append('(%s)' % ', '.join(map(repr, self.seq)))
        return '%s(%s)' % (self.cls, ', '.join(bits))


class RuleClasses(object):
    """Class table of ruletypes.py"""

    def __init__(self, index):
        self.module = m = index.need(RULETYPES_MOD)
        self.bases = {}
        for name, node in m.classes.items():
            self.bases[name] = [b.id for b in node.bases
                                if isinstance(b, ast.Name)]
        for need in ('Token', 'Layout', 'Format', 'Structure', 'Deferrable',
                     'Attr', 'Text', 'Optional', 'JoinAttr', 'Operator'):
            if need not in self.bases:
                raise AnalysisError('ruletypes.%s vanished' % need)

    def mro(self, name):
        out = []
        todo = [name]
        while todo:
            n = todo.pop(0)
            if n in out or n not in self.bases:
                continue
            out.append(n)
            todo = self.bases[n] + todo
        return out

    def is_a(self, name, base):
        return base in self.mro(name)

    def method_owner(self, name, meth):
        for c in self.mro(name):
            for st in self.module.classes[c].body:
                if isinstance(st, ast.FunctionDef) and st.name == meth:
                    return c, st
        return None, None

    def digests(self):
        out = {}
        for cls in ('Attr', 'Text', 'JoinAttr', 'ElisionToken',
                    'ElisionJoinAttr', 'Optional', 'Operator', 'Declare',
                    'Resolve', 'Literal', 'Iter', 'CommentsAttr', 'Comment'):
            if cls not in self.module.classes:
                raise AnalysisError('ruletypes.%s vanished' % cls)
            out['ruletypes.' + cls] = structural_digest(
                self.module.classes[cls])
        if 'is_empty' not in self.module.functions:
            raise AnalysisError('ruletypes.is_empty vanished')
        out['ruletypes.is_empty'] = structural_digest(
            self.module.functions['is_empty'])
        return out


# digests of the functions whose semantics is transcribed in this file and
# in engine/layout.py.  A mismatch is ANALYSIS-ERROR (exit 2): the model
# must be re-audited; it is neither a pass nor a violation.
EXPECTED_DIGESTS = {}


def check_digests(actual, expected, what):
    bad = []
    for k, v in sorted(expected.items()):
        if actual.get(k) != v:
            bad.append('%s (expected %s, found %s)' % (k, v, actual.get(k)))
    if bad:
        raise AnalysisError(
            'the %s transcribed by the analysis changed: %s - re-audit the '
            'model in /verif/engine before trusting any verdict' % (
                what, '; '.join(bad)))


class Definitions(object):

    def __init__(self, index, module=UNPARSER_MOD, name='definitions'):
        self.rc = RuleClasses(index)
        self.module = m = index.need(module)
        try:
            raw = m.fold_name(name)
        except Unfoldable as e:
            raise AnalysisError('cannot fold %s.%s: %s' % (module, name, e))
        if not isinstance(raw, dict):
            raise AnalysisError('%s.%s is not a dict literal' % (
                module, name))
        self.defs = {}
        for k, v in raw.items():
            if not isinstance(k, str) or not isinstance(v, tuple):
                raise AnalysisError('definition %r is not str -> tuple' % (k,))
            counter = [0]
            self.defs[k] = self.seq(v, k, counter)

    def seq(self, items, defname, counter):
        out = []
        for it in items:
            t = self.term(it, defname, counter)
            out.append(t)
        return out

    def term(self, it, defname, counter):
        rc = self.rc
        if isinstance(it, Sym):
            n = it.name
            if n in rc.bases and rc.is_a(n, 'Structure'):
                return Term('struct', name=n)
            if n in rc.bases and rc.is_a(n, 'Layout'):
                return Term('layout', name=n)
            raise AnalysisError('definition %s: unknown mark %s' % (
                defname, n))
        if not isinstance(it, CallTerm):
            raise AnalysisError('definition %s: unsupported rule %r' % (
                defname, it))
        cls = it.func.name
        if cls not in rc.bases or not rc.is_a(cls, 'Token'):
            raise AnalysisError('definition %s: %s is not a Token class' % (
                defname, cls))
        # Token.__init__(self, attr=None, value=None, pos=0);
        # CommentsAttr.__init__(self, attr='comments', value=None, pos=0)
        names = ['attr', 'value', 'pos']
        kw = {'attr': 'comments' if cls == 'CommentsAttr' else None,
              'value': None, 'pos': 0}
        if len(it.args) > 3:
            raise AnalysisError('definition %s: too many arguments' % defname)
        for n, v in zip(names, it.args):
            kw[n] = v
        for k, v in it.kwargs.items():
            if k not in names:
                raise AnalysisError('definition %s: unknown argument %s' % (
                    defname, k))
            kw[k] = v
        attr = kw['attr']
        deferrable = None
        if isinstance(attr, CallTerm):
            dn = attr.func.name
            if dn not in rc.bases or not rc.is_a(dn, 'Deferrable'):
                raise AnalysisError(
                    'definition %s: %s is not a Deferrable' % (defname, dn))
            deferrable = dn
            dargs = list(attr.args) + list(attr.kwargs.values())
            attr = dargs[0] if dargs else None
        elif attr is not None and not isinstance(attr, str):
            raise AnalysisError('definition %s: bad attr %r' % (
                defname, attr))
        value = kw['value']
        seq = None
        if isinstance(value, tuple):
            seq = self.seq(value, defname, counter)
            value = None
        if rc.is_a(cls, 'ElisionJoinAttr'):
            kind = 'elisionjoin'
        elif rc.is_a(cls, 'ElisionToken'):
            kind = 'elisiontoken'
        elif rc.is_a(cls, 'JoinAttr'):
            kind = 'join'
        elif rc.is_a(cls, 'Operator'):
            kind = 'operator'
        elif rc.is_a(cls, 'Attr'):
            kind = 'attr'
        elif rc.is_a(cls, 'Optional'):
            kind = 'optional'
        elif rc.is_a(cls, 'Text'):
            kind = 'text'
        else:
            raise AnalysisError('definition %s: unsupported Token class %s'
                                % (defname, cls))
        t = Term(kind, attr=attr, deferrable=deferrable, value=value,
                 pos=kw['pos'], seq=seq, cls=cls)
        counter[0] += 1
        t.ordinal = counter[0]
        return t

    def walk_terms(self, defname):
        def rec(seq):
            for t in seq:
                yield t
                if t.seq:
                    for x in rec(t.seq):
                        yield x
        return rec(self.defs[defname])
