# -*- coding: utf-8 -*-
"""
Lexer automata: every token rule of lexers/es5.Lexer compiled to a DFA over
a common atom alphabet, in ply's rule order, with the queries used by the
checks (language comparison, ordered-choice vs longest match, fusion).
"""
from __future__ import annotations

import re

from .common import AnalysisError
from .rx import (Alphabet, CharSet, Compiled, MAXCH, category_set,
                 equivalent, includes, parse, tree_sets)

# ECMA-262 5.1 reference facts -----------------------------------------

ES5_LINE_TERMINATORS = '\n\r\u2028\u2029'
ES5_WHITESPACE_FIXED = '\t\x0b\x0c \xa0\ufeff'
# category Zs (Unicode 5.1+; ES5 says "any other Unicode space separator")
ES5_ZS = ' \xa0\u1680\u2000\u2001\u2002\u2003\u2004\u2005\u2006\u2007' \
    '\u2008\u2009\u200a\u202f\u205f\u3000'
# U+180E was Zs up to Unicode 6.2; accepted either way
ES5_ZS_OPTIONAL = '\u180e'

REF_LINE_TERMINATOR_SEQ = r'(?:\n|\r\n|\r|\u2028|\u2029)'
REF_LINE_COMMENT = r'//[^\n\r\u2028\u2029]*'
# MultiLineComment: /* chars */ where the body does not contain */
REF_BLOCK_COMMENT = r'/\*(?:[^*]|\*+[^*/])*\*+/'
REF_LINE_CONTINUATION = r'\\(?:\n|\r\n|\r|\u2028|\u2029)'


class LexAutomata(object):

    def __init__(self, lexmodel, extra_patterns=(), extra_sets=()):
        self.lm = lexmodel
        self.flags = re.VERBOSE     # ply compiles token rules with VERBOSE
        sets = []
        self.trees = {}
        for r in lexmodel.rules:
            tree = parse(r.pattern, self.flags)
            self.trees[r.name] = tree
            tree_sets(tree, self.flags, sets)
        for pat, fl in extra_patterns:
            tree_sets(parse(pat, fl), fl, sets)
        for ref in (REF_LINE_TERMINATOR_SEQ, REF_LINE_COMMENT,
                    REF_BLOCK_COMMENT, REF_LINE_CONTINUATION):
            tree_sets(parse(ref, 0), 0, sets)
        for state, ign in lexmodel.ignore.items():
            sets.append(CharSet.of(ign))
        sets.append(CharSet.of(ES5_LINE_TERMINATORS))
        sets.append(CharSet.of(ES5_WHITESPACE_FIXED + ES5_ZS))
        for ch in ES5_LINE_TERMINATORS + ES5_ZS + ES5_ZS_OPTIONAL + \
                ES5_WHITESPACE_FIXED:
            sets.append(CharSet.of(ch))
        for name in ('word', 'space', 'digit'):
            sets.append(category_set(name))
        for s in extra_sets:
            sets.append(s)
        # punctuation characters one by one: they are token boundaries
        for o in range(0x21, 0x7f):
            sets.append(CharSet([(o, o)]))
        self.alpha = Alphabet(sets)
        self.compiled = {}
        for r in lexmodel.rules:
            self.compiled[r.name] = Compiled(r.pattern, self.flags,
                                             self.alpha)

        self._reps = None

    def atom_classes(self, extra_sets=()):
        """equivalence classes of atoms that no rule automaton and none of
        the given character sets distinguishes; one representative each"""
        sig = {}
        dfas = [c.dfa for c in self.compiled.values()]
        for a in range(self.alpha.n):
            key = []
            for d in dfas:
                key.append(tuple(t.get(a) for t in d.trans))
            for s in extra_sets:
                key.append(a in s)
            sig.setdefault(tuple(key), []).append(a)
        return sorted(sig.values())

    def compile(self, pattern, flags=0):
        return Compiled(pattern, flags, self.alpha)

    def dfa(self, rule):
        return self.compiled[rule.name].dfa

    def ordered(self, state='INITIAL'):
        return self.lm.ordered(state)

    def ignore_atoms(self, state='INITIAL'):
        return self.alpha.atoms_of(CharSet.of(self.lm.ignore.get(state, '')))

    # ------------------------------------------------------------------

    def extension(self, ruleR, dfaA, dfaB, x=None, y=None,
                  lookahead_ok=None):
        """Is there a in L(A) (ending in atom x), b in L(B) (starting with
        atom y) and w such that rule R matches a prefix of a.b.w that is
        longer than a?  Returns a witness (a atoms, b atoms, extra atoms)
        or None.

        Product exploration:  phase A: (qR, qA) over the atoms of a;
        phase B: (qR, qB) over the atoms of b; phase W: qR over arbitrary
        atoms.  Success: qR accepting in phase B (after >= 1 atom) or W.
        """
        from collections import deque
        R = ruleR
        n = self.alpha.n
        # phase A
        startA = ('A', R.start, dfaA.start, None)
        seen = {startA: None}
        dq = deque([startA])
        ends = []
        liveA = dfaA.live()
        while dq:
            st = dq.popleft()
            _, qr, qa, last = st
            if qa in dfaA.accept and (x is None or last == x) and \
                    last is not None:
                ends.append(st)
            for a, na in dfaA.trans[qa].items():
                if na not in liveA:
                    continue
                nr = R.step(qr, a)
                nst = ('A', nr, na, a if x is not None else 0)
                if nst not in seen:
                    seen[nst] = (st, a)
                    dq.append(nst)
        # phase B / W
        liveR = R.live()
        liveB = dfaB.live()
        dq = deque()
        for st in ends:
            _, qr, qa, last = st
            if qr is None or qr not in liveR:
                continue
            nst = ('B0', qr, dfaB.start, st)
            if nst not in seen:
                seen[nst] = (st, None)
                dq.append(nst)
        while dq:
            st = dq.popleft()
            tag, qr, qb, origin = st
            if tag in ('B', 'W') and qr in R.accept:
                return self._witness(seen, st)
            if tag in ('B0', 'B'):
                for a, nb in dfaB.trans[qb].items():
                    if nb not in liveB:
                        continue
                    if tag == 'B0' and y is not None and a != y:
                        continue
                    nr = R.step(qr, a)
                    if nr is None or nr not in liveR:
                        continue
                    nst = ('B', nr, nb, None)
                    if nst not in seen:
                        seen[nst] = (st, a)
                        dq.append(nst)
                if tag == 'B' and qb in dfaB.accept:
                    nst = ('W', qr, None, None)
                    if nst not in seen:
                        seen[nst] = (st, None)
                        dq.append(nst)
            elif tag == 'W':
                for a, nr in R.trans[qr].items():
                    if nr not in liveR:
                        continue
                    nst = ('W', nr, None, None)
                    if nst not in seen:
                        seen[nst] = (st, a)
                        dq.append(nst)
        return None

    def _witness(self, seen, st):
        parts = {'A': [], 'B': [], 'W': []}
        cur = st
        while seen[cur] is not None:
            prev, a = seen[cur]
            if a is not None:
                tag = cur[0]
                parts[tag if tag in parts else 'B'].append(a)
            cur = prev
        return (parts['A'][::-1], parts['B'][::-1], parts['W'][::-1])

    def show(self, witness):
        a, b, w = witness
        return '%s|%s%s' % (self.alpha.word(a), self.alpha.word(b),
                            ('|' + self.alpha.word(w)) if w else '')
