# -*- coding: utf-8 -*-
"""
E9 (effects part) - write-site enumeration and classification.

A *write site* is an attribute / subscript store, an augmented assignment
or `del` on such a target, a call of a mutator method, or setattr/delattr.
Each site is classified by the *root* of its base expression in the scope
of the enclosing function:

  self        the receiver of the enclosing method
  fresh       a local (or enclosing-function local) bound only to objects
              created in the same activation (literals, comprehensions,
              constructor calls)
  param       a parameter (or a local derived from one by attribute /
              subscript / iteration / call) - may alias caller data
  global      a module level name or Class.attr
"""
from __future__ import annotations

import ast

MUTATORS = {
    'append', 'extend', 'update', 'pop', 'insert', 'sort', 'clear',
    'setdefault', 'remove', 'add', 'discard', 'reverse', 'popitem',
    '__setitem__', '__delitem__', 'appendleft', 'popleft',
}
FRESH_CALLS = {'dict', 'list', 'set', 'defaultdict', 'OrderedDict', 'tuple',
               'frozenset', 'sorted', 'reversed', 'iter', 'chain', 'zip',
               'enumerate', 'count', 'product', 'range', 'str', 'repr',
               'len', 'bool', 'int'}


class WriteSite(object):
    __slots__ = ('func', 'cls', 'node', 'kind', 'base', 'root', 'rootkind',
                 'text', 'attr', 'module', 'closure')

    def __init__(self, **kw):
        for k in self.__slots__:
            setattr(self, k, kw.get(k))

    @property
    def where(self):
        return '%s:%s%s (line %s)' % (
            self.module, (self.cls + '.') if self.cls else '', self.func,
            self.node.lineno)

    def __repr__(self):
        return '<%s %s %s root=%s/%s>' % (
            self.kind, self.text, self.where, self.root, self.rootkind)


def root_name(expr):
    """the Name at the root of an attribute/subscript/call chain"""
    e = expr
    while True:
        if isinstance(e, ast.Attribute):
            e = e.value
        elif isinstance(e, ast.Subscript):
            e = e.value
        elif isinstance(e, ast.Call):
            # x.y(...).z = ...: root is the call result: treat via func base
            if isinstance(e.func, ast.Attribute):
                e = e.func.value
            else:
                return None
        elif isinstance(e, ast.Name):
            return e.id
        else:
            return None


class FunctionScope(object):
    """names of one function: params, locals with their binding kinds"""

    def __init__(self, fdef, parent=None, clsname=None, per_call_classes=()):
        self.fdef = fdef
        self.parent = parent
        self.clsname = clsname
        self.per_call = set(per_call_classes)
        a = fdef.args
        self.params = [x.arg for x in a.posonlyargs + a.args + a.kwonlyargs]
        # *args / **kwargs are containers created for this activation
        self.star_params = []
        if a.vararg:
            self.star_params.append(a.vararg.arg)
        if a.kwarg:
            self.star_params.append(a.kwarg.arg)
        self.bindings = {}     # local name -> list of value nodes / markers
        self.globals_decl = set()
        self.nonlocals_decl = set()
        self._collect(fdef)
        self._kinds = {}

    def _own_nodes(self, fdef):
        """walk without descending into nested function/class definitions"""
        todo = list(fdef.body)
        while todo:
            n = todo.pop()
            yield n
            for c in ast.iter_child_nodes(n):
                if isinstance(c, (ast.FunctionDef, ast.AsyncFunctionDef,
                                  ast.ClassDef, ast.Lambda)):
                    if isinstance(c, (ast.FunctionDef, ast.ClassDef)):
                        self.bindings.setdefault(c.name, []).append('def')
                    continue
                todo.append(c)

    def _bind_target(self, t, value):
        if isinstance(t, ast.Name):
            self.bindings.setdefault(t.id, []).append(value)
        elif isinstance(t, (ast.Tuple, ast.List)):
            for e in t.elts:
                self._bind_target(e, ('unpack', value))
        elif isinstance(t, ast.Starred):
            self._bind_target(t.value, ('unpack', value))

    def _collect(self, fdef):
        for st in fdef.body:
            if isinstance(st, (ast.FunctionDef, ast.ClassDef)):
                self.bindings.setdefault(st.name, []).append('def')
        for n in self._own_nodes(fdef):
            if isinstance(n, ast.Assign):
                for t in n.targets:
                    self._bind_target(t, n.value)
            elif isinstance(n, ast.AugAssign):
                if isinstance(n.target, ast.Name):
                    self.bindings.setdefault(n.target.id, []).append(
                        ('aug', n.value))
            elif isinstance(n, ast.AnnAssign) and n.value is not None:
                self._bind_target(n.target, n.value)
            elif isinstance(n, ast.For):
                self._bind_target(n.target, ('iter', n.iter))
            elif isinstance(n, ast.With):
                for item in n.items:
                    if item.optional_vars is not None:
                        self._bind_target(item.optional_vars,
                                          item.context_expr)
            elif isinstance(n, ast.ExceptHandler) and n.name:
                self.bindings.setdefault(n.name, []).append('exc')
            elif isinstance(n, ast.Global):
                self.globals_decl.update(n.names)
            elif isinstance(n, ast.Nonlocal):
                self.nonlocals_decl.update(n.names)
            elif isinstance(n, (ast.ListComp, ast.SetComp, ast.DictComp,
                                ast.GeneratorExp)):
                pass
            elif isinstance(n, ast.NamedExpr):
                self._bind_target(n.target, n.value)

    # ------------------------------------------------------------------

    def owner_of_name(self, name):
        """the FunctionScope in which the name is bound (None: module)"""
        if name in self.globals_decl:
            return None
        if (name in self.params or name in self.star_params or
                name in self.bindings) and name not in self.nonlocals_decl:
            return self
        if self.parent is not None:
            return self.parent.owner_of_name(name)
        return None

    def kind_of_name(self, name, depth=0):
        """'self' | 'fresh' | 'param' | 'global' | 'scalar'"""
        key = name
        if key in self._kinds:
            return self._kinds[key]
        self._kinds[key] = 'param'     # cycle guard: conservative
        k = self._kind_of_name(name, depth)
        self._kinds[key] = k
        return k

    def _kind_of_name(self, name, depth):
        if name in self.globals_decl:
            return 'global'
        if name in self.star_params and name not in self.bindings:
            return 'fresh'
        if name in self.params and name not in self.bindings:
            if self.params and name == self.params[0] and self.clsname and \
                    name in ('self', 'cls', '_cls'):
                return 'self'
            return 'param'
        if name in self.bindings and name not in self.nonlocals_decl:
            kinds = set()
            if name in self.params:
                kinds.add('param')
            for v in self.bindings[name]:
                kinds.add(self.kind_of_value(v, depth + 1))
            if kinds <= {'fresh', 'scalar'}:
                return 'fresh'
            for k in ('global', 'param', 'self'):
                if k in kinds:
                    return k
            return 'param'
        if self.parent is not None:
            return self.parent.kind_of_name(name, depth)
        return 'global'

    def kind_of_value(self, v, depth=0):
        if depth > 20:
            return 'param'
        if v == 'def' or v == 'exc':
            return 'fresh'
        if isinstance(v, tuple):
            tag, inner = v
            if tag == 'aug':
                return 'fresh'
            k = self.kind_of_value(inner, depth + 1)
            # elements of a fresh container built from tainted parts are
            # not tracked: unpacking / iterating is as tainted as its source
            if tag in ('unpack', 'iter'):
                if isinstance(inner, ast.AST) and isinstance(
                        inner, (ast.Call,)) and self._call_kind(
                            inner, depth) == 'fresh' and not self._call_args_tainted(inner, depth):
                    return 'fresh'
                return k if k != 'fresh' else self._elements_kind(
                    inner, depth)
            return k
        if isinstance(v, (ast.List, ast.Dict, ast.Set, ast.ListComp,
                          ast.SetComp, ast.DictComp, ast.GeneratorExp,
                          ast.JoinedStr)):
            return 'fresh'
        if isinstance(v, ast.Tuple):
            return 'fresh'
        if isinstance(v, ast.Constant):
            return 'scalar'
        if isinstance(v, (ast.BinOp, ast.BoolOp, ast.Compare, ast.UnaryOp)):
            if isinstance(v, ast.BoolOp):
                ks = {self.kind_of_value(x, depth + 1) for x in v.values}
                if ks <= {'fresh', 'scalar'}:
                    return 'fresh'
                for k in ('global', 'param', 'self'):
                    if k in ks:
                        return k
            return 'fresh'
        if isinstance(v, ast.IfExp):
            ks = {self.kind_of_value(v.body, depth + 1),
                  self.kind_of_value(v.orelse, depth + 1)}
            if ks <= {'fresh', 'scalar'}:
                return 'fresh'
            for k in ('global', 'param', 'self'):
                if k in ks:
                    return k
            return 'param'
        if isinstance(v, ast.Name):
            return self.kind_of_name(v.id, depth + 1)
        if isinstance(v, (ast.Attribute, ast.Subscript)):
            r = root_name(v)
            if r is None:
                return 'param'
            k = self.kind_of_name(r, depth + 1)
            return k
        if isinstance(v, ast.Call):
            return self._call_kind(v, depth)
        if isinstance(v, ast.Lambda):
            return 'fresh'
        return 'param'

    def _elements_kind(self, inner, depth):
        # elements of a literal list/tuple of expressions
        if isinstance(inner, (ast.List, ast.Tuple)):
            ks = {self.kind_of_value(e, depth + 1) for e in inner.elts}
            if ks <= {'fresh', 'scalar'}:
                return 'fresh'
            for k in ('global', 'param', 'self'):
                if k in ks:
                    return k
        return 'param'

    def _call_args_tainted(self, call, depth):
        for a in list(call.args) + [k.value for k in call.keywords]:
            if self.kind_of_value(a, depth + 1) not in ('fresh', 'scalar'):
                return True
        return False

    def _call_kind(self, call, depth):
        f = call.func
        if isinstance(f, ast.Name):
            if f.id in FRESH_CALLS:
                # a fresh container; its *elements* may alias the arguments
                return 'fresh'
            if f.id in ('getattr', 'next'):
                if call.args:
                    return self.kind_of_value(call.args[0], depth + 1)
                return 'param'
            if f.id[:1].isupper() or f.id in ('type',):
                return 'fresh'      # constructor call
            return 'param'          # unknown function result
        if isinstance(f, ast.Attribute):
            if f.attr in ('copy', 'keys', 'values', 'items', 'split',
                          'join', 'format', 'strip', 'replace', 'lower',
                          'sub', 'group'):
                return 'fresh'
            if f.attr[:1].isupper():
                return 'fresh'      # self.asttypes.X(...) style constructor
            r = root_name(f.value)
            if r is None:
                return 'param'
            return self.kind_of_name(r, depth + 1)
        if isinstance(f, ast.Call):
            # type(self)(...)
            return 'fresh'
        return 'param'


def iter_functions(module):
    """yield (clsname, fdef, parent_scope_chain) for every function of the
    module, nested ones included"""
    def rec(body, clsname, chain):
        for st in body:
            if isinstance(st, ast.ClassDef):
                for x in rec(st.body, st.name, chain):
                    yield x
            elif isinstance(st, (ast.FunctionDef, ast.AsyncFunctionDef)):
                yield clsname, st, chain
                for x in rec_nested(st, clsname, chain + [(clsname, st)]):
                    yield x

    def rec_nested(fdef, clsname, chain):
        todo = list(fdef.body)
        while todo:
            n = todo.pop(0)
            if isinstance(n, (ast.FunctionDef, ast.AsyncFunctionDef)):
                yield None, n, chain
                for x in rec_nested(n, None, chain + [(None, n)]):
                    yield x
            elif isinstance(n, ast.ClassDef):
                for x in rec(n.body, n.name, chain):
                    yield x
            else:
                todo = list(ast.iter_child_nodes(n)) + todo
    return rec(module.tree.body, None, [])


def build_scope(clsname, fdef, chain):
    parent = None
    for c, f in chain:
        parent = FunctionScope(f, parent, c)
    return FunctionScope(fdef, parent, clsname)


def own_nodes(fdef):
    """all nodes of the function body, not descending into nested defs"""
    todo = [n for n in fdef.body if not isinstance(
        n, (ast.FunctionDef, ast.AsyncFunctionDef, ast.ClassDef))]
    while todo:
        n = todo.pop(0)
        yield n
        for c in ast.iter_child_nodes(n):
            if isinstance(c, (ast.FunctionDef, ast.AsyncFunctionDef,
                              ast.ClassDef, ast.Lambda)):
                continue
            todo.append(c)


def escapes(fdef, parent, _seen=None):
    """the nested function is used by its enclosing function other than
    as the callee of a direct call (returned, stored, passed on): it can
    be called after the activation that created it has returned"""
    called = set()
    for n in own_nodes(parent):
        if isinstance(n, ast.Call) and isinstance(n.func, ast.Name):
            called.add(id(n.func))
    for n in own_nodes(parent):
        if isinstance(n, ast.Name) and n.id == fdef.name and isinstance(
                n.ctx, ast.Load) and id(n) not in called:
            return True
    # ... or it is used (called included) by another nested function that
    # itself outlives the activation
    _seen = _seen if _seen is not None else set()
    _seen.add(id(fdef))
    inside = set(id(x) for x in ast.walk(fdef))

    def nested(owner):
        todo = list(owner.body) if isinstance(owner.body, list) else []
        while todo:
            n = todo.pop(0)
            if isinstance(n, ast.FunctionDef):
                yield owner, n
                for pair in nested(n):
                    yield pair
                continue
            if isinstance(n, (ast.ClassDef, ast.Lambda)):
                continue
            todo.extend(ast.iter_child_nodes(n))
    for gparent, g in nested(parent):
        if id(g) in inside or id(g) in _seen or isinstance(g, ast.Lambda):
            continue
        if any(isinstance(x, ast.Name) and x.id == fdef.name and isinstance(
                x.ctx, ast.Load) for x in ast.walk(g)):
            if escapes(g, gparent, _seen):
                return True
    return False


def write_sites(module):
    """all write sites of all functions of a module; `closure` names the
    enclosing function owning the written object when the writer is a
    nested function that outlives that activation"""
    out = []
    for clsname, fdef, chain in iter_functions(module):
        scope = build_scope(clsname, fdef, chain)
        owner_cls = clsname
        if owner_cls is None:
            for c, f in reversed(chain):
                if c:
                    owner_cls = c
                    break
        for n in own_nodes(fdef):
            sites = []
            if isinstance(n, ast.Assign):
                for t in n.targets:
                    for tt in (t.elts if isinstance(t, (ast.Tuple, ast.List))
                               else [t]):
                        if isinstance(tt, (ast.Attribute, ast.Subscript)):
                            sites.append(('store', tt.value, tt))
            elif isinstance(n, ast.AugAssign):
                if isinstance(n.target, (ast.Attribute, ast.Subscript)):
                    sites.append(('augstore', n.target.value, n.target))
            elif isinstance(n, ast.Delete):
                for t in n.targets:
                    if isinstance(t, (ast.Attribute, ast.Subscript)):
                        sites.append(('del', t.value, t))
            elif isinstance(n, ast.Call):
                if isinstance(n.func, ast.Attribute) and \
                        n.func.attr in MUTATORS:
                    sites.append(('mutcall', n.func.value, n))
                elif isinstance(n.func, ast.Name) and n.func.id in (
                        'setattr', 'delattr') and n.args:
                    sites.append((n.func.id, n.args[0], n))
                elif isinstance(n.func, ast.Name) and n.func.id == 'next' \
                        and n.args:
                    sites.append(('next', n.args[0], n))
            elif isinstance(n, (ast.Global, ast.Nonlocal)):
                out.append(WriteSite(
                    func=fdef.name, cls=owner_cls, node=n,
                    kind=type(n).__name__.lower(), base=None,
                    root=','.join(n.names), rootkind='global',
                    text=ast.unparse(n), module=module.name))
            for kind, base, node in sites:
                r = root_name(base)
                btext = ast.unparse(base)
                if 'type(' in btext or '__class__' in btext:
                    # type(self).x = ... / self.__class__.x = ...
                    r, rk = btext, 'global'
                elif r is None:
                    rk = scope.kind_of_value(base)
                else:
                    rk = scope.kind_of_name(r)
                attr = None
                if isinstance(node, ast.Attribute):
                    attr = node.attr
                closure = None
                if r is not None and rk in ('fresh', 'scalar') and chain:
                    owner = scope.owner_of_name(r)
                    if owner is not None and owner is not scope and \
                            escapes(fdef, chain[-1][1]):
                        closure = owner.fdef.name
                out.append(WriteSite(
                    func=fdef.name, cls=owner_cls, node=n, kind=kind,
                    base=base, root=r, rootkind=rk,
                    text=ast.unparse(node)[:90], attr=attr,
                    module=module.name, closure=closure))
    return out


def self_attr_stores(fdef):
    """{attribute: [value nodes]} for the stores a function makes on its
    `self`: `self.a = v`, `self.a = self.b = v`, `setattr(self, 'a', v)`
    and `for n in ('a', 'b'): setattr(self, n, v)`"""
    out = {}
    loops = {}      # loop variable -> constant strings it ranges over
    for n in ast.walk(fdef):
        if isinstance(n, ast.For) and isinstance(n.target, ast.Name) and \
                isinstance(n.iter, (ast.Tuple, ast.List, ast.Set)) and all(
                    isinstance(e, ast.Constant) and isinstance(e.value, str)
                    for e in n.iter.elts):
            loops[n.target.id] = [e.value for e in n.iter.elts]
    for n in ast.walk(fdef):
        if isinstance(n, ast.Assign):
            for t in n.targets:
                for tt in (t.elts if isinstance(t, (ast.Tuple, ast.List))
                           else [t]):
                    if isinstance(tt, ast.Attribute) and isinstance(
                            tt.value, ast.Name) and tt.value.id == 'self':
                        out.setdefault(tt.attr, []).append(
                            n.value if tt is t else None)
        elif isinstance(n, (ast.AugAssign, ast.AnnAssign)) and isinstance(
                n.target, ast.Attribute) and isinstance(
                n.target.value, ast.Name) and n.target.value.id == 'self':
            out.setdefault(n.target.attr, []).append(
                getattr(n, 'value', None))
        elif isinstance(n, ast.Call) and isinstance(n.func, ast.Name) and \
                n.func.id == 'setattr' and len(n.args) == 3 and isinstance(
                n.args[0], ast.Name) and n.args[0].id == 'self':
            key = n.args[1]
            if isinstance(key, ast.Constant) and isinstance(key.value, str):
                out.setdefault(key.value, []).append(n.args[2])
            elif isinstance(key, ast.Name) and key.id in loops:
                for name in loops[key.id]:
                    out.setdefault(name, []).append(n.args[2])
    return out

