# -*- coding: utf-8 -*-
"""
E8 - regular expressions as automata.

The regex *source* (folded from the repository) is parsed with CPython's
own front end (re._parser); the syntax tree is turned into an NFA over
*atoms* (the coarsest partition of Unicode that respects every character
set occurring in any analysed regex or constant) and determinised.  All
queries (language equality, inclusion, extension / fusion) are decided on
the automata.  No regex is ever applied to an input here.

Supported constructs: literals, classes (ranges, negation, \\w \\s \\d and
their complements), `.`, alternation, groups, greedy / lazy bounded and
unbounded repeats, and look-ahead assertions *at the end of an alternative
or of the whole pattern* (returned separately as context).  Anything else
raises AnalysisError.
"""
from __future__ import annotations

import re
import re._constants as C
import re._parser as P

from .common import AnalysisError

MAXCH = 0x10FFFF


# ----------------------------------------------------------------------
# character sets as sorted disjoint closed intervals

class CharSet(object):
    __slots__ = ('iv',)

    def __init__(self, iv=()):
        self.iv = self._norm(iv)

    @staticmethod
    def _norm(iv):
        iv = sorted((lo, hi) for lo, hi in iv if lo <= hi)
        out = []
        for lo, hi in iv:
            if out and lo <= out[-1][1] + 1:
                if hi > out[-1][1]:
                    out[-1] = (out[-1][0], hi)
            else:
                out.append((lo, hi))
        return tuple(out)

    @classmethod
    def of(cls, chars):
        return cls([(ord(c), ord(c)) for c in chars])

    def union(self, other):
        return CharSet(self.iv + other.iv)

    def complement(self):
        out = []
        prev = 0
        for lo, hi in self.iv:
            if lo > prev:
                out.append((prev, lo - 1))
            prev = hi + 1
        if prev <= MAXCH:
            out.append((prev, MAXCH))
        return CharSet(out)

    def intersect(self, other):
        return self.complement().union(other.complement()).complement()

    def minus(self, other):
        return self.intersect(other.complement())

    def __contains__(self, ch):
        o = ord(ch) if isinstance(ch, str) else ch
        for lo, hi in self.iv:
            if lo <= o <= hi:
                return True
        return False

    def __bool__(self):
        return bool(self.iv)

    def __eq__(self, other):
        return isinstance(other, CharSet) and self.iv == other.iv

    def __hash__(self):
        return hash(self.iv)

    def size(self):
        return sum(hi - lo + 1 for lo, hi in self.iv)

    def sample(self):
        return chr(self.iv[0][0])

    def chars(self, limit=40):
        out = []
        for lo, hi in self.iv:
            for o in range(lo, hi + 1):
                out.append(chr(o))
                if len(out) >= limit:
                    return out
        return out

    def __repr__(self):
        parts = []
        for lo, hi in self.iv[:6]:
            parts.append('%04X' % lo if lo == hi else '%04X-%04X' % (lo, hi))
        if len(self.iv) > 6:
            parts.append('...(%d ranges)' % len(self.iv))
        return '[' + ' '.join(parts) + ']'


_CAT_CACHE = {}


def category_set(name):
    if name in _CAT_CACHE:
        return _CAT_CACHE[name]
    if name in ('word', 'space', 'digit'):
        pred = {'word': lambda c: c.isalnum() or c == '_',
                'space': lambda c: c.isspace(),
                'digit': lambda c: c.isdecimal()}[name]
        iv = []
        start = None
        for o in range(MAXCH + 1):
            if 0xD800 <= o <= 0xDFFF:
                ok = False
            else:
                ok = pred(chr(o))
            if ok and start is None:
                start = o
            elif not ok and start is not None:
                iv.append((start, o - 1))
                start = None
        if start is not None:
            iv.append((start, MAXCH))
        cs = CharSet(iv)
    else:
        raise AnalysisError('unsupported regex category %s' % name)
    _CAT_CACHE[name] = cs
    return cs


CATEGORIES = {
    C.CATEGORY_DIGIT: ('digit', False), C.CATEGORY_NOT_DIGIT: ('digit', True),
    C.CATEGORY_SPACE: ('space', False), C.CATEGORY_NOT_SPACE: ('space', True),
    C.CATEGORY_WORD: ('word', False), C.CATEGORY_NOT_WORD: ('word', True),
}

LINEBREAK = CharSet.of('\n')


def in_to_set(items):
    cs = CharSet()
    negate = False
    for op, av in items:
        if op is C.NEGATE:
            negate = True
        elif op is C.LITERAL:
            cs = cs.union(CharSet([(av, av)]))
        elif op is C.RANGE:
            cs = cs.union(CharSet([(av[0], av[1])]))
        elif op is C.CATEGORY:
            if av not in CATEGORIES:
                raise AnalysisError('unsupported category %s' % av)
            name, neg = CATEGORIES[av]
            s = category_set(name)
            cs = cs.union(s.complement() if neg else s)
        else:
            raise AnalysisError('unsupported class item %s' % (op,))
    return cs.complement() if negate else cs


def parse(pattern, flags=0):
    try:
        return P.parse(pattern, flags)
    except Exception as e:
        raise AnalysisError('cannot parse regex %r: %s' % (pattern[:40], e))


def tree_sets(tree, flags=0, out=None):
    """all character sets occurring in a parsed regex"""
    if out is None:
        out = []
    for op, av in tree:
        if op is C.LITERAL:
            out.append(CharSet([(av, av)]))
        elif op is C.NOT_LITERAL:
            out.append(CharSet([(av, av)]).complement())
        elif op is C.IN:
            out.append(in_to_set(av))
        elif op is C.ANY:
            out.append(CharSet([(0, MAXCH)]) if flags & re.S
                       else LINEBREAK.complement())
        elif op is C.BRANCH:
            for alt in av[1]:
                tree_sets(alt, flags, out)
        elif op is C.SUBPATTERN:
            tree_sets(av[3], flags, out)
        elif op in (C.MAX_REPEAT, C.MIN_REPEAT):
            tree_sets(av[2], flags, out)
        elif op in (C.ASSERT, C.ASSERT_NOT):
            tree_sets(av[1], flags, out)
        elif op is C.AT:
            pass
        else:
            raise AnalysisError('unsupported regex construct %s' % (op,))
    return out


class Alphabet(object):
    """atoms = classes of code points with identical membership in every
    registered set"""

    def __init__(self, sets):
        sets = list(dict.fromkeys(sets))
        self.sets = sets
        bounds = {0, MAXCH + 1}
        for s in sets:
            for lo, hi in s.iv:
                bounds.add(lo)
                bounds.add(hi + 1)
        bounds = sorted(bounds)
        # signature of each elementary interval
        starts = {}
        for si, s in enumerate(sets):
            for lo, hi in s.iv:
                starts.setdefault(lo, []).append((si, +1))
                starts.setdefault(hi + 1, []).append((si, -1))
        active = set()
        groups = {}
        for i in range(len(bounds) - 1):
            lo = bounds[i]
            for si, d in starts.get(lo, ()):
                if d > 0:
                    active.add(si)
                else:
                    active.discard(si)
            sig = frozenset(active)
            groups.setdefault(sig, []).append((lo, bounds[i + 1] - 1))
        self.atoms = []
        self.sig = []
        for sig, iv in sorted(groups.items(), key=lambda kv: kv[1][0]):
            self.atoms.append(CharSet(iv))
            self.sig.append(sig)
        self._set_atoms = {}
        for si, s in enumerate(sets):
            self._set_atoms[s] = frozenset(
                ai for ai, sig in enumerate(self.sig) if si in sig)
        self.n = len(self.atoms)

    def atoms_of(self, cs):
        if cs in self._set_atoms:
            return self._set_atoms[cs]
        out = set()
        for ai, a in enumerate(self.atoms):
            inter = a.intersect(cs)
            if inter:
                if inter != a:
                    raise AnalysisError(
                        'character set %r is not a union of atoms' % (cs,))
                out.add(ai)
        res = frozenset(out)
        self._set_atoms[cs] = res
        return res

    def atom_of_char(self, ch):
        for ai, a in enumerate(self.atoms):
            if ch in a:
                return ai
        raise AnalysisError('no atom for %r' % ch)

    def rep(self, ai):
        """a printable representative of the atom if there is one"""
        a = self.atoms[ai]
        for lo, hi in a.iv:
            for o in range(lo, min(hi, lo + 200) + 1):
                c = chr(o)
                if c.isprintable() and not c.isspace() and not (
                        0xD800 <= o <= 0xDFFF):
                    return c
        return a.sample()

    def word(self, atoms):
        return ''.join(self.rep(a) for a in atoms)


# ----------------------------------------------------------------------
# NFA / DFA

class NFA(object):

    def __init__(self):
        self.n = 0
        self.eps = {}
        self.edges = {}     # state -> list of (frozenset atoms, target)

    def new(self):
        self.n += 1
        return self.n - 1

    def add_eps(self, a, b):
        self.eps.setdefault(a, set()).add(b)

    def add(self, a, atoms, b):
        self.edges.setdefault(a, []).append((atoms, b))


class Builder(object):

    def __init__(self, alphabet, flags=0):
        self.alpha = alphabet
        self.flags = flags
        self.nfa = NFA()
        self.lookaheads = []    # (positive?, tree) found at the pattern end

    def seq(self, tree, start, top=False):
        cur = start
        items = list(tree)
        for i, (op, av) in enumerate(items):
            last = i == len(items) - 1
            if op in (C.ASSERT, C.ASSERT_NOT):
                if av[0] != 1:
                    raise AnalysisError('look-behind is not supported')
                if not last:
                    raise AnalysisError(
                        'look-ahead in the middle of a pattern is not '
                        'supported')
                self.lookaheads.append((op is C.ASSERT, av[1], cur))
                continue
            cur = self.item(op, av, cur)
        return cur

    def item(self, op, av, cur):
        nfa = self.nfa
        if op is C.LITERAL:
            nxt = nfa.new()
            nfa.add(cur, self.alpha.atoms_of(CharSet([(av, av)])), nxt)
            return nxt
        if op is C.NOT_LITERAL:
            nxt = nfa.new()
            nfa.add(cur, self.alpha.atoms_of(
                CharSet([(av, av)]).complement()), nxt)
            return nxt
        if op is C.IN:
            nxt = nfa.new()
            nfa.add(cur, self.alpha.atoms_of(in_to_set(av)), nxt)
            return nxt
        if op is C.ANY:
            nxt = nfa.new()
            cs = CharSet([(0, MAXCH)]) if self.flags & re.S \
                else LINEBREAK.complement()
            nfa.add(cur, self.alpha.atoms_of(cs), nxt)
            return nxt
        if op is C.BRANCH:
            end = nfa.new()
            for alt in av[1]:
                s = nfa.new()
                nfa.add_eps(cur, s)
                e = self.seq(alt, s)
                nfa.add_eps(e, end)
            return end
        if op is C.SUBPATTERN:
            return self.seq(av[3], cur)
        if op in (C.MAX_REPEAT, C.MIN_REPEAT):
            lo, hi, sub = av
            for _ in range(lo):
                cur = self.seq(sub, cur)
            if hi is C.MAXREPEAT:
                loop = nfa.new()
                nfa.add_eps(cur, loop)
                e = self.seq(sub, loop)
                nfa.add_eps(e, loop)
                return loop
            end = nfa.new()
            nfa.add_eps(cur, end)
            for _ in range(hi - lo):
                cur = self.seq(sub, cur)
                nfa.add_eps(cur, end)
            return end
        if op is C.AT:
            # ^ and $ of a fully anchored pattern
            return cur
        raise AnalysisError('unsupported regex construct %s' % (op,))


class DFA(object):

    def __init__(self, alpha, trans, accept, start=0):
        self.alpha = alpha
        self.trans = trans      # list of dict atom -> state
        self.accept = accept    # set of states
        self.start = start
        self._live = None

    @property
    def n(self):
        return len(self.trans)

    def step(self, q, a):
        if q is None:
            return None
        return self.trans[q].get(a)

    def live(self):
        """states from which an accepting state is reachable"""
        if self._live is None:
            rev = {}
            for q, d in enumerate(self.trans):
                for a, t in d.items():
                    rev.setdefault(t, set()).add(q)
            live = set(self.accept)
            todo = list(self.accept)
            while todo:
                t = todo.pop()
                for q in rev.get(t, ()):
                    if q not in live:
                        live.add(q)
                        todo.append(q)
            self._live = live
        return self._live

    def accepts(self, atoms):
        q = self.start
        for a in atoms:
            q = self.step(q, a)
            if q is None:
                return False
        return q in self.accept

    def accepts_str(self, s):
        return self.accepts([self.alpha.atom_of_char(c) for c in s])

    def is_empty(self):
        return self.start not in self.live()

    def first_atoms(self):
        return {a for a, t in self.trans[self.start].items()
                if t in self.live()}

    def last_atoms(self):
        out = set()
        reach = self.reachable()
        for q in reach:
            for a, t in self.trans[q].items():
                if t in self.accept:
                    out.add(a)
        return out

    def reachable(self):
        seen = {self.start}
        todo = [self.start]
        while todo:
            q = todo.pop()
            for a, t in self.trans[q].items():
                if t not in seen:
                    seen.add(t)
                    todo.append(t)
        return seen

    def shortest(self, pred=None):
        """shortest accepted word (list of atoms)"""
        from collections import deque
        seen = {self.start: None}
        dq = deque([self.start])
        while dq:
            q = dq.popleft()
            if q in self.accept:
                out = []
                while seen[q] is not None:
                    p, a = seen[q]
                    out.append(a)
                    q = p
                return out[::-1]
            for a, t in sorted(self.trans[q].items()):
                if t not in seen:
                    seen[t] = (q, a)
                    dq.append(t)
        return None


def determinize(nfa, start, accept, alpha):
    def closure(states):
        out = set(states)
        todo = list(states)
        while todo:
            s = todo.pop()
            for t in nfa.eps.get(s, ()):
                if t not in out:
                    out.add(t)
                    todo.append(t)
        return frozenset(out)
    s0 = closure([start])
    ids = {s0: 0}
    trans = [{}]
    acc = set()
    todo = [s0]
    if accept in s0:
        acc.add(0)
    while todo:
        S = todo.pop()
        sid = ids[S]
        by_atom = {}
        for s in S:
            for atoms, t in nfa.edges.get(s, ()):
                for a in atoms:
                    by_atom.setdefault(a, set()).add(t)
        for a, targets in by_atom.items():
            T = closure(targets)
            if T not in ids:
                ids[T] = len(trans)
                trans.append({})
                todo.append(T)
                if accept in T:
                    acc.add(ids[T])
            trans[sid][a] = ids[T]
    return DFA(alpha, trans, acc)


class Compiled(object):
    """a regex compiled to a DFA plus its trailing look-aheads"""

    def __init__(self, pattern, flags, alpha):
        self.pattern = pattern
        tree = parse(pattern, flags)
        b = Builder(alpha, flags)
        start = b.nfa.new()
        end = b.seq(tree, start, top=True)
        self.dfa = determinize(b.nfa, start, end, alpha)
        self.lookaheads = []
        for positive, sub, state in b.lookaheads:
            lb = Builder(alpha, flags)
            ls = lb.nfa.new()
            le = lb.seq(sub, ls)
            self.lookaheads.append(
                (positive, determinize(lb.nfa, ls, le, alpha), sub))
        self.n_lookaheads_inner = len(b.lookaheads)


def equivalent(d1, d2):
    """(True, None) or (False, distinguishing word)"""
    from collections import deque
    seen = {(d1.start, d2.start): None}
    dq = deque([(d1.start, d2.start)])
    atoms = range(d1.alpha.n)
    while dq:
        p, q = dq.popleft()
        if (p in d1.accept if p is not None else False) != (
                q in d2.accept if q is not None else False):
            out = []
            cur = (p, q)
            while seen[cur] is not None:
                prev, a = seen[cur]
                out.append(a)
                cur = prev
            return False, out[::-1]
        for a in atoms:
            np_, nq = d1.step(p, a), d2.step(q, a)
            if np_ is None and nq is None:
                continue
            if (np_, nq) not in seen:
                seen[(np_, nq)] = ((p, q), a)
                dq.append((np_, nq))
    return True, None


def includes(big, small):
    """L(small) subset of L(big)?  (True, None) | (False, witness)"""
    from collections import deque
    seen = {(big.start, small.start): None}
    dq = deque([(big.start, small.start)])
    while dq:
        p, q = dq.popleft()
        if q in small.accept and (p is None or p not in big.accept):
            out = []
            cur = (p, q)
            while seen[cur] is not None:
                prev, a = seen[cur]
                out.append(a)
                cur = prev
            return False, out[::-1]
        for a, nq in small.trans[q].items():
            np_ = big.step(p, a)
            if (np_, nq) not in seen:
                seen[(np_, nq)] = ((p, q), a)
                dq.append((np_, nq))
    return True, None
