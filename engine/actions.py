# -*- coding: utf-8 -*-
"""
E3/E4 - abstract interpretation of the parser actions (the bodies of the
p_* methods) per production alternative.

For every alternative the interpreter yields one or more *outcomes* (paths):
the abstract value of p[0], every node constructed with its setpos() calls,
clone / adjustment effects, and whether the path raises.  Only constant
propagation is done: len(p) is the alternative's length, p[i] of a
fixed-lexeme terminal is that string, `isinstance` / `is None` on a slot
is decided by the slot's *kinds* (E4 typing, fixpoint) or explored both
ways.  Any statement or expression form outside the supported set raises
AnalysisError naming the function - the interpreter never guesses.
"""
from __future__ import annotations

import ast
import itertools

from .common import AnalysisError

# ----------------------------------------------------------------------
# abstract values


class AV(object):
    pass


class Slot(AV):
    """p[idx] unchanged.  `narrow` is a tuple of path facts about the
    slot's value: ('isinstance', types, bool) / ('none', bool)."""
    __slots__ = ('idx', 'sym', 'narrow')

    def __init__(self, idx, sym, narrow=()):
        self.idx = idx
        self.sym = sym
        self.narrow = tuple(narrow)

    def __repr__(self):
        return 'p[%d]:%s%s' % (self.idx, self.sym,
                               '~' if self.narrow else '')


def kind_matches(kind, types, am):
    if kind[0] == 'list':
        return 'list' in types
    if kind[0] == 'node':
        return any(t.startswith('node:') and am.is_subclass(kind[1], t[5:])
                   for t in types)
    return False


def filter_kinds(kinds, narrow, am):
    out = set(kinds)
    for fact in narrow:
        if fact[0] == 'isinstance':
            out = {k for k in out
                   if kind_matches(k, fact[1], am) == fact[2]}
        elif fact[0] == 'none':
            out = {k for k in out if (k == ('none',)) == fact[1]}
    return out


class Const(AV):
    __slots__ = ('value',)

    def __init__(self, value):
        self.value = value

    def __repr__(self):
        return 'Const(%r)' % (self.value,)


class AttrOf(AV):
    __slots__ = ('base', 'attr')

    def __init__(self, base, attr):
        self.base = base
        self.attr = attr

    def __repr__(self):
        return '%r.%s' % (self.base, self.attr)


class Elem(AV):
    __slots__ = ('base', 'idx')

    def __init__(self, base, idx):
        self.base = base
        self.idx = idx

    def __repr__(self):
        return '%r[%d]' % (self.base, self.idx)


class Opaque(AV):
    __slots__ = ('text',)

    def __init__(self, text):
        self.text = text

    def __repr__(self):
        return 'Opaque(%s)' % self.text


P_VALUE = Opaque('p')


class ClassV(AV):
    """a node class passed around as a value (self.asttypes.X)"""
    __slots__ = ('cls',)

    def __init__(self, cls):
        self.cls = cls

    def __repr__(self):
        return 'ClassV(%s)' % self.cls


class Ref(AV):
    __slots__ = ('oid',)

    def __init__(self, oid):
        self.oid = oid

    def __repr__(self):
        return 'Ref(%d)' % self.oid


class FuncV(AV):
    __slots__ = ('node',)

    def __init__(self, node):
        self.node = node


class NodeRec(object):
    """heap record of a constructed node (copy on write)"""

    def __init__(self, cls, attrs, lineno, order, args_text):
        self.cls = cls
        self.attrs = attrs          # attr -> AV
        self.lineno = lineno
        self.order = order
        self.args_text = args_text
        self.setpos = []            # [(idx, additional tuple, lineno)]
        self.clones = {}            # attr -> AV (setattr(x, k, getattr(y,k)))
        self.adjusts = {}           # attr -> int delta
        self.stores = {}            # attr -> text (other attribute stores)

    def copy(self):
        n = NodeRec(self.cls, dict(self.attrs), self.lineno, self.order,
                    self.args_text)
        n.setpos = list(self.setpos)
        n.clones = dict(self.clones)
        n.adjusts = dict(self.adjusts)
        n.stores = dict(self.stores)
        return n


class ListRec(object):

    def __init__(self, base=None, parts=()):
        self.base = base            # AV (a slot holding a child list) | None
        self.parts = list(parts)    # [('item', AV) | ('splice', AV)]

    def copy(self):
        return ListRec(self.base, list(self.parts))


class State(object):

    def __init__(self):
        self.env = {}
        self.heap = {}
        self.slotobj = {}
        self.p0 = None
        self.conds = []
        self.effects = []
        self.counter = [0]
        self.narrow = {}
        self.iter_uses = []
        # structured record of the isinstance tests decided on this path:
        # (value, type names, verdict)
        self.facts = []

    def copy(self):
        s = State()
        s.env = dict(self.env)
        s.heap = dict(self.heap)
        s.slotobj = dict(self.slotobj)
        s.p0 = self.p0
        s.conds = list(self.conds)
        s.effects = list(self.effects)
        s.counter = self.counter
        s.narrow = dict(self.narrow)
        s.iter_uses = list(self.iter_uses)
        s.facts = list(self.facts)
        return s

    def alloc(self, rec):
        self.counter[0] += 1
        oid = self.counter[0]
        self.heap[oid] = rec
        return Ref(oid)

    def mut(self, ref):
        rec = self.heap[ref.oid].copy()
        self.heap[ref.oid] = rec
        return rec


# ----------------------------------------------------------------------
# resolved (immutable, nested) results


class NodeVal(object):

    def __init__(self, cls, attrs, lineno, order, setpos, clones, adjusts,
                 stores):
        self.cls = cls
        self.attrs = attrs
        self.lineno = lineno
        self.order = order
        self.setpos = setpos
        self.clones = clones
        self.adjusts = adjusts
        self.stores = stores

    def __repr__(self):
        return '%s(%s)' % (self.cls, ', '.join(
            '%s=%r' % kv for kv in sorted(self.attrs.items())))


class ListVal(object):

    def __init__(self, base, parts):
        self.base = base
        self.parts = parts

    def __repr__(self):
        out = []
        if self.base is not None:
            out.append('*%r' % (self.base,))
        for k, v in self.parts:
            out.append(('*' if k == 'splice' else '') + repr(v))
        return '[%s]' % ', '.join(out)


class Outcome(object):

    def __init__(self, prod, status, value, nodes, conds, effects, raised,
                 narrow=None, iter_uses=None, facts=None):
        self.facts = facts or []
        self.narrow = narrow or {}
        self.iter_uses = iter_uses or []
        self.prod = prod
        self.status = status      # 'ok' | 'raise'
        self.value = value        # resolved value of p[0] (None if unset)
        self.nodes = nodes        # [NodeVal] every node constructed
        self.conds = conds
        self.effects = effects
        self.raised = raised

    def none_slots(self):
        """slots known to hold None on this path"""
        out = set()
        for idx, facts in self.narrow.items():
            if ('none', True) in facts:
                out.add(idx)
        return out

    def __repr__(self):
        return '<Outcome %s %s %r>' % (self.prod.text, self.status,
                                       self.value)


TRUE, FALSE, BOTH = 'T', 'F', 'B'


class Interp(object):

    def __init__(self, grammar, astmodel, lexmodel, kinds=None):
        self.g = grammar
        self.am = astmodel
        self.lm = lexmodel
        self.kinds = kinds     # nonterminal -> set of kinds, or None

    def is_p(self, node, st):
        """does the expression denote the production object `p` (under
        its own name or as a parameter of an inlined helper)?"""
        if not isinstance(node, ast.Name):
            return False
        if node.id in st.env:
            return st.env[node.id] is P_VALUE
        return node.id == 'p'

    def helper_method(self, f):
        """FunctionDef of self.<name> if it is a helper method of the
        Parser class (not a p_* action)"""
        if isinstance(f, ast.Attribute) and isinstance(
                f.value, ast.Name) and f.value.id == 'self':
            cls = self.g.parser_module.classes.get('Parser')
            for st_ in cls.body:
                if isinstance(st_, ast.FunctionDef) and \
                        st_.name == f.attr and not st_.name.startswith('p_'):
                    return st_
        return None

    # -- kinds oracle ---------------------------------------------------

    def kinds_of_sym(self, sym):
        if self.g.is_terminal(sym):
            return {('str', sym)}
        if self.kinds is None:
            return None
        return self.kinds.get(sym, set())

    # -- driver ---------------------------------------------------------

    def run_production(self, prod):
        func = self.g.functions[prod.func]
        st = State()
        self.prod = prod
        self.func = func
        self.n = len(prod.rhs) + 1
        body = func.body
        finals = []
        for s, status, val in self.exec_block(body, st):
            finals.append((s, 'raise' if status == 'raise' else 'ok', val))
        outs = []
        for s, status, val in finals:
            cache = {}
            value = self.resolve(s.p0, s, cache) if s.p0 is not None \
                else None
            nodes = []
            for oid in sorted(s.heap):
                if isinstance(s.heap[oid], NodeRec):
                    nodes.append(self.resolve(Ref(oid), s, cache))
            outs.append(Outcome(prod, status, value, nodes, s.conds,
                                s.effects, val if status == 'raise' else
                                None, dict(s.narrow),
                                [(self.resolve(v, s, cache), ln, what)
                                 for v, ln, what in s.iter_uses],
                                facts=list(s.facts)))
        return outs

    def err(self, node, msg):
        raise AnalysisError('%s (parsers/es5.py:%s): %s: %s' % (
            self.func.name, getattr(node, 'lineno', '?'), msg,
            ast.unparse(node)[:120]))

    # -- resolution -----------------------------------------------------

    def resolve(self, v, s, cache):
        if isinstance(v, Ref):
            if v.oid in cache:
                return cache[v.oid]
            rec = s.heap[v.oid]
            if isinstance(rec, NodeRec):
                nv = NodeVal(rec.cls, {}, rec.lineno, rec.order,
                             list(rec.setpos), {}, dict(rec.adjusts),
                             dict(rec.stores))
                cache[v.oid] = nv
                for k, a in rec.attrs.items():
                    nv.attrs[k] = self.resolve(a, s, cache)
                for k, a in rec.clones.items():
                    nv.clones[k] = self.resolve(a, s, cache)
                return nv
            lv = ListVal(None, [])
            cache[v.oid] = lv
            # the base of a mutated child list is the child's own value:
            # keep the bare slot (it must not be looked up in slotobj,
            # which maps the slot to this very record)
            lv.base = rec.base if isinstance(rec.base, Slot) else (
                self.resolve(rec.base, s, cache)
                if rec.base is not None else None)
            lv.parts = [(k, self.resolve(a, s, cache)) for k, a in rec.parts]
            return lv
        if isinstance(v, Slot):
            if v.idx in s.slotobj:
                return self.resolve(s.slotobj[v.idx], s, cache)
            if v.idx in s.narrow:
                return Slot(v.idx, v.sym, s.narrow[v.idx])
            return v
        if isinstance(v, AttrOf):
            return AttrOf(self.resolve(v.base, s, cache), v.attr)
        if isinstance(v, Elem):
            return Elem(self.resolve(v.base, s, cache), v.idx)
        return v

    # -- statements -----------------------------------------------------

    def exec_block(self, stmts, st):
        """yields (state, status, value); status in next/return/raise"""
        states = [st]
        for stmt in stmts:
            nxt = []
            for s in states:
                for s2, status, val in self.exec_stmt(stmt, s):
                    if status == 'next':
                        nxt.append(s2)
                    else:
                        yield s2, status, val
            states = nxt
            if not states:
                return
        for s in states:
            yield s, 'next', None

    def exec_stmt(self, stmt, st):
        m = getattr(self, 's_' + type(stmt).__name__, None)
        if m is None:
            self.err(stmt, 'unsupported statement form')
        return m(stmt, st)

    def s_Pass(self, stmt, st):
        yield st, 'next', None

    def s_FunctionDef(self, stmt, st):
        st.env[stmt.name] = FuncV(stmt)
        yield st, 'next', None

    def s_Return(self, stmt, st):
        if stmt.value is None:
            yield st, 'return', None
            return
        for s, v in self.eval(stmt.value, st):
            yield s, 'return', v

    def s_Raise(self, stmt, st):
        yield st, 'raise', ast.unparse(stmt.exc) if stmt.exc else ''

    def s_Expr(self, stmt, st):
        v = stmt.value
        if isinstance(v, ast.Constant):
            yield st, 'next', None
            return
        if isinstance(v, ast.Call) and isinstance(v.func, ast.Attribute):
            meth = v.func.attr
            if meth == 'setpos':
                for s, obj in self.eval(v.func.value, st):
                    self.do_setpos(v, s, obj)
                    yield s, 'next', None
                return
            if meth in ('append', 'extend'):
                if len(v.args) != 1 or v.keywords:
                    self.err(stmt, 'unsupported call')
                for s, obj in self.eval(v.func.value, st):
                    for s2, arg in self.eval(v.args[0], s):
                        self.list_mutate(stmt, s2, obj, meth, arg)
                        yield s2, 'next', None
                return
        if isinstance(v, ast.Call) and isinstance(v.func, ast.Name) and \
                v.func.id == 'setattr':
            for s, _ in self.eval(v, st):
                yield s, 'next', None
            return
        if isinstance(v, ast.Call) and (
                self.helper_method(v.func) is not None or (
                    isinstance(v.func, ast.Name) and isinstance(
                        st.env.get(v.func.id), FuncV))):
            for s, _ in self.eval(v, st):
                yield s, 'next', None
            return
        self.err(stmt, 'unsupported expression statement')

    def s_Assign(self, stmt, st):
        if len(stmt.targets) != 1:
            self.err(stmt, 'multiple assignment targets')
        tgt = stmt.targets[0]
        for s, val in self.eval(stmt.value, st):
            self.assign(tgt, val, s, stmt)
            yield s, 'next', None

    def assign(self, tgt, val, s, stmt):
        if isinstance(tgt, ast.Subscript) and self.is_p(tgt.value, s):
            k = self.const_int(tgt.slice, s)
            if k != 0:
                self.err(stmt, 'store to p[%s]' % k)
            s.p0 = val
        elif isinstance(tgt, ast.Name):
            s.env[tgt.id] = val
        elif isinstance(tgt, ast.Tuple):
            for i, e in enumerate(tgt.elts):
                if isinstance(e, ast.Attribute):
                    # a.x, a.y = f(...): one store per attribute
                    fake = ast.Assign(targets=[e], value=ast.Subscript(
                        value=stmt.value, slice=ast.Constant(i),
                        ctx=ast.Load()))
                    ast.copy_location(fake, stmt)
                    ast.fix_missing_locations(fake)
                    self.assign(e, Opaque('unpacked from %s' % (
                        ast.unparse(stmt.value))), s, fake)
                    continue
                if not isinstance(e, ast.Name):
                    self.err(stmt, 'unsupported unpacking target')
                s.env[e.id] = Opaque('unpacked from %s' % (
                    ast.unparse(stmt.value)))
        elif isinstance(tgt, ast.Attribute):
            objs = self.eval(tgt.value, s)
            if len(objs) != 1:
                self.err(stmt, 'splitting store target')
            s2, obj = objs[0]
            obj = self.deref_slot(obj, s)
            if isinstance(obj, Ref) and isinstance(
                    s.heap[obj.oid], NodeRec):
                rec = s.mut(obj)
                rec.stores[tgt.attr] = ast.unparse(stmt.value)
            else:
                s.effects.append(('store', repr(obj), tgt.attr,
                                  ast.unparse(stmt.value)))
        else:
            self.err(stmt, 'unsupported assignment target')

    def s_AugAssign(self, stmt, st):
        tgt = stmt.target
        if not isinstance(tgt, ast.Attribute) or not isinstance(
                stmt.op, (ast.Add, ast.Sub)):
            self.err(stmt, 'unsupported augmented assignment')
        delta = self.const_int(stmt.value)
        if isinstance(stmt.op, ast.Sub):
            delta = -delta
        objs = self.eval(tgt.value, st)
        if len(objs) != 1:
            self.err(stmt, 'splitting store target')
        s, obj = objs[0]
        obj = self.deref_slot(obj, s)
        if isinstance(obj, Ref) and isinstance(s.heap[obj.oid], NodeRec):
            rec = s.mut(obj)
            rec.adjusts[tgt.attr] = rec.adjusts.get(tgt.attr, 0) + delta
        else:
            s.effects.append(('augstore', repr(obj), tgt.attr, delta))
        yield s, 'next', None

    def s_If(self, stmt, st):
        for s, verdict in self.cond(stmt.test, st):
            branch = stmt.body if verdict else stmt.orelse
            for r in self.exec_block(branch, s):
                yield r

    WHILE_BOUND = 4

    def s_While(self, stmt, st):
        """bounded unrolling; a path on which the test may still hold after
        WHILE_BOUND iterations is cut (recorded as a condition)"""
        if stmt.orelse:
            self.err(stmt, 'while/else')
        states = [st]
        for _ in range(self.WHILE_BOUND):
            nxt = []
            for s in states:
                for s1, verdict in self.cond(stmt.test, s):
                    if not verdict:
                        yield s1, 'next', None
                        continue
                    for s2, status, val in self.exec_block(stmt.body, s1):
                        if status == 'next':
                            nxt.append(s2)
                        else:
                            yield s2, status, val
            states = nxt
            if not states:
                return
        for s in states:
            for s1, verdict in self.cond(stmt.test, s):
                if not verdict:
                    yield s1, 'next', None
                # else: deeper than the bound - cut

    def s_For(self, stmt, st):
        if stmt.orelse:
            self.err(stmt, 'for/else')
        its = self.eval(stmt.iter, st)
        if len(its) != 1:
            self.err(stmt, 'splitting loop iterable')
        s, it = its[0]
        if isinstance(it, Const) and isinstance(it.value, tuple):
            # constant loop: unroll
            states = [s]
            for item in it.value:
                nxt = []
                for s1 in states:
                    s1.env[self.loop_name(stmt)] = item if isinstance(
                        item, AV) else Const(item)
                    for s2, status, val in self.exec_block(stmt.body, s1):
                        if status != 'next':
                            self.err(stmt, 'return/raise inside loop')
                        nxt.append(s2)
                states = nxt
            for s1 in states:
                yield s1, 'next', None
            return
        # `for i in X: Y.append(i)`  ==  Y.extend(X)
        body = stmt.body
        if len(body) == 1 and isinstance(body[0], ast.Expr) and isinstance(
                body[0].value, ast.Call) and isinstance(
                body[0].value.func, ast.Attribute) and \
                body[0].value.func.attr == 'append' and len(
                    body[0].value.args) == 1 and isinstance(
                    body[0].value.args[0], ast.Name) and \
                body[0].value.args[0].id == self.loop_name(stmt):
            for s2, obj in self.eval(body[0].value.func.value, s):
                self.list_mutate(stmt, s2, obj, 'extend', it)
                yield s2, 'next', None
            return
        self.err(stmt, 'unsupported loop form')

    def loop_name(self, stmt):
        if not isinstance(stmt.target, ast.Name):
            self.err(stmt, 'unsupported loop target')
        return stmt.target.id

    # -- effects --------------------------------------------------------

    def deref_slot(self, obj, s):
        if isinstance(obj, Slot) and obj.idx in s.slotobj:
            return s.slotobj[obj.idx]
        return obj

    def list_mutate(self, stmt, s, obj, meth, arg):
        obj = self.deref_slot(obj, s)
        if isinstance(obj, Slot):
            ref = s.alloc(ListRec(base=obj))
            s.slotobj[obj.idx] = ref
            obj = ref
        if not isinstance(obj, Ref) or not isinstance(
                s.heap[obj.oid], ListRec):
            self.err(stmt, 'append/extend on a non-list value %r' % (obj,))
        rec = s.mut(obj)
        rec.parts.append(('item' if meth == 'append' else 'splice', arg))
        if meth == 'extend':
            s.iter_uses.append((arg, getattr(stmt, 'lineno', 0),
                                'extend'))

    def do_setpos(self, call, s, obj):
        obj = self.deref_slot(obj, s)
        if not isinstance(obj, Ref) or not isinstance(
                s.heap[obj.oid], NodeRec):
            self.err(call, 'setpos on a value that is not a node '
                     'constructed in this action')
        if not call.args or not self.is_p(call.args[0], s):
            self.err(call, 'setpos without p')
        idx = 1
        additional = ()
        if len(call.args) > 1:
            idx = self.const_int_in(call.args[1], s)
        if len(call.args) > 2:
            additional = self.const_val(call.args[2])
        for kw in call.keywords:
            if kw.arg == 'idx':
                idx = self.const_int_in(kw.value, s)
            elif kw.arg == 'additional':
                additional = self.const_val(kw.value)
            else:
                self.err(call, 'unknown setpos keyword')
        rec = s.mut(obj)
        rec.setpos.append((idx, tuple(additional), call.lineno))

    def const_int(self, node, st=None):
        if st is not None and isinstance(node, ast.Name) and isinstance(
                st.env.get(node.id), Const) and isinstance(
                st.env[node.id].value, int):
            return st.env[node.id].value
        try:
            v = ast.literal_eval(node)
        except Exception:
            if st is not None:
                # `name + 1` over constant locals
                return self.const_int_in(node, st)
            self.err(node, 'expected an integer constant')
        if not isinstance(v, int):
            self.err(node, 'expected an integer constant')
        return v

    def const_int_in(self, node, s):
        """integer constant, possibly `name - 1` over constant locals"""
        vals = self.eval(node, s)
        if len(vals) == 1 and isinstance(vals[0][1], Const) and isinstance(
                vals[0][1].value, int):
            return vals[0][1].value
        self.err(node, 'expected an integer constant')

    def const_val(self, node):
        try:
            return ast.literal_eval(node)
        except Exception:
            self.err(node, 'expected a constant')

    # -- conditions -----------------------------------------------------

    def cond(self, test, st):
        """list of (state, bool)"""
        v = self.truth(test, st)
        if v == TRUE:
            return [(st, True)]
        if v == FALSE:
            return [(st, False)]
        a = st.copy()
        a.conds.append((ast.unparse(test), True))
        b = st.copy()
        b.conds.append((ast.unparse(test), False))
        if isinstance(test, ast.Call) and isinstance(
                test.func, ast.Name) and test.func.id == 'isinstance' and \
                len(test.args) == 2:
            val = self.eval1(test.args[0], st)
            types = tuple(self.type_names(test.args[1]))
            a.facts.append((val, types, True))
            b.facts.append((val, types, False))
        fact = self.narrowing_fact(test, st)
        if fact is not None:
            idx, kind, arg = fact
            for s, pol in ((a, True), (b, False)):
                if kind == 'isinstance':
                    f = ('isinstance', tuple(arg), pol)
                elif kind == 'notnone':
                    f = ('none', not pol)
                else:
                    f = ('none', pol)
                s.narrow[idx] = s.narrow.get(idx, ()) + (f,)
        return [(a, True), (b, False)]

    def narrowing_fact(self, test, st):
        """(slot index, kind, argument) if the test is a plain
        isinstance / `is None` test on an unmodified slot"""
        if isinstance(test, ast.Call) and isinstance(
                test.func, ast.Name) and test.func.id == 'isinstance':
            v = self.eval1(test.args[0], st)
            if isinstance(v, Slot):
                return v.idx, 'isinstance', self.type_names(test.args[1])
        if isinstance(test, ast.Compare) and len(test.ops) == 1 and \
                isinstance(test.ops[0], (ast.Is, ast.IsNot)) and \
                isinstance(test.comparators[0], ast.Constant) and \
                test.comparators[0].value is None:
            v = self.eval1(test.left, st)
            if isinstance(v, Slot):
                return v.idx, 'none' if isinstance(
                    test.ops[0], ast.Is) else 'notnone', None
        if isinstance(test, ast.UnaryOp) and isinstance(test.op, ast.Not):
            inner = self.narrowing_fact(test.operand, st)
            if inner is not None and inner[1] in ('none', 'notnone'):
                return inner[0], 'notnone' if inner[1] == 'none' \
                    else 'none', None
        return None

    def truth(self, test, st):
        if isinstance(test, ast.UnaryOp) and isinstance(test.op, ast.Not):
            v = self.truth(test.operand, st)
            return {TRUE: FALSE, FALSE: TRUE, BOTH: BOTH}[v]
        if isinstance(test, ast.Compare) and len(test.ops) == 1:
            op = test.ops[0]
            # p.slice[k].type == 'SEMI': the symbol of slot k is the
            # production's
            lt = test.left
            if isinstance(op, (ast.Eq, ast.NotEq)) and isinstance(
                    lt, ast.Attribute) and lt.attr == 'type' and \
                    isinstance(lt.value, ast.Subscript) and isinstance(
                    lt.value.value, ast.Attribute) and \
                    lt.value.value.attr == 'slice' and self.is_p(
                        lt.value.value.value, st) and isinstance(
                    test.comparators[0], ast.Constant):
                k = self.const_int_in(lt.value.slice, st)
                if not 1 <= k <= len(self.prod.rhs):
                    self.err(test, 'slot index out of range')
                same = self.prod.rhs[k - 1] == test.comparators[0].value
                if isinstance(op, ast.NotEq):
                    same = not same
                return TRUE if same else FALSE
            if isinstance(op, (ast.Lt, ast.Gt, ast.LtE, ast.GtE)):
                try:
                    a_ = self.const_int_in(test.left, st)
                    b_ = self.const_int_in(test.comparators[0], st)
                except AnalysisError:
                    self.err(test, 'unsupported ordering comparison')
                r_ = {ast.Lt: a_ < b_, ast.Gt: a_ > b_, ast.LtE: a_ <= b_,
                      ast.GtE: a_ >= b_}[type(op)]
                return TRUE if r_ else FALSE
            left = self.eval1(test.left, st)
            right = self.eval1(test.comparators[0], st)
            if isinstance(op, (ast.Eq, ast.NotEq)):
                r = self.equal(left, right, test)
                if isinstance(op, ast.NotEq):
                    r = {TRUE: FALSE, FALSE: TRUE, BOTH: BOTH}[r]
                return r
            if isinstance(op, (ast.Is, ast.IsNot)):
                if not (isinstance(right, Const) and right.value is None):
                    self.err(test, 'unsupported identity test')
                r = self.is_none(left, st)
                if isinstance(op, ast.IsNot):
                    r = {TRUE: FALSE, FALSE: TRUE, BOTH: BOTH}[r]
                return r
        if isinstance(test, ast.Call) and isinstance(
                test.func, ast.Name) and test.func.id == 'isinstance' and \
                len(test.args) == 2:
            val = self.eval1(test.args[0], st)
            types = self.type_names(test.args[1])
            return self.isinstance(val, types, st)
        self.err(test, 'unsupported condition')

    def eval1(self, node, st):
        vals = self.eval(node, st)
        if len(vals) != 1:
            self.err(node, 'splitting expression in a condition')
        return self.deref_slot(vals[0][1], st)

    def equal(self, a, b, node):
        if isinstance(a, Const) and isinstance(b, Const):
            return TRUE if a.value == b.value else FALSE
        if isinstance(b, Slot):
            a, b = b, a
        if isinstance(a, Slot) and isinstance(b, Const) and isinstance(
                b.value, str):
            if self.g.is_terminal(a.sym):
                lex = self.lm.lexeme(a.sym)
                if lex is None:
                    return BOTH
                return TRUE if lex == b.value else FALSE
            kinds = self.kinds_of_sym(a.sym)
            if kinds is None:
                return BOTH
            strs = [k for k in kinds if k[0] == 'str']
            if not strs:
                return FALSE
            lexs = set(self.lm.lexeme(k[1]) for k in strs)
            if lexs == {b.value} and len(strs) == len(kinds):
                return TRUE
            if b.value not in lexs and None not in lexs:
                return FALSE
            return BOTH
        self.err(node, 'unsupported comparison')

    def is_none(self, v, st):
        if isinstance(v, Const):
            return TRUE if v.value is None else FALSE
        if isinstance(v, Ref):
            return FALSE
        if isinstance(v, Slot):
            kinds = self.kinds_of_sym(v.sym)
            if kinds is None:
                return BOTH
            if ('none',) not in kinds:
                return FALSE
            if kinds == {('none',)}:
                return TRUE
            return BOTH
        return BOTH

    def type_names(self, node):
        if isinstance(node, ast.Tuple):
            out = []
            for e in node.elts:
                out.extend(self.type_names(e))
            return out
        if isinstance(node, ast.Name) and node.id == 'list':
            return ['list']
        t = ast.unparse(node)
        for prefix in ('self.asttypes.', 'asttypes.'):
            if t.startswith(prefix):
                name = t[len(prefix):]
                if name not in self.am.classes:
                    self.err(node, 'unknown node class %s' % name)
                return ['node:' + name]
        self.err(node, 'unsupported isinstance type')

    def isinstance(self, val, types, st):
        if isinstance(val, Ref):
            rec = st.heap[val.oid]
            if isinstance(rec, ListRec):
                return TRUE if 'list' in types else FALSE
            for t in types:
                if t.startswith('node:') and self.am.is_subclass(
                        rec.cls, t[5:]):
                    return TRUE
            return FALSE
        if isinstance(val, Const):
            return FALSE
        if isinstance(val, Slot):
            kinds = self.kinds_of_sym(val.sym)
            if kinds is None:
                return BOTH
            yes = no = False
            for k in kinds:
                hit = False
                if k[0] == 'list' and 'list' in types:
                    hit = True
                if k[0] == 'node':
                    for t in types:
                        if t.startswith('node:') and self.am.is_subclass(
                                k[1], t[5:]):
                            hit = True
                if hit:
                    yes = True
                else:
                    no = True
            if yes and not no:
                return TRUE
            if no and not yes:
                return FALSE
            if not yes and not no:
                return FALSE
            return BOTH
        return BOTH

    # -- expressions ----------------------------------------------------

    def eval(self, node, st):
        """list of (state, value)"""
        m = getattr(self, 'e_' + type(node).__name__, None)
        if m is None:
            self.err(node, 'unsupported expression form')
        return m(node, st)

    def eval_seq(self, nodes, st):
        results = [(st, [])]
        for n in nodes:
            nxt = []
            for s, vals in results:
                for s2, v in self.eval(n, s):
                    nxt.append((s2, vals + [v]))
            results = nxt
        return results

    def e_Constant(self, node, st):
        return [(st, Const(node.value))]

    def e_Name(self, node, st):
        if node.id in st.env:
            return [(st, st.env[node.id])]
        if node.id == 'p':
            return [(st, P_VALUE)]
        if node.id in ('self', 'asttypes', 'list', 'isinstance',
                       'len', 'setattr', 'getattr', 'ProductionError',
                       'ECMASyntaxError', '_'):
            return [(st, Opaque(node.id))]
        self.err(node, 'unknown name')

    def e_Tuple(self, node, st):
        out = []
        for s, vals in self.eval_seq(node.elts, st):
            if all(isinstance(v, Const) for v in vals):
                out.append((s, Const(tuple(v.value for v in vals))))
            else:
                out.append((s, Const(tuple(vals))))
        return out

    def e_List(self, node, st):
        out = []
        for s, vals in self.eval_seq(node.elts, st):
            ref = s.alloc(ListRec(None, [('item', v) for v in vals]))
            out.append((s, ref))
        return out

    def e_Dict(self, node, st):
        return [(st, Opaque(ast.unparse(node)))]

    def e_BinOp(self, node, st):
        out = []
        for s, (a, b) in self.eval_seq([node.left, node.right], st):
            a = self.deref_slot(a, s)
            b = self.deref_slot(b, s)
            if isinstance(node.op, ast.Add) and (
                    self.is_listlike(a, s) or self.is_listlike(b, s)):
                s.iter_uses.append((a, node.lineno, 'list +'))
                s.iter_uses.append((b, node.lineno, 'list +'))
                ref = s.alloc(ListRec(None, [('splice', a), ('splice', b)]))
                out.append((s, ref))
            elif isinstance(a, Const) and isinstance(b, Const) and \
                    isinstance(a.value, int) and isinstance(b.value, int) \
                    and isinstance(node.op, (ast.Add, ast.Sub)):
                out.append((s, Const(
                    a.value + b.value if isinstance(node.op, ast.Add)
                    else a.value - b.value)))
            elif isinstance(node.op, (ast.Mod, ast.Mult)):
                out.append((s, Opaque(ast.unparse(node))))
            else:
                self.err(node, 'unsupported binary operation')
        return out

    def is_listlike(self, v, s):
        if isinstance(v, Ref):
            return isinstance(s.heap[v.oid], ListRec)
        if isinstance(v, Slot) and not self.g.is_terminal(v.sym):
            kinds = self.kinds_of_sym(v.sym)
            if kinds is None:
                return True
            return any(k[0] == 'list' for k in kinds)
        return False

    def e_BoolOp(self, node, st):
        """`x or <default>`: x when it is not None (an empty list is
        replaced by an equal empty default), else the default"""
        if not isinstance(node.op, ast.Or) or len(node.values) != 2:
            self.err(node, 'unsupported boolean expression')
        out = []
        for s, a in self.eval(node.values[0], st):
            a = self.deref_slot(a, s)
            v = self.is_none(a, s)
            if v == FALSE:
                out.append((s, a))
            elif v == TRUE:
                out.extend(self.eval(node.values[1], s))
            else:
                s1 = s.copy()
                s1.conds.append((ast.unparse(node.values[0]) + ' is None',
                                 False))
                if isinstance(a, Slot):
                    s1.narrow[a.idx] = s1.narrow.get(a.idx, ()) + (
                        ('none', False),)
                    a1 = Slot(a.idx, a.sym, s1.narrow[a.idx])
                else:
                    a1 = a
                out.append((s1, a1))
                s2 = s.copy()
                s2.conds.append((ast.unparse(node.values[0]) + ' is None',
                                 True))
                if isinstance(a, Slot):
                    s2.narrow[a.idx] = s2.narrow.get(a.idx, ()) + (
                        ('none', True),)
                out.extend(self.eval(node.values[1], s2))
        return out

    def e_Subscript(self, node, st):
        if self.is_p(node.value, st):
            if isinstance(node.slice, ast.Slice):
                lo = self.const_int(node.slice.lower, st) \
                    if node.slice.lower else None
                hi = self.const_int(node.slice.upper, st) \
                    if node.slice.upper else None
                idxs = list(range(self.n))[lo:hi]
                return [(st, Const(tuple(
                    self.slot(i, st) for i in idxs)))]
            k = self.const_int(node.slice, st)
            if k < 0:
                k += self.n
            if not 0 <= k < self.n:
                self.err(node, 'p[%d] outside the production (len(p)=%d)'
                         % (k, self.n))
            if k == 0:
                if st.p0 is None:
                    self.err(node, 'p[0] read before assignment')
                return [(st, st.p0)]
            return [(st, self.slot(k, st))]
        out = []
        for s, base in self.eval(node.value, st):
            k = self.const_int(node.slice)
            base = self.deref_slot(base, s)
            if isinstance(base, Ref) and isinstance(
                    s.heap[base.oid], ListRec):
                rec = s.heap[base.oid]
                if rec.base is None and all(
                        kind == 'item' for kind, _ in rec.parts):
                    try:
                        out.append((s, rec.parts[k][1]))
                        continue
                    except IndexError:
                        self.err(node, 'index out of range')
            out.append((s, Elem(base, k)))
        return out

    def slot(self, k, st):
        if k in st.slotobj:
            return st.slotobj[k]
        return Slot(k, self.prod.rhs[k - 1])

    def e_Attribute(self, node, st):
        text = ast.unparse(node)
        for prefix in ('self.asttypes.', 'asttypes.'):
            if text.startswith(prefix) and \
                    text[len(prefix):] in self.am.classes:
                return [(st, ClassV(text[len(prefix):]))]
        out = []
        for s, base in self.eval(node.value, st):
            base = self.deref_slot(base, s)
            if isinstance(base, Ref) and isinstance(
                    s.heap[base.oid], NodeRec):
                rec = s.heap[base.oid]
                if node.attr in rec.attrs:
                    out.append((s, rec.attrs[node.attr]))
                    continue
            if isinstance(base, Opaque):
                out.append((s, Opaque('%s.%s' % (base.text, node.attr))))
            else:
                out.append((s, AttrOf(base, node.attr)))
        return out

    def e_Compare(self, node, st):
        return [(st, Opaque(ast.unparse(node)))]

    def e_IfExp(self, node, st):
        out = []
        for s, verdict in self.cond(node.test, st):
            out.extend(self.eval(node.body if verdict else node.orelse, s))
        return out

    def e_Call(self, node, st):
        f = node.func
        # len(p)
        if isinstance(f, ast.Name) and f.id == 'len' and len(
                node.args) == 1 and self.is_p(node.args[0], st):
            return [(st, Const(self.n))]
        # helper method of the Parser class: inline
        hm = self.helper_method(f)
        if hm is not None:
            return self.inline(node, hm, st, method=True)
        # a node class held in a variable
        if isinstance(f, ast.Name) and isinstance(
                st.env.get(f.id), ClassV):
            return self.construct(node, st.env[f.id].cls, st)
        # local function: inline
        if isinstance(f, ast.Name) and isinstance(
                st.env.get(f.id), FuncV):
            return self.inline(node, st.env[f.id].node, st)
        # setattr(x, k, getattr(y, k))
        if isinstance(f, ast.Name) and f.id == 'setattr':
            return self.do_setattr(node, st)
        text = ast.unparse(f)
        for prefix in ('self.asttypes.', 'asttypes.'):
            if text.startswith(prefix):
                return self.construct(node, text[len(prefix):], st)
        if isinstance(f, ast.Attribute) and f.attr in (
                'getpos', 'findpos'):
            return [(st, Opaque(ast.unparse(node)))]
        if isinstance(f, ast.Name) and f.id in (
                'ProductionError', 'ECMASyntaxError'):
            return [(st, Opaque(ast.unparse(node)))]
        if isinstance(f, ast.Name) and f.id in ('list', 'tuple') and \
                len(node.args) == 1 and not node.keywords:
            out = []
            for s, v in self.eval(node.args[0], st):
                v = self.deref_slot(v, s)
                s.iter_uses.append((v, node.lineno, f.id + '()'))
                out.append((s, s.alloc(ListRec(None, [('splice', v)]))))
            return out
        self.err(node, 'unsupported call')

    def do_setattr(self, node, st):
        if len(node.args) != 3:
            self.err(node, 'unsupported setattr')
        out = []
        for s, (obj, key) in self.eval_seq(node.args[:2], st):
            obj = self.deref_slot(obj, s)
            src = node.args[2]
            if not (isinstance(obj, Ref) and isinstance(
                    s.heap[obj.oid], NodeRec) and isinstance(key, Const)
                    and isinstance(key.value, str)):
                self.err(node, 'unsupported setattr target')
            if not (isinstance(src, ast.Call) and isinstance(
                    src.func, ast.Name) and src.func.id == 'getattr' and
                    len(src.args) == 2):
                self.err(node, 'unsupported setattr value')
            for s2, (o2, k2) in self.eval_seq(src.args, s):
                if not (isinstance(k2, Const) and k2.value == key.value):
                    self.err(node, 'setattr copies a different attribute')
                rec = s2.mut(obj)
                rec.clones[key.value] = self.deref_slot(o2, s2)
                out.append((s2, Const(None)))
        return out

    def construct(self, node, cls, st):
        if cls not in self.am.classes:
            self.err(node, 'unknown node class %s' % cls)
        params, attrmap = self.am.init_model(cls)
        names = [p[0] for p in params]
        # Cls(*p[i:j]): the starred slice of the production is expanded
        args = []
        for a in node.args:
            if isinstance(a, ast.Starred):
                if not (isinstance(a.value, ast.Subscript) and self.is_p(
                        a.value.value, st) and isinstance(
                        a.value.slice, ast.Slice)):
                    self.err(node, 'unsupported starred argument')
                sl = a.value.slice
                lo = self.const_int(sl.lower, st) if sl.lower else None
                hi = self.const_int(sl.upper, st) if sl.upper else None
                for i in list(range(self.n))[lo:hi]:
                    args.append(ast.copy_location(ast.Subscript(
                        value=a.value.value, slice=ast.Constant(value=i),
                        ctx=ast.Load()), a))
            else:
                args.append(a)
        node = ast.copy_location(ast.Call(
            func=node.func, args=args, keywords=node.keywords), node)
        ast.fix_missing_locations(node)
        exprs = list(node.args) + [kw.value for kw in node.keywords]
        if any(kw.arg is None for kw in node.keywords):
            self.err(node, '**kwargs in constructor call')
        out = []
        for s, vals in self.eval_seq(exprs, st):
            bound = {}
            if len(node.args) > len(names):
                self.err(node, 'too many constructor arguments')
            for n, v in zip(names, vals[:len(node.args)]):
                bound[n] = v
            for kw, v in zip(node.keywords, vals[len(node.args):]):
                if kw.arg not in names:
                    self.err(node, 'unknown constructor argument %s'
                             % kw.arg)
                if kw.arg in bound:
                    self.err(node, 'duplicate constructor argument')
                bound[kw.arg] = v
            for n, has_default, default in params:
                if n not in bound:
                    if not has_default:
                        self.err(node, 'missing constructor argument %s'
                                 % n)
                    bound[n] = Const(default)
            attrs = {}
            for attr, (kind, pname, none_to_list) in attrmap.items():
                if kind == 'const':
                    continue
                v = bound[pname]
                if none_to_list and isinstance(v, Const) and \
                        v.value is None:
                    v = s.alloc(ListRec(None, []))
                attrs[attr] = v
            order = sum(1 for r in s.heap.values()
                        if isinstance(r, NodeRec))
            ref = s.alloc(NodeRec(cls, attrs, node.lineno, order,
                                  ast.unparse(node)))
            out.append((s, ref))
        return out

    def inline(self, call, fdef, st, method=False):
        a = fdef.args
        if a.vararg or a.kwarg or a.kwonlyargs:
            self.err(call, 'unsupported local function signature')
        names = [x.arg for x in a.args]
        if method:
            if not names or names[0] != 'self':
                self.err(call, 'helper %s is not an instance method'
                         % fdef.name)
            names = names[1:]
        defaults = [None] * (len(names) - len(a.defaults)) + list(a.defaults)
        exprs = list(call.args)
        kwnames = []
        for kw in call.keywords:
            if kw.arg is None or kw.arg not in names:
                self.err(call, 'unsupported keyword argument')
            kwnames.append(kw.arg)
            exprs.append(kw.value)
        if len(call.args) > len(names):
            self.err(call, 'argument count mismatch')
        depth = getattr(self, '_inline_depth', 0)
        if depth > 4:
            self.err(call, 'helper calls nested too deeply')
        self._inline_depth = depth + 1
        out = []
        for s, vals in self.eval_seq(exprs, st):
            saved = dict(s.env)
            bound = dict(zip(names, vals[:len(call.args)]))
            bound.update(zip(kwnames, vals[len(call.args):]))
            for n, d in zip(names, defaults):
                if n in bound:
                    continue
                if d is None:
                    self._inline_depth = depth
                    self.err(call, 'argument count mismatch')
                if not isinstance(d, ast.Constant):
                    self._inline_depth = depth
                    self.err(call, 'non constant default of %s' % n)
                bound[n] = Const(d.value)
            if method:
                # locals of the caller are not visible in a method
                for k in list(s.env):
                    del s.env[k]
            for n, v in bound.items():
                s.env[n] = v
            for s2, status, val in self.exec_block(fdef.body, s):
                if status == 'raise':
                    self.err(call, 'raise inside inlined function')
                # restore caller environment (closure variables of the
                # enclosing action stay visible: only parameters and
                # locals of the callee are dropped)
                env = dict(saved)
                s2.env = env
                out.append((s2, val if val is not None else Const(None)))
        self._inline_depth = depth
        return out


# ----------------------------------------------------------------------
# E4: kinds fixpoint


def value_kinds(v, kinds_of_sym, elem_of_sym, am=None):
    """kinds of a resolved value; returns (kinds, elem_kinds)"""
    if v is None:
        return {('none',)}, set()
    if isinstance(v, NodeVal):
        return {('node', v.cls)}, set()
    if isinstance(v, ListVal):
        elems = set()
        if v.base is not None:
            _, e = value_kinds(v.base, kinds_of_sym, elem_of_sym, am)
            elems |= e
        for kind, item in v.parts:
            k, e = value_kinds(item, kinds_of_sym, elem_of_sym, am)
            if kind == 'item':
                elems |= k
            else:
                elems |= e
        return {('list',)}, elems
    if isinstance(v, Slot):
        ks = set(kinds_of_sym(v.sym))
        if v.narrow:
            ks = filter_kinds(ks, v.narrow, am)
        return ks, set(elem_of_sym(v.sym))
    if isinstance(v, Const):
        if v.value is None:
            return {('none',)}, set()
        return {('const', repr(v.value))}, set()
    return {('opaque', repr(v))}, set()


class ActionModel(object):

    def __init__(self, grammar, astmodel, lexmodel):
        self.g = grammar
        self.am = astmodel
        self.lm = lexmodel
        # pass 1: no oracle, explore both branches of undecided tests
        outcomes = self._run(None)
        kinds, elems = self._fixpoint(outcomes)
        # pass 2: with the oracle (repeat until kinds are stable)
        for _ in range(5):
            outcomes = self._run(kinds)
            k2, e2 = self._fixpoint(outcomes)
            if k2 == kinds and e2 == elems:
                break
            kinds, elems = k2, e2
        else:
            raise AnalysisError('kinds fixpoint does not stabilise')
        self.outcomes = outcomes
        self.kinds = kinds
        self.elem_kinds = elems

    def _run(self, kinds):
        interp = Interp(self.g, self.am, self.lm, kinds)
        out = {}
        for prod in self.g.productions:
            out[prod.index] = interp.run_production(prod)
        return out

    def _fixpoint(self, outcomes):
        kinds = {n: set() for n in self.g.nonterminals}
        elems = {n: set() for n in self.g.nonterminals}

        def ks(sym):
            if self.g.is_terminal(sym):
                return {('str', sym)}
            return kinds[sym]

        def es(sym):
            if self.g.is_terminal(sym):
                return set()
            return elems[sym]

        changed = True
        while changed:
            changed = False
            for prod in self.g.productions:
                for oc in outcomes[prod.index]:
                    if oc.status != 'ok':
                        continue
                    k, e = value_kinds(oc.value, ks, es, self.am)
                    if not k <= kinds[prod.lhs]:
                        kinds[prod.lhs] |= k
                        changed = True
                    if not e <= elems[prod.lhs]:
                        elems[prod.lhs] |= e
                        changed = True
        return kinds, elems

    def of(self, prod):
        return self.outcomes[prod.index]

    def all_outcomes(self):
        for prod in self.g.productions:
            for oc in self.outcomes[prod.index]:
                yield oc

    def node_classes_of(self, sym):
        return sorted(k[1] for k in self.kinds.get(sym, ()) if
                      k[0] == 'node')
