# -*- coding: utf-8 -*-
"""
E6 - finite-domain abstract evaluator for the small predicates and layout
handlers of the repository.

The evaluator interprets the *syntax tree* of a function over stand-in
values drawn from a finite abstract domain chosen by the caller (token-type
classes, boundary-character representatives, node classes).  Enumerating
the whole domain yields the function's decision table; nothing of the
repository is imported or run.  Only the idioms met in the analysed
functions are supported; anything else raises AnalysisError naming the
construct.
"""
from __future__ import annotations

import ast
import re

from .common import AnalysisError
from .srcindex import Folder, RegexConst, Sym, Unfoldable


class Obj(object):
    """stand-in object with attributes; `cls` optionally names an asttypes
    class for isinstance tests"""

    def __init__(self, cls=None, **fields):
        self.__dict__['_cls'] = cls
        self.__dict__['_fields'] = dict(fields)
        self.__dict__['_log'] = []

    def __getattr__(self, name):
        f = self.__dict__['_fields']
        if name in f:
            return f[name]
        raise AnalysisError('abstract object has no attribute %r (class %s)'
                            % (name, self.__dict__['_cls']))

    def __setattr__(self, name, value):
        self.__dict__['_fields'][name] = value
        self.__dict__['_log'].append((name, value))

    def has(self, name):
        return name in self.__dict__['_fields']

    def __repr__(self):
        return 'Obj(%s)' % ', '.join('%s=%r' % kv for kv in sorted(
            self.__dict__['_fields'].items()) if not callable(kv[1]))


class Unknown(object):
    """a value the evaluator must not branch on"""

    def __init__(self, what):
        self.what = what

    def __repr__(self):
        return 'Unknown(%s)' % self.what


_PENDING = object()
_MODVALS = {}

# side-effect free functions of the standard library the analysed code may
# import: applied to the evaluated arguments as they are
import itertools as _it      # noqa: E402
import collections as _co    # noqa: E402
PURE_STDLIB = {
    ('itertools', n): getattr(_it, n) for n in (
        'chain', 'islice', 'product', 'count', 'repeat', 'zip_longest',
        'takewhile', 'dropwhile', 'starmap', 'accumulate', 'compress',
        'filterfalse', 'permutations', 'combinations')}
PURE_STDLIB[('itertools', 'chain.from_iterable')] = _it.chain.from_iterable
PURE_STDLIB.update({('collections', n): getattr(_co, n) for n in (
    'OrderedDict', 'deque', 'Counter')})


def _py_hash(v):
    """hash() of values whose hash is fixed by the language
    implementation (integers, None, booleans, tuples of those); string
    hashes vary per process"""
    def fixed(x):
        if x is None or isinstance(x, (int, bool, float)):
            return True
        return isinstance(x, (tuple, frozenset)) and all(fixed(y) for y in x)
    if not fixed(v):
        raise AnalysisError('hash(%r) is not determined by the source' % (v,))
    return hash(v)


class GenList(list):
    """the values a generator of the evaluated code yields (computed
    eagerly); next() takes them from the front, as a generator would"""

    def __next__(self):
        if not self:
            raise StopIteration
        return self.pop(0)


class ClosureEnv(dict):
    """local names of a nested function over the defining environment"""

    def __init__(self, outer):
        dict.__init__(self)
        self.outer = outer

    def __contains__(self, k):
        return dict.__contains__(self, k) or k in self.outer

    def __getitem__(self, k):
        if dict.__contains__(self, k):
            return dict.__getitem__(self, k)
        return self.outer[k]

    def get(self, k, d=None):
        return self[k] if k in self else d


class Return(Exception):
    def __init__(self, value):
        self.value = value


class LoopContinue(Exception):
    pass


class LoopBreak(Exception):
    pass


class Raised(Exception):
    def __init__(self, text, value=None):
        self.text = text
        self.value = value      # the evaluated exception object, if any


def is_generator(fdef):
    todo = list(fdef.body)
    while todo:
        node = todo.pop()
        if isinstance(node, (ast.Yield, ast.YieldFrom)):
            return True
        if isinstance(node, (ast.FunctionDef, ast.Lambda, ast.ClassDef)):
            continue
        todo.extend(ast.iter_child_nodes(node))
    return False


# filled from the namedtuple definitions of the repository (see
# engine.layout.register_fragment_fields)
TUPLE_FIELDS = {}


class Evaluator(object):
    """Evaluate a FunctionDef on given arguments.

    module      engine.srcindex.Module (for folding module level constants)
    clsname     enclosing class (for folding class attributes)
    methods     name -> FunctionDef for self.<name>(...) calls (inlined)
    functions   name -> python callable stand-ins for external calls
    is_subclass callable(cls, base) for isinstance on Obj
    """

    def __init__(self, module, clsname=None, methods=None, functions=None,
                 is_subclass=None, max_steps=20000, class_methods=None,
                 class_own=None, class_bases=None):
        self.module = module
        self.clsname = clsname
        self.methods = methods or {}
        # pure builtins are available to the evaluated code
        self.functions = {
            'range': range, 'tuple': tuple, 'list': list, 'set': set,
            'dict': dict, 'frozenset': frozenset, 'min': min, 'max': max,
            'sum': sum, 'any': any, 'all': all, 'sorted': sorted,
            'enumerate': enumerate, 'zip': zip, 'abs': abs, 'str': str,
            'int': int, 'repr': repr, 'iter': iter, 'filter': filter,
            'next': next,
            'map': map,
            'reversed': lambda x: list(reversed(list(x))),
            'hash': _py_hash, 'divmod': divmod,
        }
        self.functions.update(functions or {})
        self.is_subclass = is_subclass or (lambda c, b: c == b)
        self.steps = 0
        self.max_steps = max_steps
        self.yielded = None
        self.iter_hook = None
        # cls name -> {method name -> FunctionDef} for stand-in objects
        self.class_methods = class_methods or {}
        # for super(): cls -> own methods, cls -> base class names
        self.class_own = class_own or {}
        self.class_bases = class_bases or {}
        self._callstack = []
        # call module level functions of `module` by evaluating them
        self.inline_module_functions = True
        # id(FunctionDef) -> (module, class name): evaluation context of
        # methods that live in another module than `module`
        self.context_of = {}
        # callable(Sym) -> bool: does the name denote a class
        self.sym_is_class = None
        # calling a class name that has an entry in class_methods creates
        # an Obj and runs its __init__
        self.instantiate_classes = False
        self.class_state = {}
        # tag -> field names of tagged tuples standing in for namedtuples
        self.tuple_fields = TUPLE_FIELDS
        # evaluate the operand of `raise` (Raised.value); off by default
        self.evaluate_raises = False
        # names bound to plain python values (stand-ins for imported
        # constants such as os.path.sep)
        self.constants = {}

    # ------------------------------------------------------------------

    def call(self, fdef, args, kwargs=None, self_obj=None):
        """returns (return value, list of yielded values)"""
        env = {}
        a = fdef.args
        params = [x.arg for x in a.args]
        if self_obj is not None:
            static = any(isinstance(d, ast.Name) and d.id == 'staticmethod'
                         for d in fdef.decorator_list)
            if static:
                pass
            elif not params or params[0] != 'self':
                raise AnalysisError('%s: expected a method' % fdef.name)
            else:
                env['self'] = self_obj
                params = params[1:]
        defaults = [None] * (len(params) - len(a.defaults)) + list(a.defaults)
        if len(args) > len(params) and not a.vararg:
            raise AnalysisError('%s: too many arguments' % fdef.name)
        for n, v in zip(params, args):
            env[n] = v
        if a.vararg:
            env[a.vararg.arg] = tuple(args[len(params):])
        used = set()
        for n, d in list(zip(params, defaults))[len(args):]:
            if kwargs and n in kwargs:
                env[n] = kwargs[n]
                used.add(n)
            elif d is not None:
                env[n] = self.expr(d, {})
            else:
                raise AnalysisError('%s: missing argument %s' % (
                    fdef.name, n))
        for ka, kd in zip(a.kwonlyargs, a.kw_defaults):
            if kwargs and ka.arg in kwargs:
                env[ka.arg] = kwargs[ka.arg]
                used.add(ka.arg)
            elif kd is not None:
                env[ka.arg] = self.expr(kd, {})
            else:
                raise AnalysisError('%s: missing argument %s' % (
                    fdef.name, ka.arg))
        extra = {k: v for k, v in (kwargs or {}).items() if k not in used}
        if a.kwarg:
            env[a.kwarg.arg] = extra
        elif extra and not any(k in params[:len(args)] for k in extra):
            raise AnalysisError('%s: unexpected keyword argument %s' % (
                fdef.name, sorted(extra)))
        saved = self.yielded
        saved_ctx = (self.module, self.clsname)
        ctx = self.context_of.get(id(fdef))
        if ctx is not None:
            self.module, self.clsname = ctx
        self.yielded = []
        self._callstack.append(fdef)
        try:
            try:
                self.block(fdef.body, env)
                ret = None
            except Return as r:
                ret = r.value
            ys = self.yielded
        finally:
            self.yielded = saved
            self._callstack.pop()
            self.module, self.clsname = saved_ctx
        return ret, ys

    def _class_attr(self, cls, attr):
        """a class-body binding; a mutable one is created once (the class
        statement runs once) and is the same object for every instance and
        every later call evaluated by this evaluator"""
        key = (self.module.name, cls, attr)
        if key in self.class_state:
            return self.class_state[key]
        val = self.module.fold_name(attr, cls)
        if isinstance(val, (list, dict, set)):
            self.class_state[key] = val
        return val

    def _super_lookup(self, owner, name):
        todo = list(self.class_bases.get(owner, []))
        seen = set()
        while todo:
            c = todo.pop(0)
            if c in seen:
                continue
            seen.add(c)
            if name in self.class_own.get(c, {}):
                return self.class_own[c][name]
            todo = list(self.class_bases.get(c, [])) + todo
        return None

    def err(self, node, msg):
        raise AnalysisError('abstract evaluation: %s: %s (line %s)' % (
            msg, ast.unparse(node)[:100], getattr(node, 'lineno', '?')))

    def tick(self, node):
        self.steps += 1
        if self.steps > self.max_steps:
            self.err(node, 'step budget exhausted')

    # -- statements ------------------------------------------------------

    def block(self, stmts, env):
        for st in stmts:
            self.stmt(st, env)

    def stmt(self, st, env):
        self.tick(st)
        if isinstance(st, ast.Expr):
            if isinstance(st.value, ast.Constant):
                return
            self.expr(st.value, env)
            return
        if isinstance(st, ast.Pass):
            return
        if isinstance(st, ast.Return):
            raise Return(self.expr(st.value, env) if st.value else None)
        if isinstance(st, ast.If):
            if self.truth(self.expr(st.test, env), st.test):
                self.block(st.body, env)
            else:
                self.block(st.orelse, env)
            return
        if isinstance(st, ast.Assign):
            val = self.expr(st.value, env)
            for t in st.targets:
                self.assign(t, val, env)
            return
        if isinstance(st, ast.AugAssign):
            cur = self.expr(st.target, env)
            val = self.expr(st.value, env)
            new = self.binop(st.op, cur, val, st)
            self.assign(st.target, new, env)
            return
        if isinstance(st, ast.For):
            it = self.expr(st.iter, env)
            if isinstance(it, Unknown):
                self.err(st, 'loop over unknown')
            if isinstance(it, Obj):
                it = self.iterate(it, st)
            broke = False
            for item in it:
                self.assign(st.target, item, env)
                try:
                    self.block(st.body, env)
                except LoopContinue:
                    continue
                except LoopBreak:
                    broke = True
                    break
            if not broke and st.orelse:
                self.block(st.orelse, env)
            return
        if isinstance(st, ast.Try):
            self.try_stmt(st, env)
            return
        if isinstance(st, ast.While):
            while self.truth(self.expr(st.test, env), st.test):
                self.tick(st)
                try:
                    self.block(st.body, env)
                except LoopContinue:
                    continue
                except LoopBreak:
                    break
            return
        if isinstance(st, ast.Delete):
            for t in st.targets:
                if isinstance(t, ast.Name):
                    env.pop(t.id, None)
                elif isinstance(t, ast.Subscript):
                    obj = self.expr(t.value, env)
                    if isinstance(t.slice, ast.Slice):
                        lo = self.expr(t.slice.lower, env) \
                            if t.slice.lower else None
                        hi = self.expr(t.slice.upper, env) \
                            if t.slice.upper else None
                        del obj[lo:hi]
                    else:
                        del obj[self.expr(t.slice, env)]
                elif isinstance(t, ast.Attribute):
                    obj = self.expr(t.value, env)
                    if not isinstance(obj, Obj):
                        self.err(st, 'del on non-object')
                    hook = self.class_methods.get(
                        obj.__dict__['_cls'], {}).get('__delattr__')
                    if hook is not None:
                        self.call(hook, [t.attr], self_obj=obj)
                    else:
                        obj.__dict__['_fields'].pop(t.attr, None)
                else:
                    self.err(st, 'unsupported del target')
            return
        if isinstance(st, ast.Continue):
            raise LoopContinue()
        if isinstance(st, ast.Break):
            raise LoopBreak()
        if isinstance(st, ast.FunctionDef):
            env[st.name] = ('closure', st, env, self.module, self.clsname)
            return
        if isinstance(st, ast.Raise):
            if st.exc is None:
                cur = env.get('__exc__')
                if cur is not None:
                    raise cur
                raise Raised('')
            value = None
            if self.evaluate_raises:
                try:
                    value = self.expr(st.exc, env)
                except AnalysisError:
                    value = None
            raise Raised(ast.unparse(st.exc), value)
        self.err(st, 'unsupported statement')

    CONTROL = (Return, LoopContinue, LoopBreak, AnalysisError)

    def try_stmt(self, st, env):
        """try/except/finally; exceptions are `Raised` (a raise statement
        or a failing subscript of the evaluated code) and the Python
        exceptions of stand-in functions (StopIteration from next())."""
        try:
            try:
                self.block(st.body, env)
            except self.CONTROL:
                raise
            except BaseException as exc:
                # a stand-in may raise an exception that is not an
                # Exception (an interrupt): `except Exception` lets it pass
                base_only = not isinstance(exc, Exception)
                if isinstance(exc, Raised):
                    name = exc.text.split('(')[0].split(':')[0].strip()
                    if isinstance(exc.value, Obj) and exc.value.has('kind'):
                        name = exc.value.kind
                else:
                    name = type(exc).__name__
                # a python exception of a stand-in is caught by the names
                # of all its base classes
                mro_names = [c.__name__ for c in type(exc).__mro__] \
                    if not isinstance(exc, Raised) else [name]
                for h in st.handlers:
                    if h.type is None:
                        names = None
                    elif isinstance(h.type, ast.Tuple):
                        names = [ast.unparse(x) for x in h.type.elts]
                    else:
                        names = [ast.unparse(h.type)]
                    if names is None or name in names or \
                            any(n_ in names for n_ in mro_names
                                if n_ not in ('Exception', 'BaseException',
                                              'object')) or \
                            ('Exception' in names and not base_only) or \
                            'BaseException' in names:
                        eobj = getattr(exc, 'value', None)
                        if not isinstance(eobj, Obj):
                            eobj = Obj('exception', kind=name,
                                       text=getattr(exc, 'text', str(exc)))
                            if not isinstance(exc, Raised):
                                eobj.text = str(exc)
                                eobj.__dict__['_pyexc'] = exc
                        if h.name:
                            env[h.name] = eobj
                        saved_exc = env.get('__exc__')
                        env['__exc__'] = exc
                        try:
                            self.block(h.body, env)
                        finally:
                            if saved_exc is None:
                                env.pop('__exc__', None)
                            else:
                                env['__exc__'] = saved_exc
                        break
                else:
                    raise
            else:
                self.block(st.orelse, env)
        finally:
            if st.finalbody:
                self.block(st.finalbody, env)

    def assign(self, target, val, env):
        if isinstance(target, ast.Name):
            env[target.id] = val
        elif isinstance(target, ast.Attribute):
            obj = self.expr(target.value, env)
            if not isinstance(obj, Obj):
                self.err(target, 'store on non-object')
            hook = self.class_methods.get(obj.__dict__['_cls'], {}).get(
                '__setattr__')
            if hook is not None and not self._in_hook(hook, obj):
                self.call(hook, [target.attr, val], self_obj=obj)
                return
            setattr(obj, target.attr, val)
        elif isinstance(target, ast.Tuple):
            if isinstance(val, Obj):
                val = self.iterate(val, target)
            vals = list(val)
            if len(vals) != len(target.elts):
                self.err(target, 'unpack mismatch')
            for t, v in zip(target.elts, vals):
                self.assign(t, v, env)
        elif isinstance(target, ast.Subscript):
            obj = self.expr(target.value, env)
            if isinstance(target.slice, ast.Slice):
                sl = target.slice
                lo = self.expr(sl.lower, env) if sl.lower else None
                hi = self.expr(sl.upper, env) if sl.upper else None
                obj[lo:hi] = val
                return
            idx = self.expr(target.slice, env)
            obj[idx] = val
        else:
            self.err(target, 'unsupported assignment target')

    # -- expressions -----------------------------------------------------

    def iterate(self, obj, node):
        if self.iter_hook is not None:
            return self.iter_hook(obj)
        fd = self.class_methods.get(obj.__dict__['_cls'], {}).get(
            '__iter__')
        if fd is None:
            self.err(node, 'iteration over an abstract object')
        ret, ys = self.call(fd, [], self_obj=obj)
        return GenList(ys) if is_generator(fd) else ret

    def _in_hook(self, hook, obj):
        """is `hook` already running (a store inside __setattr__ itself
        would recurse in python too, but the analysed code uses super()
        there; plain stores inside the hook are taken as direct)"""
        return any(fd is hook for fd in self._callstack)

    def truth(self, v, node):
        if isinstance(v, Unknown):
            self.err(node, 'branch on unknown value %r' % v)
        if isinstance(v, Obj):
            # python truth protocol of the object's class, if it has one
            cm = self.class_methods.get(v.__dict__['_cls'], {})
            for name in ('__bool__', '__len__'):
                fd = cm.get(name)
                if fd is not None:
                    ret, _ = self.call(fd, [], self_obj=v)
                    return bool(ret)
            return True
        return bool(v)

    def expr(self, e, env):
        self.tick(e)
        m = getattr(self, 'x_' + type(e).__name__, None)
        if m is None:
            self.err(e, 'unsupported expression')
        return m(e, env)

    def x_Constant(self, e, env):
        return e.value

    def x_Name(self, e, env):
        if e.id in env:
            return env[e.id]
        if e.id in self.constants:
            return self.constants[e.id]
        if e.id in self.functions:
            return ('pyfunc', self.functions[e.id])
        if e.id in ('None', 'True', 'False'):
            return {'None': None, 'True': True, 'False': False}[e.id]
        try:
            v = Folder(self.module, self.clsname).fold(e)
        except Unfoldable:
            v = self.module_value(e)
        return v

    def module_value(self, e):
        """value of a module level name whose initialiser the constant
        folder cannot fold (it calls functions of the module): the
        initialiser is evaluated like any other expression"""
        cache = _MODVALS.setdefault(id(self.module), {})
        key = (self.module.name, e.id)
        if key in cache:
            if cache[key] is _PENDING:
                self.err(e, 'recursive module level definition')
            return cache[key]
        init = getattr(self.module, 'assigns', {}).get(e.id)
        if init is None:
            self.err(e, 'unknown name')
        cache[key] = _PENDING
        saved = self.clsname
        self.clsname = None
        try:
            v = self.expr(init, {})
        finally:
            self.clsname = saved
            if cache.get(key) is _PENDING:
                del cache[key]
        cache[key] = v
        return v

    def x_Tuple(self, e, env):
        return tuple(self.expr(x, env) for x in e.elts)

    def x_List(self, e, env):
        return [self.expr(x, env) for x in e.elts]

    def x_Set(self, e, env):
        return set(self.expr(x, env) for x in e.elts)

    def x_Dict(self, e, env):
        return {self.expr(k, env): self.expr(v, env)
                for k, v in zip(e.keys, e.values)}

    def x_Attribute(self, e, env):
        base = self.expr(e.value, env)
        if isinstance(base, tuple) and base and base[0] == 'super':
            fd = self._super_lookup(base[2], e.attr)
            if fd is None:
                obj_ = base[1]
                if e.attr == '__setattr__':
                    return ('pyfunc', lambda k, v: setattr(obj_, k, v))
                if e.attr == '__getattribute__':
                    return ('pyfunc', lambda k: getattr(obj_, k))
                if e.attr == '__delattr__':
                    return ('pyfunc', lambda k: obj_.__dict__['_fields'].pop(
                        k, None))
                if e.attr == '__init__':
                    return ('pyfunc', lambda *a, **k: None)
                self.err(e, 'super() has no attribute')
            return ('method', fd, base[1])
        if isinstance(base, Obj):
            if base.has(e.attr):
                return getattr(base, e.attr)
            if e.attr == '__class__':
                return Obj('type', __name__=base.__dict__['_cls'])
            if env.get('self') is base and e.attr in self.methods and \
                    base.__dict__['_cls'] not in self.class_methods:
                fd = self.methods[e.attr]
                if any(isinstance(d, ast.Name) and d.id == 'property'
                       for d in fd.decorator_list):
                    ret, _ = self.call(fd, [], self_obj=base)
                    return ret
                return ('method', fd, base)
            cm = self.class_methods.get(base.__dict__['_cls'], {})
            if e.attr in cm:
                fd = cm[e.attr]
                if any(isinstance(d, ast.Name) and d.id == 'property'
                       for d in fd.decorator_list):
                    ret, _ = self.call(fd, [], self_obj=base)
                    return ret
                return ('method', fd, base)
            # class constants
            if env.get('self') is base and self.clsname:
                try:
                    return self._class_attr(self.clsname, e.attr)
                except Unfoldable:
                    pass
            # class attributes of the object's own class and its bases
            todo = [base.__dict__['_cls']]
            seen_c = set()
            while todo:
                c = todo.pop(0)
                if c in seen_c or not isinstance(c, str):
                    continue
                seen_c.add(c)
                if c in getattr(self.module, 'classes', {}):
                    try:
                        return self._class_attr(c, e.attr)
                    except Unfoldable:
                        pass
                todo.extend(self.class_bases.get(c, []))
            hook = cm.get('__getattr__')
            if hook is not None and not self._in_hook(hook, base):
                ret, _ = self.call(hook, [e.attr], self_obj=base)
                return ret
            if e.attr == '__class__':
                return Obj('type', __name__=base.__dict__['_cls'])
            if base.__dict__.get('_closed'):
                # an object built entirely by evaluated code: what it
                # lacks, the real object lacks
                raise Raised('AttributeError(%r)' % e.attr)
            self.err(e, 'abstract object lacks attribute')
        if isinstance(base, RegexConst) and e.attr in (
                'match', 'sub', 'search', 'split', 'findall', 'fullmatch',
                'finditer'):
            return ('regex', base, e.attr)
        if isinstance(base, str) and not e.attr.startswith('_') and \
                hasattr(base, e.attr):
            return ('pyfunc', getattr(base, e.attr))
        if isinstance(base, bytes) and e.attr in ('decode',):
            return ('pyfunc', getattr(base, e.attr))
        if isinstance(base, (list, set, dict, frozenset, tuple)) and \
                e.attr in (
                'append', 'pop', 'add', 'get', 'extend', 'update', 'keys',
                'values', 'items', 'copy', 'setdefault', 'insert', 'union',
                'intersection', 'difference', 'issubset', 'issuperset',
                'isdisjoint', 'discard', 'remove', 'index', 'count',
                'clear', 'reverse', 'sort', 'symmetric_difference') and \
                hasattr(base, e.attr):
            return ('pyfunc', getattr(base, e.attr))
        if type(base).__name__ in ('Match', 'SRE_Match') and e.attr in (
                'group', 'groups', 'start', 'end', 'span', 'groupdict'):
            return ('pyfunc', getattr(base, e.attr))
        if isinstance(base, Unknown):
            return Unknown('%s.%s' % (base.what, e.attr))
        if isinstance(base, Sym):
            return Sym(base.module, '%s.%s' % (base.name, e.attr))
        if isinstance(base, tuple) and base and isinstance(
                base[0], str) and base[0] in self.tuple_fields and \
                e.attr in self.tuple_fields[base[0]]:
            # a tagged stand-in of a namedtuple: field access by name
            return base[1 + self.tuple_fields[base[0]].index(e.attr)]
        if base is None and not e.attr.startswith('__'):
            # python: 'NoneType' object has no attribute ...
            raise Raised("AttributeError(\"'NoneType' object has no "
                         "attribute %r\")" % e.attr)
        self.err(e, 'attribute of %r' % (base,))

    def x_Subscript(self, e, env):
        base = self.expr(e.value, env)
        if isinstance(base, Unknown):
            return Unknown('%s[..]' % base.what)
        if isinstance(e.slice, ast.Slice):
            lo = self.expr(e.slice.lower, env) if e.slice.lower else None
            hi = self.expr(e.slice.upper, env) if e.slice.upper else None
            st = self.expr(e.slice.step, env) if e.slice.step else None
            return base[lo:hi:st]
        idx = self.expr(e.slice, env)
        try:
            return base[idx]
        except (IndexError, KeyError) as exc:
            raise Raised('%s: %s' % (type(exc).__name__, ast.unparse(e)))

    def x_UnaryOp(self, e, env):
        v = self.expr(e.operand, env)
        if isinstance(e.op, ast.Not):
            return not self.truth(v, e)
        if isinstance(e.op, ast.USub):
            return -v
        if isinstance(e.op, ast.UAdd):
            return +v
        if isinstance(e.op, ast.Invert):
            return ~v
        self.err(e, 'unsupported unary operator')

    def x_BoolOp(self, e, env):
        if isinstance(e.op, ast.And):
            v = True
            for x in e.values:
                v = self.expr(x, env)
                if not self.truth(v, x):
                    return v
            return v
        v = False
        for x in e.values:
            v = self.expr(x, env)
            if self.truth(v, x):
                return v
        return v

    def x_IfExp(self, e, env):
        if self.truth(self.expr(e.test, env), e.test):
            return self.expr(e.body, env)
        return self.expr(e.orelse, env)

    def x_Compare(self, e, env):
        left = self.expr(e.left, env)
        for op, c in zip(e.ops, e.comparators):
            right = self.expr(c, env)
            if isinstance(left, Unknown) or isinstance(right, Unknown):
                self.err(e, 'comparison with unknown')
            if isinstance(op, (ast.In, ast.NotIn)) and isinstance(
                    right, (Sym, Obj)):
                self.err(e, 'membership in an object outside the model')
            if isinstance(op, ast.Eq):
                r = left == right
            elif isinstance(op, ast.NotEq):
                r = left != right
            elif isinstance(op, ast.In):
                r = left in right
            elif isinstance(op, ast.NotIn):
                r = left not in right
            elif isinstance(op, ast.Is):
                r = left is right
            elif isinstance(op, ast.IsNot):
                r = left is not right
            elif isinstance(op, ast.Lt):
                r = left < right
            elif isinstance(op, ast.Gt):
                r = left > right
            elif isinstance(op, ast.LtE):
                r = left <= right
            elif isinstance(op, ast.GtE):
                r = left >= right
            else:
                self.err(e, 'unsupported comparison')
            if not r:
                return False
            left = right
        return True

    def binop(self, op, a, b, node):
        if isinstance(a, Unknown) or isinstance(b, Unknown):
            return Unknown('binop')
        try:
            return self._binop(op, a, b, node)
        except (TypeError, ValueError, ZeroDivisionError) as exc:
            if isinstance(a, Obj) or isinstance(b, Obj):
                self.err(node, 'operator applied to an abstract object')
            # the evaluated code itself fails here
            raise Raised('%s(%r)' % (type(exc).__name__, str(exc)))

    def _binop(self, op, a, b, node):
        if isinstance(op, ast.Add):
            return a + b
        if isinstance(op, ast.Sub):
            return a - b
        if isinstance(op, ast.Mult):
            return a * b
        if isinstance(op, ast.BitAnd):
            return a & b
        if isinstance(op, ast.BitOr):
            return a | b
        if isinstance(op, ast.Mod):
            return a % b
        if isinstance(op, ast.LShift):
            if not isinstance(b, int) or b > 4096:
                self.err(node, 'shift amount')
            return a << b
        if isinstance(op, ast.RShift):
            return a >> b
        if isinstance(op, ast.BitXor):
            return a ^ b
        if isinstance(op, ast.FloorDiv):
            return a // b
        if isinstance(op, ast.Div):
            return a / b
        if isinstance(op, ast.Pow):
            if not isinstance(b, (int, float)) or abs(b) > 4096:
                self.err(node, 'exponent')
            return a ** b
        self.err(node, 'unsupported binary operator')

    def x_BinOp(self, e, env):
        return self.binop(e.op, self.expr(e.left, env),
                          self.expr(e.right, env), e)

    def _comp(self, e, env, emit):
        out = []

        def rec(gens, env):
            if not gens:
                out.append(emit(env))
                return
            g = gens[0]
            it = self.expr(g.iter, env)
            if isinstance(it, Obj):
                it = self.iterate(it, e)
            for item in list(it):
                sub = ClosureEnv(env)
                self.assign(g.target, item, sub)
                if all(self.truth(self.expr(c, sub), c) for c in g.ifs):
                    rec(gens[1:], sub)
        rec(e.generators, env)
        return out

    def x_ListComp(self, e, env):
        return self._comp(e, env, lambda sub: self.expr(e.elt, sub))

    def x_GeneratorExp(self, e, env):
        return self._comp(e, env, lambda sub: self.expr(e.elt, sub))

    def x_SetComp(self, e, env):
        return set(self._comp(e, env, lambda sub: self.expr(e.elt, sub)))

    def x_DictComp(self, e, env):
        return dict(self._comp(e, env, lambda sub: (
            self.expr(e.key, sub), self.expr(e.value, sub))))

    def call_closure(self, f, args, kwargs, e=None):
        # the closure shares the defining environment for reads; names it
        # binds itself are local (python semantics without `nonlocal`)
        fd = f[1]
        sub = ClosureEnv(f[2])
        names = [x.arg for x in fd.args.args]
        defaults = [None] * (len(names) - len(fd.args.defaults)) + \
            list(fd.args.defaults)
        if len(args) > len(names):
            self.err(e or fd, 'too many arguments for closure')
        for nme, v in zip(names, args):
            sub[nme] = v
        for nme, d in list(zip(names, defaults))[len(args):]:
            if kwargs and nme in kwargs:
                sub[nme] = kwargs[nme]
            elif d is not None:
                sub[nme] = self.expr(d, f[2])
            else:
                self.err(e or fd, 'missing closure argument %s' % nme)
        gen = is_generator(fd)
        saved = self.yielded
        saved_ctx = (self.module, self.clsname)
        if len(f) >= 5:
            self.module, self.clsname = f[3], f[4]
        if gen:
            self.yielded = []
        try:
            try:
                self.block(fd.body, sub)
                ret = None
            except Return as r:
                ret = r.value
            ys = self.yielded
        finally:
            self.yielded = saved
            self.module, self.clsname = saved_ctx
        return GenList(ys) if gen else ret

    def as_callable(self, v):
        """closures handed to python stand-ins (key=lambda ...) become
        python callables"""
        if isinstance(v, tuple) and v and v[0] == 'closure':
            return lambda *a, **k: self.call_closure(v, list(a), k)
        if isinstance(v, tuple) and v and v[0] == 'pyfunc':
            return v[1]
        if isinstance(v, tuple) and v and v[0] == 'method':
            def bound(*a, **k):
                ret, ys = self.call(v[1], list(a), k, self_obj=v[2])
                return GenList(ys) if is_generator(v[1]) else ret
            return bound
        return v

    def x_Lambda(self, e, env):
        fd = ast.FunctionDef(
            name='<lambda>', args=e.args,
            body=[ast.Return(value=e.body)], decorator_list=[],
            returns=None, type_comment=None)
        ast.copy_location(fd, e)
        ast.fix_missing_locations(fd)
        return ('closure', fd, env, self.module, self.clsname)

    def x_Yield(self, e, env):
        self.yielded.append(self.expr(e.value, env) if e.value else None)
        return None

    def x_Call(self, e, env):
        # isinstance / len / callable handled structurally
        if isinstance(e.func, ast.Name):
            n = e.func.id
            if n == 'isinstance' and n not in env:
                obj = self.expr(e.args[0], env)
                targ = e.args[1]
                tnodes = targ.elts if isinstance(targ, ast.Tuple) else [targ]
                if len(tnodes) == 1 and isinstance(tnodes[0], ast.Name) \
                        and tnodes[0].id == 'type' and 'type' not in env:
                    # isinstance(x, type): class objects are Syms
                    if isinstance(obj, Sym):
                        return bool(self.sym_is_class and
                                    self.sym_is_class(obj))
                    return False
                if isinstance(obj, Obj) and all(isinstance(
                        t, (ast.Name, ast.Attribute)) for t in tnodes):
                    # class names are taken from the syntax (they may be
                    # shadowed by stand-in constructors) - unless a name
                    # is a variable holding a tuple of classes
                    cls = obj.__dict__['_cls']
                    names = []
                    for t in tnodes:
                        held = None
                        if isinstance(t, ast.Name):
                            if t.id in env:
                                held = env[t.id]
                            else:
                                try:
                                    held = Folder(
                                        self.module, self.clsname).fold(t)
                                except Unfoldable:
                                    held = None
                        if isinstance(held, (tuple, list)) and held and \
                                all(isinstance(x, Sym) for x in held):
                            names.extend(x.name.split('.')[-1]
                                         for x in held)
                        else:
                            names.append(t.id if isinstance(t, ast.Name)
                                         else t.attr)
                    return any(self.is_subclass(cls, nm) for nm in names)
                types = self.expr(e.args[1], env)
                if not isinstance(types, tuple):
                    types = (types,)
                if isinstance(obj, Obj):
                    cls = obj.__dict__['_cls']
                    return any(isinstance(t, Sym) and self.is_subclass(
                        cls, t.name.split('.')[-1]) for t in types)
                builtin = {'int': int, 'str': str, 'list': list,
                           'tuple': tuple, 'dict': dict, 'bool': bool,
                           'float': float, 'set': set,
                           'frozenset': frozenset}
                for t in types:
                    if isinstance(t, Sym) and t.module == 'builtins' and \
                            t.name in builtin and isinstance(
                                obj, builtin[t.name]):
                        return True
                    if isinstance(t, type) and isinstance(obj, t):
                        return True
                    if isinstance(t, tuple) and len(t) == 2 and \
                            t[0] == 'pyfunc' and isinstance(t[1], type) \
                            and isinstance(obj, t[1]):
                        return True
                return False
            if n == 'len' and n not in env:
                return len(self.expr(e.args[0], env))
            if n == 'bool' and n not in env:
                return self.truth(self.expr(e.args[0], env), e)
            if n == 'super' and n not in env and self._callstack:
                cur = self._callstack[-1]
                owner = None
                if len(e.args) == 2 and isinstance(e.args[0], ast.Name) \
                        and e.args[0].id in self.class_own:
                    owner = e.args[0].id
                for c, ms in self.class_own.items():
                    if owner is None and any(
                            fd is cur for fd in ms.values()):
                        owner = c
                if owner is None or 'self' not in env:
                    self.err(e, 'super() outside a known class')
                return ('super', env['self'], owner)
            if n == 'hasattr' and n not in env and \
                    n not in self.functions:
                obj = self.expr(e.args[0], env)
                name = self.expr(e.args[1], env)
                if isinstance(obj, Obj):
                    return obj.has(name)
                return hasattr(obj, name)
            if n == 'setattr' and n not in env and \
                    n not in self.functions and len(e.args) == 3 and \
                    not e.keywords:
                obj = self.expr(e.args[0], env)
                name = self.expr(e.args[1], env)
                val = self.expr(e.args[2], env)
                if not (isinstance(obj, Obj) and isinstance(name, str)):
                    self.err(e, 'setattr on %r' % (obj,))
                hook = self.class_methods.get(obj.__dict__['_cls'], {}).get(
                    '__setattr__')
                if hook is not None and not self._in_hook(hook, obj):
                    self.call(hook, [name, val], self_obj=obj)
                else:
                    setattr(obj, name, val)
                return None
            if n == 'getattr' and n not in env and \
                    n not in self.functions and len(e.args) in (2, 3) \
                    and not e.keywords:
                obj = self.expr(e.args[0], env)
                name = self.expr(e.args[1], env)
                if isinstance(obj, Obj) and isinstance(name, str):
                    if obj.has(name):
                        return getattr(obj, name)
                    cm = self.class_methods.get(obj.__dict__['_cls'], {})
                    if name in cm:
                        return ('method', cm[name], obj)
                    if len(e.args) == 3:
                        return self.expr(e.args[2], env)
                    raise Raised('AttributeError(%r)' % name)
                if not isinstance(obj, (Obj, Unknown, Sym, tuple)) and \
                        isinstance(name, str):
                    if len(e.args) == 3:
                        return getattr(obj, name, self.expr(e.args[2], env))
                    if not hasattr(obj, name):
                        raise Raised('AttributeError(%r)' % name)
                    return getattr(obj, name)
        f = self.expr(e.func, env)
        args = []
        for a in e.args:
            if isinstance(a, ast.Starred):
                args.extend(list(self.expr(a.value, env)))
            else:
                args.append(self.expr(a, env))
        kwargs = {}
        for k in e.keywords:
            if k.arg is None:
                extra = self.expr(k.value, env)
                if not isinstance(extra, dict):
                    self.err(e, '** of a non-dict')
                kwargs.update(extra)
            else:
                kwargs[k.arg] = self.expr(k.value, env)
        if isinstance(f, tuple) and f[0] == 'method':
            ret, ys = self.call(f[1], args, kwargs, self_obj=f[2])
            if is_generator(f[1]):
                return GenList(ys)
            return ret
        if isinstance(f, Obj):
            cm = self.class_methods.get(f.__dict__['_cls'], {})
            if '__call__' not in cm:
                self.err(e, 'call of an abstract object without __call__')
            f = ('method', cm['__call__'], f)
        if isinstance(f, tuple) and f[0] == 'method':
            ret, ys = self.call(f[1], args, kwargs, self_obj=f[2])
            if is_generator(f[1]):
                return GenList(ys)
            return ret
        if isinstance(f, tuple) and f[0] == 'closure':
            return self.call_closure(f, args, kwargs, e)
        if isinstance(f, tuple) and f[0] == 'pyfunc':
            if 'key' in kwargs:
                kwargs = dict(kwargs, key=self.as_callable(kwargs['key']))
            if f[1] in (map, filter) and args:
                args[0] = self.as_callable(args[0])
            if f[1] in (list, tuple, sorted, set, frozenset, sum, any, all,
                        min, max, enumerate, zip, iter) and args and \
                    isinstance(args[0], Obj):
                args[0] = self.iterate(args[0], e)
            return f[1](*args, **kwargs)
        if isinstance(f, tuple) and f[0] == 'regex':
            rx = re.compile(f[1].pattern, f[1].flags)
            if any(isinstance(a, Unknown) for a in args):
                return Unknown('regex result')
            res = getattr(rx, f[2])(*args)
            if f[2] == 'finditer':
                res = list(res)
            return res
        if isinstance(f, Sym):
            if f.name in self.functions:
                return self.functions[f.name](*args, **kwargs)
            short = f.name
            if short.startswith('<module>.'):
                # attribute of an imported module of the package
                short = short[len('<module>.'):]
                key = '%s.%s' % ((f.module or '').split('.')[-1], short)
                if key in self.functions:
                    return self.functions[key](*args, **kwargs)
            if self.inline_module_functions and \
                    f.module == self.module.name and \
                    f.name in self.module.functions:
                fd = self.module.functions[f.name]
                ret, ys = self.call(fd, args, kwargs)
                return GenList(ys) if is_generator(fd) else ret
            if self.instantiate_classes and f.name in self.class_methods:
                obj = Obj(f.name)
                init = self.class_methods[f.name].get('__init__')
                if init is not None:
                    self.call(init, args, kwargs, self_obj=obj)
                return obj
            if self.inline_module_functions and f.module and \
                    f.module != self.module.name and \
                    f.module.startswith('calmjs.parse') and \
                    getattr(self.module, 'index', None) is not None:
                # a function of another module of the package: evaluated
                # in the context of its own module
                other = self.module.index.module(f.module)
                if other is not None and short in other.functions:
                    fd = other.functions[short]
                    self.context_of.setdefault(id(fd), (other, None))
                    ret, ys = self.call(fd, args, kwargs)
                    return GenList(ys) if is_generator(fd) else ret
            pure = PURE_STDLIB.get((f.module, short))
            if pure is not None:
                args = [self.iterate(a, e) if isinstance(a, Obj) else
                        self.as_callable(a) for a in args]
                return pure(*args, **kwargs)
            # construction of a namedtuple-like record
            return ('record', f.name, tuple(args), kwargs)
        self.err(e, 'unsupported call')
